"""C12 — context lifecycle: unique names, clean failure, stop reclaims everything.

Model: lean/QmiModel/Model/Context.lean; theorems: Props/C12.lean; driver: Drv/C12.lean.
Tie: every operation of a generated history is executed on a real `QMI_Context` (under harness.simworld: deterministic
scheduler + in-memory network) and the *abstract state* read back from the real objects after each operation (object
map, router handler map, live managers / threads, sockets, release order, flags, per-operation event list) is compared
line by line with the Lean model; `stop ‖ make` outcomes must be members of the model's outcome set.  The property
oracle is evaluated directly on the implementation observations with its own bookkeeping (no Lean involved).
"""
from __future__ import annotations

import contextlib
import threading as _rt
import warnings

from harness.core import Broken, Ctx, Failure, LeanDriver, Prop, Result

PORT = 5000
PEER_PORT = 5100
NAMES = {1: "a", 2: "b-1", 3: "c_(2)", 4: "y" * 63,
         5: "A", 6: "aa", 7: "a_", 8: "(a)"}      # related names: case, prefix / suffix of "a" (must be distinct objects)
IDX = {v: k for k, v in NAMES.items()}
IDX["$context"] = 0
INVALID = ["", "bad name", "x.y", "$x", "z" * 64, "a/b", "naïve", "a ", " a", "a.b", "a$", "$context", "a\tb", "y" * 63 + "-"]
RPC_TIMEOUT = 20.0


def ref_valid(name: str) -> bool:
    """independent statement of the documented naming rule (1..63 chars of letters, digits, - _ ( ))"""
    ok = set("abcdefghijklmnopqrstuvwxyzABCDEFGHIJKLMNOPQRSTUVWXYZ0123456789-_()")
    return 1 <= len(name) <= 63 and all(ch in ok for ch in name)


# ---------------------------------------------------------------------------
# recording
# ---------------------------------------------------------------------------

class CtxRec:
    def __init__(self, ctx):
        self.ctx = ctx
        self.n_mgr = 0
        self.mgrs = []            # every RpcObjectManager created for this context
        self.rel = []             # manager ids in release order
        self.rel_count = {}
        self.router_threads = []
        self.socks = []           # (kind, SimSocket)
        self.task_threads = []
        self.hcalls = []
        self.events = []
        self.left_open = []       # instruments released while open (release order)
        self.act_log = []         # (who, act, outcome) of context operations done by release steps / task bodies / stop handlers
        self.objs = []            # (manager id, object) of every constructed test object


class Rec:
    def __init__(self):
        self.by_ctx = {}
        self.cur = None           # (CtxRec, manager id) of the constructor that is running
        self.udp_fail = 0
        self.tcp_fail = 0
        self.base_threads = set(_rt.enumerate())
        self.gate = None          # (position, predicate) for directed stop‖make schedules
        self.maker_ident = None
        self.world = None
        self.cur_op = -1
        self.flags = {}
        self.mevents = []         # layer D: (worker thread, event string) in linearisation order
        self.reqids = {}

    def rid(self, message) -> int:
        return self.reqids.setdefault(message.request_id, len(self.reqids) + 1)

    def of(self, ctx) -> CtxRec:
        r = self.by_ctx.get(id(ctx))
        if r is None:
            r = self.by_ctx[id(ctx)] = CtxRec(ctx)
        return r

    def of_router(self, router):
        for r in self.by_ctx.values():
            if getattr(r.ctx, "_message_router", None) is router:
                return r
        return None


REC: Rec = None  # type: ignore

_CLS = None


def classes():
    """test classes (lazily: qmi must be imported from core.REPO)"""
    global _CLS
    if _CLS is not None:
        return _CLS
    from qmi.core.rpc import QMI_RpcObject, rpc_method
    from qmi.core.instrument import QMI_Instrument
    from qmi.core.task import QMI_Task, QMI_TaskRunner

    class Boom(Exception):
        pass

    class BaseBoom(BaseException):
        pass

    def raise_kind(code, mark, msg):
        """raise an exception of kind `code` (see EXC_KINDS), tagged so that the harness can tell the injected one"""
        import asyncio
        import sys as _sys
        try:
            if code == 3:
                _sys.exit(msg)
            cls = {0: Boom, 1: Boom, 2: BaseBoom, 4: KeyboardInterrupt, 5: GeneratorExit, 6: asyncio.CancelledError,
                   7: KeyError, 8: AssertionError, 9: StopIteration, 10: OSError}[int(code)]
            raise cls(msg)
        except BaseException as e:
            e._c12_mark = mark
            raise

    def enter(obj):
        obj._c12 = REC.cur
        REC.cur[0].objs.append((REC.cur[1], obj))

    def ev(obj, what):
        rec, mid = obj._c12
        rec.events.append(f"{what}:{mid}")

    def raising(obj):
        if obj.spec["relF"]:
            ev(obj, "relexc")
            raise_kind(obj.spec.get("relBase") or 1, "rel", "release")

    def released(obj):
        rec, mid = obj._c12
        rec.rel.append(mid)
        rec.rel_count[mid] = rec.rel_count.get(mid, 0) + 1
        rec.events.append(f"rel:{mid}")
        do_acts(obj._context, (getattr(obj, "spec", None) or {}).get("acts") or [], f"release:{mid}")

    def do_acts(ctx, acts, who):
        """user code acting on the CONTEXT from inside a release step / task body / stop handler: remove another object,
        make one, look one up and call it, stop() re-entrantly.  Every outcome is recorded; nothing may hang."""
        from harness import detsched as D
        rec = REC.of(ctx)
        for act in acts:
            verb = act[0]
            try:
                if verb == "remove":
                    ctx.remove_rpc_object(act_proxy(ctx, act[1]))
                elif verb == "make":
                    sp = {"ctorF": 0, "relF": 0, "runB": "loop", "relBase": 0, "state": None, "acts": []}
                    cls = {"rpc": Obj, "instr": Instr}[act[2] if len(act) > 2 else "rpc"]
                    if cls is Obj:
                        ctx.make_rpc_object(NAMES[act[1]], Obj, sp)
                    else:
                        ctx.make_instrument(NAMES[act[1]], Instr, sp)
                elif verb == "call":
                    act_proxy(ctx, act[1]).get_name(rpc_timeout=RPC_TIMEOUT)
                elif verb == "get":
                    ctx.get_rpc_object_by_name("c1." + NAMES[act[1]])
                elif verb == "stop":
                    ctx.stop()
                o = "ok"
            except D.SchedAbort:
                rec.act_log.append((who, list(act), "never-finished"))
                raise
            except BaseException as e:  # noqa
                o = type(e).__name__
            rec.act_log.append((who, list(act), o))

    def act_proxy(ctx, n):
        from qmi.core.rpc import QMI_RpcProxy, RpcObjectDescriptor, make_interface_descriptor
        from qmi.core.messaging import QMI_MessageHandlerAddress
        desc = RpcObjectDescriptor(address=QMI_MessageHandlerAddress(ctx.name, NAMES[n]), category=None,
                                   interface=make_interface_descriptor(Obj))
        return QMI_RpcProxy(ctx, desc)

    class FakeTransport:
        def __init__(self):
            self.is_open = False
            self.opens = 0

        def open(self):
            self.is_open = True
            self.opens += 1

        def close(self):
            self.is_open = False

    def busy_body(task, rb):
        """a task body that is *busy* when stop()/remove() arrives: blocked in a call to a peer's object that does not
        answer, in a local call that itself waits for the peer, in sleep(), in get_next_signal()"""
        from qmi.core.exceptions import QMI_TaskStopException
        from qmi.core.pubsub import QMI_SignalReceiver
        from harness import detsched as D
        st = task.spec["state"]
        try:
            if rb == "remote":
                p = task._context.get_rpc_object_by_name("p0.gate")
                st["about"] += 1
                st["out"].append((rb, p.block()))
            elif rb == "chain":
                p = task._context.get_rpc_object_by_name("c1." + NAMES[3])
                st["about"] += 1
                st["out"].append((rb, p.relay()))
            elif rb == "sleep":
                st["about"] += 1
                task.sleep(1.0e6)
                st["out"].append((rb, "woke-up"))
            elif rb == "signal":
                recv = QMI_SignalReceiver()
                st["about"] += 1
                recv.get_next_signal(timeout=None)
                st["out"].append((rb, "got-signal"))
        except D.SchedAbort:
            raise
        except QMI_TaskStopException:
            st["out"].append((rb, "QMI_TaskStopException"))
            raise
        except BaseException as e:  # noqa
            st["out"].append((rb, type(e).__name__))

    class Gate(QMI_RpcObject):
        """lives in the peer context: a method that does not answer until the harness opens the gate"""
        def __init__(self, context, name, state):
            super().__init__(context, name)
            self.state = state

        @rpc_method
        def block(self):
            self.state["entered"] += 1
            self.state["ev"].wait()
            return "released"

    class Obj(QMI_RpcObject):
        def __init__(self, context, name, spec):
            enter(self)
            super().__init__(context, name)
            self.spec = spec
            if spec["ctorF"]:
                raise_kind(spec["ctorF"], "ctor", "ctor")

        @rpc_method
        def hold(self):
            # a method that keeps the object busy until the harness opens the gate
            st = self.spec["state"]
            st["entered"] += 1
            st["ev"].wait()
            return "released"

        @rpc_method
        def relay(self):
            # a plain object's method that is itself blocked in a call to the peer
            return self._context.get_rpc_object_by_name("p0.gate").block()

        def release_rpc_object(self):
            released(self)
            super().release_rpc_object()
            raising(self)

    class Instr(QMI_Instrument):
        def __init__(self, context, name, spec):
            enter(self)
            super().__init__(context, name)
            self.spec = spec
            self._tr = FakeTransport()
            if spec["ctorF"]:
                raise_kind(spec["ctorF"], "ctor", "ctor")

        @rpc_method
        def open(self):
            self._check_is_closed()
            self._tr.open()
            super().open()

        @rpc_method
        def close(self):
            self._check_is_open()
            self._tr.close()
            super().close()

        def release_rpc_object(self):
            released(self)
            if self._is_open:
                ev(self, "warn")
                self._c12[0].left_open.append(self._c12[1])
            super().release_rpc_object()      # QMI_Instrument: warns, does not close
            raising(self)

    class Task(QMI_Task):
        def __init__(self, task_runner, name, spec):
            super().__init__(task_runner, name)
            self.spec = spec
            if spec["ctorF"]:
                raise_kind(spec["ctorF"], "ctor", "ctor")

        def run(self):
            rb = self.spec["runB"]
            if rb == "raise":
                raise Boom("run")
            if rb == "finish":
                return
            if rb == "acting":
                # a task that owns other objects: makes them in run(), works, removes them in `finally:`
                ba = self.spec.get("body_acts") or {}
                try:
                    do_acts(self._context, ba.get("pre") or [], "task-body")
                    while not self.stop_requested():
                        self.sleep(1.0)
                finally:
                    do_acts(self._context, ba.get("finally") or [], "task-finally")
                return
            if rb in BUSY_BODIES:
                return busy_body(self, rb)
            while not self.stop_requested():
                self.sleep(1.0)

    class Runner(QMI_TaskRunner):
        def __init__(self, context, name, task_class, task_args, task_kwargs):
            enter(self)
            self.spec = task_args[0]
            super().__init__(context, name, task_class, task_args, task_kwargs)

        def release_rpc_object(self):
            released(self)
            if not self._joined:
                ev(self, "tstop")
            try:
                super().release_rpc_object()  # QMI_TaskRunner: stop() + join() unless joined; join() re-raises a failed run()
            except BaseException:
                ev(self, "relexc")
                raise
            raising(self)

    _CLS = dict(Boom=Boom, BaseBoom=BaseBoom, raise_kind=raise_kind, do_acts=do_acts, Gate=Gate, Obj=Obj, Instr=Instr, Task=Task, Runner=Runner)
    return _CLS


def _done(th) -> bool:
    ts = getattr(th, "_ds_ts", None)
    return ts is None or ts.done


@contextlib.contextmanager
def taps():
    """wrap, from the outside, the methods properties.jsonl names as mechanisms; restored on exit"""
    from qmi.core.rpc import RpcObjectManager
    from qmi.core.messaging import MessageRouter
    from qmi.core.task import _TaskThread
    from harness import simnet as S, detsched as D
    saved = []

    def wrap(cls, name, make):
        orig = cls.__dict__[name]
        saved.append((cls, name, orig))
        setattr(cls, name, make(orig))

    def mk_init(orig):
        def __init__(self, address, context, rpc_object_maker):
            rec = REC.of(context)
            self._c12_id = rec.n_mgr
            self._c12_rec = rec
            rec.n_mgr += 1
            rec.mgrs.append(self)
            mid = self._c12_id

            def maker():
                REC.cur = (rec, mid)
                return rpc_object_maker()
            orig(self, address, context, maker)
            if REC.flags.get("calltrace"):
                self._stop_lock = LogLock(self._stop_lock, self)
            _gate("after_reserve")
        return __init__

    def mk_start(orig):
        def start(self):
            try:
                return orig(self)
            finally:
                self._c12_thread = self._rpc_thread
        return start

    def mk_stop(orig):
        def stop(self):
            th = self._rpc_thread
            try:
                return orig(self)
            finally:
                self._c12_rec.events.append(("join:%d" if (th is None or _done(th)) else "nojoin:%d") % self._c12_id)
                if REC.flags.get("calltrace") and th is not None and _done(th) and getattr(th, "_c12_rejecting", False):
                    REC.mevents.append((th, "exit", "ok"))
        return stop

    def mk_make_proxy(orig):
        def make_proxy(self):
            p = orig(self)
            _gate("after_construct")
            return p
        return make_proxy

    def mk_reg(orig):
        def register_message_handler(self, h):
            if isinstance(h, RpcObjectManager):
                _gate("before_register")
            orig(self, h)
            if isinstance(h, RpcObjectManager):
                h._c12_rec.events.append(f"reg:{IDX.get(h.address.object_id, '?')}:{h._c12_id}")
        return register_message_handler

    def mk_unreg(orig):
        def unregister_message_handler(self, h):
            if isinstance(h, RpcObjectManager):
                _gate("before_unregister")
            if isinstance(h, RpcObjectManager) and _rt.get_ident() != REC.maker_ident:
                REC.flags["stop_unreg_seen"] = True
            orig(self, h)
            if isinstance(h, RpcObjectManager):
                h._c12_rec.events.append(f"unreg:{IDX.get(h.address.object_id, '?')}:{h._c12_id}")
        return unregister_message_handler

    def mk_rstart(orig):
        def start(self):
            try:
                return orig(self)
            finally:
                rec = REC.of_router(self)
                if rec is not None and self._thread is not None and self._thread not in rec.router_threads:
                    rec.router_threads.append(self._thread)
        return start

    def mk_sock(kind):
        def deco(orig):
            def f(self, *a, **k):
                net = S.NET
                before = set(net.socks)
                try:
                    return orig(self, *a, **k)
                finally:
                    new = sorted(set(net.socks) - before)
                    rec = REC.of_router(self)
                    if rec is not None and new:
                        rec.socks.append((kind, net.socks[new[0]]))
            return f
        return deco

    def mk_tinit(orig):
        def __init__(self, task_runner, *a, **k):
            orig(self, task_runner, *a, **k)
            REC.of(task_runner._context).task_threads.append(self)
        return __init__

    def mk_bind(orig):
        def bind(self, addr):
            # start-step faults of every exception kind, injected at the socket layer (START_EXC)
            if REC is not None:
                code = REC.udp_fail if self.kind == "udp" else (getattr(REC, "tcp_fail", 0) if addr[1] == PORT else 0)
                if code:
                    raise_start_fault(int(code), self.kind)
            return orig(self, addr)
        return bind

    from qmi.core.context import _ContextRpcObject

    def ctx_release(self):
        rec = REC.of(self._context)
        rec.rel.append(0)
        rec.rel_count[0] = rec.rel_count.get(0, 0) + 1
        rec.events.append("rel:0")
        return super(_ContextRpcObject, self).release_rpc_object()
    had = "release_rpc_object" in _ContextRpcObject.__dict__
    if not had:
        _ContextRpcObject.release_rpc_object = ctx_release
    # ---- layer D taps (active only when REC.flags["calltrace"]): every event is logged at its linearisation point ----
    import collections
    from qmi.core.rpc import _RpcThread
    from qmi.core.exceptions import QMI_MessageDeliveryException

    class LogDeque(collections.deque):
        def __init__(self, thread):
            super().__init__()
            self._c12_thread = thread

        def append(self, msg):
            REC.mevents.append((self._c12_thread, f"deliver {REC.rid(msg)}", "pushed"))
            return super().append(msg)

        def popleft(self):
            msg = super().popleft()
            kind = "reject" if getattr(self._c12_thread, "_c12_rejecting", False) else "exec"
            REC.mevents.append((self._c12_thread, f"{kind} {REC.rid(msg)}", "ok"))
            return msg

    class LogLock:
        """`_stop_lock` wrapper: logs `stopflag` while the lock is still held by the block that cleared `_running`"""
        def __init__(self, inner, mgr):
            self._inner, self._mgr = inner, mgr

        def __enter__(self):
            r = self._inner.__enter__()
            self._was = self._mgr._running
            return r

        def __exit__(self, *a):
            if self._was and not self._mgr._running:
                REC.mevents.append((self._mgr._rpc_thread, "stopflag", "ok"))
            return self._inner.__exit__(*a)

    def mk_tinit_rpc(orig):
        def __init__(self, *a, **k):
            orig(self, *a, **k)
            if REC is not None and REC.flags.get("calltrace"):
                self._fifo = LogDeque(self)
        return __init__

    def mk_reject(orig):
        def _reject_remaining_requests(self):
            if REC is not None and REC.flags.get("calltrace"):
                self._c12_rejecting = True
                REC.mevents.append((self, "see", "ok"))
            return orig(self)
        return _reject_remaining_requests

    def mk_handle(orig):
        def handle_message(self, message):
            try:
                return orig(self, message)
            except QMI_MessageDeliveryException:
                if REC is not None and REC.flags.get("calltrace") and hasattr(message, "request_id"):
                    REC.mevents.append((getattr(self, "_c12_thread", None), f"deliver {REC.rid(message)}", "refused"))
                raise
        return handle_message

    def _sr_get(self):
        return self.__dict__.get("_c12_sr", False)

    def _sr_set(self, v):
        if v and not self.__dict__.get("_c12_sr", False) and REC is not None and REC.flags.get("calltrace"):
            REC.mevents.append((self, "shutdown", "ok"))
        self.__dict__["_c12_sr"] = v
    had_sr = "_shutdown_requested" in _RpcThread.__dict__
    if not had_sr:
        _RpcThread._shutdown_requested = property(_sr_get, _sr_set)
    wrap(_RpcThread, "__init__", mk_tinit_rpc)
    wrap(_RpcThread, "_reject_remaining_requests", mk_reject)
    wrap(RpcObjectManager, "handle_message", mk_handle)
    wrap(RpcObjectManager, "__init__", mk_init)
    wrap(RpcObjectManager, "start", mk_start)
    wrap(RpcObjectManager, "stop", mk_stop)
    wrap(RpcObjectManager, "make_proxy", mk_make_proxy)
    wrap(MessageRouter, "register_message_handler", mk_reg)
    wrap(MessageRouter, "unregister_message_handler", mk_unreg)
    wrap(MessageRouter, "start", mk_rstart)
    wrap(MessageRouter, "start_tcp_server", mk_sock("tcp"))
    wrap(MessageRouter, "start_udp_responder", mk_sock("udp"))
    wrap(MessageRouter, "connect_to_peer", mk_sock("peer"))
    wrap(_TaskThread, "__init__", mk_tinit)
    wrap(S.SimSocket, "bind", mk_bind)
    try:
        yield
    finally:
        for cls, name, orig in reversed(saved):
            setattr(cls, name, orig)
        if not had:
            del _ContextRpcObject.release_rpc_object
        if not had_sr:
            del _RpcThread._shutdown_requested


def _gate(pos: str) -> None:
    """directed schedules for stop‖make: park the maker thread at `pos` until the predicate holds"""
    g = REC.gate if REC is not None else None
    if g is None or g[0] != pos or _rt.get_ident() != REC.maker_ident:
        return
    REC.gate = None
    REC.world.sched.yield_point("c12.gate." + pos, blocked_on=g[1])


# ---------------------------------------------------------------------------
# reading the abstract state back from the real objects
# ---------------------------------------------------------------------------

def _idx(name: str) -> str:
    return str(IDX[name]) if name in IDX else "?" + name


def _join(xs) -> str:
    xs = list(xs)
    return ",".join(xs) if xs else "-"


def _obj_s(mg) -> str:
    from qmi.core.instrument import QMI_Instrument
    from qmi.core.task import QMI_TaskRunner, _TaskThread
    o = getattr(mg._c12_thread, "_rpc_object", None)
    i = mg._c12_id
    if o is None:
        return f"{i}:?"
    if isinstance(o, QMI_TaskRunner):
        st = o._thread._state
        S = _TaskThread.State
        if o._joined:
            s = "joined"
        elif st == S.READY_TO_RUN:
            s = "ready"
        elif st == S.RUNNING:
            s = "running"
        else:
            s = "ended"
        return f"{i}:task:{s}"
    if isinstance(o, QMI_Instrument):
        tr = getattr(o, "_tr", None)
        s = "open" if o._is_open else "closed"
        if tr is not None and tr.is_open != o._is_open:
            s += "!transport"
        return f"{i}:instr:{s}"
    return f"{i}:rpc"


def thread_counts(rec: CtxRec):
    r = sum(1 for t in rec.router_threads if not _done(t))
    p = sum(1 for m in rec.mgrs if getattr(m, "_c12_thread", None) is not None and not _done(m._c12_thread))
    t = sum(1 for t in rec.task_threads if not _done(t))
    return r, p, t


def residue_s(ctx, rec: CtxRec) -> str:
    from qmi.core.rpc import RpcObjectManager
    from harness import simnet as S
    router = ctx._message_router
    mp = [f"{_idx(k)}:{m._c12_id if m is not None else '-'}" for k, m in ctx._rpc_object_map.items()]
    h, fut = [], 0
    for k, hd in list(router._address_to_messagehandler_map.items()):
        if isinstance(hd, RpcObjectManager):
            h.append(f"{_idx(k)}:{hd._c12_id}")
        elif k.startswith("$future_"):
            fut += 1
    live = [m for m in rec.mgrs if getattr(m, "_c12_thread", None) is not None and not _done(m._c12_thread)]
    conns, pi = [], 0
    net = S.NET
    for kind, s in rec.socks:
        if kind == "peer":
            if not s.closed:
                conns.append(f"p{pi}")
            pi += 1
        elif kind == "tcp":
            if not s.closed and s.listening:
                conns.append("tcp")
        elif kind == "udp":
            if not s.closed and s in net.udp.get(s.addr[1], []):
                conns.append("udp")
    out = (f"r={int(router._thread is not None)} map={_join(mp)} h={_join(h)} m={_join(_obj_s(m) for m in live)} "
           f"conn={_join(conns)}")
    if fut:
        out += f" fut={fut}"
    return out


def settle_threads(sched) -> None:
    """threads the scheduler has seen finish are given the (real) time to leave threading.enumerate()"""
    for ts in sched.order:
        th = ts.thread
        if ts.done and th is not None and th is not _rt.current_thread() and th.is_alive():
            _rt.Thread.join(th, 2.0)


def stray_s(extra_expected: int = 0) -> str:
    """accounting of *all* live threads (scheduler view and threading.enumerate()) against the per-context counts"""
    w = REC.world
    settle_threads(w.sched)
    expected = extra_expected + sum(sum(thread_counts(r)) for r in REC.by_ctx.values())
    managed = sum(1 for ts in w.sched.order if not ts.done and ts is not w.sched.main)
    real = sum(1 for t in _rt.enumerate() if t not in REC.base_threads and t is not _rt.current_thread())
    if managed != expected or real != expected:
        return f" stray={managed - expected}/{real - expected}"
    return ""


def observe(ctx, ev0: int) -> str:
    rec = REC.of(ctx)
    tr, tp, tt = thread_counts(rec)
    ev = [e for e in rec.events[ev0:]]
    lo = _join(map(str, rec.left_open))
    for mid, o in rec.objs:
        tr_ = getattr(o, "_tr", None)
        if tr_ is not None:
            dead = _done(getattr(rec.mgrs[mid], "_c12_thread", None)) if mid < len(rec.mgrs) else True
            if dead and (tr_.is_open != (mid in rec.left_open)):
                lo += f"!transport-of-{mid}-{'open' if tr_.is_open else 'closed'}"
    return (f"a={int(ctx._active)} u={int(ctx._used)} t={int(ctx._message_router.tcp_server_port != 0)} "
            f"{residue_s(ctx, rec)} thr={tr},{tp},{tt} rel={_join(map(str, rec.rel))} lo={lo} "
            f"hc={_join(map(str, rec.hcalls))} ev={_join(ev)}" + stray_s())


# ---------------------------------------------------------------------------
# executing one layer-A operation on a real context
# ---------------------------------------------------------------------------

EXC_KINDS = {1: "Boom(Exception)", 2: "BaseBoom(BaseException)", 3: "SystemExit via sys.exit()", 4: "KeyboardInterrupt",
             5: "GeneratorExit", 6: "asyncio.CancelledError", 7: "KeyError", 8: "AssertionError", 9: "StopIteration", 10: "OSError"}
EXC_CODES = [1, 7, 8, 9, 10]          # Exception subclasses
BASE_CODES = [2, 3, 4, 5, 6]          # BaseException subclasses that are not Exception
BUSY_BODIES = ("remote", "chain", "sleep", "signal")
MODEL_RUNB = {b: "loop" for b in BUSY_BODIES + ("acting",)}   # harness-only task bodies -> the model's body (runs until stopped)


START_EXC = {1: "OSError", 2: "OverflowError", 3: "ValueError", 4: "RuntimeError", 5: "QMI_RuntimeException",
             6: "KeyboardInterrupt", 7: "SystemExit"}


def raise_start_fault(code: int, what: str):
    """a start step (bind of the TCP server / UDP responder socket) fails with an exception of kind `code`; whatever the class,
    the model calls it OSError (the roll-back must not depend on the class)"""
    from qmi.core.exceptions import QMI_RuntimeException
    cls = {1: OSError, 2: OverflowError, 3: ValueError, 4: RuntimeError, 5: QMI_RuntimeException, 6: KeyboardInterrupt,
           7: SystemExit}[code if code in START_EXC else 1]
    e = cls(98, f"injected start fault ({what})") if cls is OSError else cls(f"injected start fault ({what})")
    e._c12_mark = "start"
    raise e


def _exc_s(e: BaseException) -> str:
    # the injected exception, whatever its class, is what the model calls Boom (constructor) / BaseBoom (base stop handler)
    mark = getattr(e, "_c12_mark", None)
    if mark == "ctor":
        return "exc:Boom"
    if mark == "handler-base":
        return "exc:BaseBoom"
    if mark == "start":
        return "exc:OSError"
    return "exc:" + type(e).__name__


class Runner1:
    """executes layer-A ops against one QMI_Context, keeping the proxies a client program would hold"""

    def __init__(self, world, cfg_tcp: bool, via_singleton: bool = False):
        self.w = world
        self.cfg_tcp = cfg_tcp
        self.ctx = None
        self.proxies = {}          # (name idx, kind) -> proxy
        self.single = via_singleton
        self.busy_state = {"about": 0, "entered": 0, "out": [], "ev": None}

    def config(self):
        from qmi.core.config_defs import CfgQmi, CfgContext
        return CfgQmi(contexts={"c1": CfgContext(tcp_server_port=PORT if self.cfg_tcp else None)})

    def new(self):
        from qmi.core.context import QMI_Context
        self.ctx = QMI_Context("c1", self.config())
        REC.of(self.ctx)
        return "ok"

    def synth_proxy(self, ctx, n: int, kind: str, ctx_name=None):
        from qmi.core.rpc import QMI_RpcProxy, RpcObjectDescriptor, make_interface_descriptor
        from qmi.core.messaging import QMI_MessageHandlerAddress
        C = classes()
        if kind == "task":
            iface = make_interface_descriptor(C["Runner"], C["Task"])
        else:
            iface = make_interface_descriptor(C["Instr"] if kind == "instr" else C["Obj"])
        desc = RpcObjectDescriptor(address=QMI_MessageHandlerAddress(ctx_name or ctx.name, NAMES[n]),
                                   category=None, interface=iface)
        return QMI_RpcProxy(ctx, desc)

    def proxy(self, ctx, n: int, kind: str):
        p = self.proxies.get((n, kind))
        return p if p is not None else self.synth_proxy(ctx, n, kind)

    def any_proxy(self, ctx, n: int):
        for k in ("rpc", "instr", "task"):
            if (n, k) in self.proxies:
                return self.proxies[(n, k)]
        return self.synth_proxy(ctx, n, "rpc")

    def context(self):
        if self.single:
            import qmi
            return qmi.context()
        return self.ctx

    def quiesce(self, ctx) -> None:
        """a started task whose run() returns or raises at once ends by itself: wait for that (deterministic snapshot)"""
        from qmi.core.task import _TaskThread
        for th in REC.of(ctx).task_threads:
            task = th.task
            if task is None or _done(th):
                continue
            S = _TaskThread.State
            if th._state in (S.INITIAL, S.READY_TO_RUN) or (th._state == S.RUNNING and task.spec["runB"] in ("loop", "acting") + BUSY_BODIES):
                continue
            if True:
                ts = th._ds_ts
                self.w.sched.yield_point("c12.quiesce", blocked_on=lambda ts=ts: ts.done)

    def do(self, op) -> str:
        from harness import detsched as D
        try:
            return self._do(op)
        except D.SchedAbort:
            raise
        except BaseException as e:  # noqa - the exception class is the observation
            return _exc_s(e)

    def _do(self, op) -> str:
        C = classes()
        k = op[0]
        if k == "make":
            _, kind, n, namestr, ctorF, relF, runB, relBase = op[:8]
            extra = op[8] if len(op) > 8 else {}
            spec = {"ctorF": int(ctorF), "relF": bool(relF), "runB": runB, "relBase": int(relBase), "state": self.busy_state,
                    "acts": extra.get("acts") or [], "body_acts": extra.get("body_acts") or {}}
            if self.single:
                import qmi
                tgt = qmi
            else:
                tgt = self.ctx
            if kind == "rpc":
                p = tgt.make_rpc_object(namestr, C["Obj"], spec)
            elif kind == "instr":
                p = tgt.make_instrument(namestr, C["Instr"], spec)
            else:
                p = tgt.make_task(namestr, C["Task"], spec, task_runner=C["Runner"])
            if namestr in IDX:
                for kk in ("rpc", "instr", "task"):
                    self.proxies.pop((IDX[namestr], kk), None)
                self.proxies[(IDX[namestr], kind)] = p
            return "ok"
        ctx = self.context()
        if k == "remove":
            ctx.remove_rpc_object(self.any_proxy(ctx, op[1]))
            return "ok"
        if k == "removeForeign":
            ctx.remove_rpc_object(self.synth_proxy(ctx, 1, "rpc", ctx_name="elsewhere"))
            return "ok"
        if k == "get":
            _, n, which = op
            nm = "c1." + NAMES[n]
            if self.single:
                import qmi
                p = {"rpc": qmi.get_rpc_object, "instr": qmi.get_instrument, "task": qmi.get_task}[which](nm)
            else:
                p = {"rpc": ctx.get_rpc_object_by_name, "instr": ctx.get_instrument, "task": ctx.get_task}[which](nm)
            # keep it as a generic proxy if the program holds none for this name yet
            if not any((n, kk) in self.proxies for kk in ("rpc", "instr", "task")):
                self.proxies[(n, "rpc")] = p
            return "ok"
        if k == "call":
            self.any_proxy(ctx, op[1]).get_name(rpc_timeout=RPC_TIMEOUT)
            return "ok"
        if k == "iopen":
            self.proxy(ctx, op[1], "instr").open(rpc_timeout=RPC_TIMEOUT)
            return "ok"
        if k == "iclose":
            self.proxy(ctx, op[1], "instr").close(rpc_timeout=RPC_TIMEOUT)
            return "ok"
        if k == "tstart":
            self.proxy(ctx, op[1], "task").start(rpc_timeout=RPC_TIMEOUT)
            return "ok"
        if k == "tjoin":
            p = self.proxy(ctx, op[1], "task")
            p.stop(rpc_timeout=RPC_TIMEOUT)
            p.join(rpc_timeout=RPC_TIMEOUT)
            return "ok"
        if k == "addh":
            rec = REC.of(ctx)
            i = len(rec.hcalls)
            rec.hcalls.append(0)
            kind = op[1]
            shape = op[2] if len(op) > 2 else "def"
            code = op[3] if len(op) > 3 else 0

            hacts = op[4] if len(op) > 4 else []

            def core():
                rec.hcalls[i] += 1
                rec.events.append(f"h:{i}")
                C["do_acts"](ctx, hacts, f"handler:{i}")
                if kind == "exc":
                    C["raise_kind"](code if code in EXC_CODES else 1, "handler-exc", "stop handler")
                if kind == "base":
                    C["raise_kind"](code if code in BASE_CODES else 2, "handler-base", "stop handler")
            ctx.register_stop_handler(make_callable(shape, kind, core))
            return "ok"
        if k == "start":
            REC.tcp_fail = int(op[1])
            REC.udp_fail = int(op[2])
            try:
                ctx.start()
            finally:
                REC.tcp_fail = 0
                REC.udp_fail = 0
            return "ok"
        if k == "stop":
            ctx.stop()
            return "ok"
        raise ValueError(f"unknown op {op!r}")

    def probe(self) -> str:
        """can the process start (and stop) a context of the same configuration now?"""
        from qmi.core.context import QMI_Context
        from harness import detsched as D
        self.w.net.busy_ports = set()
        c2 = QMI_Context("c1", self.config())
        try:
            c2.start()
        except D.SchedAbort:
            raise
        except BaseException as e:  # noqa
            return _exc_s(e)
        try:
            c2.stop()
        except D.SchedAbort:
            raise
        except BaseException as e:  # noqa
            return "stop-" + _exc_s(e)
        if sum(thread_counts(REC.of(c2))) != 0:
            return "probe-leaks-threads"
        return "ok"


CALLABLE_SHAPES = ["def", "lambda", "method", "partial", "object", "object_named", "builtin", "partialmethod",
                   "staticmethod", "classmethod", "wrapped", "nested_partial"]


def make_callable(shape: str, kind: str, core):
    """the same behaviour (`core`: count, log, raise per `kind`) behind every kind of Python callable a user may register:
    plain function, lambda, bound method, functools.partial (no __name__/__qualname__), callable instance without and with
    __name__/__qualname__, a builtin method-wrapper, a partialmethod-bound callable, static / class method, functools.wraps
    wrapper, partial of a partial"""
    import functools

    def with_arg(_x, *_a):
        return core()

    if shape == "def":
        return core
    if shape == "lambda":
        return lambda: core()
    if shape == "partial":
        return functools.partial(with_arg, 0)
    if shape == "nested_partial":
        return functools.partial(functools.partial(with_arg, 0), 1)
    if shape in ("object", "object_named"):
        class CallableObject:
            def __call__(self):
                return core()
        o = CallableObject()
        if shape == "object_named":
            o.__name__ = "handler_object"
            o.__qualname__ = "handler_object"
        return o
    if shape == "builtin":
        # a builtin method-wrapper (map.__next__): calls the Python function on every call and lets its exception through;
        # unlike iter(f, sentinel) it is not exhausted by an exception, so a retried stop() calls it again
        import itertools
        return map(with_arg, itertools.repeat(0)).__next__

    class Holder:
        def run(self):
            return core()

        def run_arg(self, _x):
            return core()
        run_pm = functools.partialmethod(run_arg, 0)

        @staticmethod
        def srun():
            return core()

        @classmethod
        def crun(cls):
            return core()
    if shape == "method":
        return Holder().run
    if shape == "partialmethod":
        return Holder().run_pm
    if shape == "staticmethod":
        return Holder.srun
    if shape == "classmethod":
        return Holder.crun
    if shape == "wrapped":
        @functools.wraps(core)
        def wrapper(*a, **k):
            return core()
        return wrapper
    raise ValueError(shape)


def op_line(op) -> str:
    """the model-driver line of an op"""
    k = op[0]
    if k == "make":
        _, kind, n, namestr, ctorF, relF, runB, _rb = op[:8]
        return f"make {kind} {n} {int(ref_valid(namestr))} {int(bool(ctorF))} {int(relF)} {MODEL_RUNB.get(runB, runB)}"
    if k == "get":
        return f"get {op[1]}"
    if k in ("remove", "call", "iopen", "iclose", "tstart", "tjoin"):
        return f"{k} {op[1]}"
    if k == "addh":
        return f"addh {op[1]}"
    if k == "start":
        return f"start {int(bool(op[1]))} {int(bool(op[2]))}"
    if k in ("stop", "removeForeign", "probe"):
        return k
    raise ValueError(op)


# ---------------------------------------------------------------------------
# scenarios
# ---------------------------------------------------------------------------

class LoggingInitError(Exception):
    """qmi.start(): the logging initialisation step raised (whatever the class: NotADirectoryError, ValueError, ...)"""


class Trace:
    """what one scenario produced: driver lines, implementation lines, oracle observations"""

    def __init__(self):
        self.lines = []     # model driver input
        self.impl = []      # implementation output, same format as the driver's
        self.conc = []      # indices of `conc` lines (set membership instead of equality)
        self.obs = []       # per op: dict for the oracle
        self.deadlock = None
        self.error = None
        self.thread_errors = []


def _run(seed, body, **kw):
    from harness.simworld import run_scenario
    global REC
    REC = Rec()
    with warnings.catch_warnings():
        warnings.simplefilter("ignore")
        with taps():
            out = run_scenario(seed, body, cleanup=False, **kw)
    return out


def _finish(tr: Trace, out) -> Trace:
    from harness import detsched as D
    tr.deadlock = out.deadlock
    tr.thread_errors = [(n, type(e).__name__) for n, e in out.thread_errors if not isinstance(e, D.SchedAbort)]
    if out.error is not None:
        tr.error = out.error
    if out.budget:
        tr.deadlock = tr.deadlock or "step budget exceeded"
    if tr.deadlock is not None and len(tr.impl) < len(tr.lines):
        tr.impl.append("hang")
        tr.obs.append({"op": tr.obs_pending, "out": "hang", "hang": True})
    if tr.thread_errors and tr.impl:
        tr.impl[-1] += " therr=" + ",".join(sorted(t for _, t in tr.thread_errors))
    return tr


def run_history(seed, cfg_tcp: bool, ops, policy="weighted") -> Trace:
    """layer A: a sequential history on one real context"""
    tr = Trace()
    tr.obs_pending = None

    def body(w):
        REC.world = w
        r = Runner1(w, cfg_tcp)
        tr.lines.append(f"new {int(cfg_tcp)}")
        tr.obs_pending = ["new"]
        r.new()
        tr.impl.append("ok | " + observe(r.ctx, 0))
        tr.obs.append({"op": ["new"], "out": "ok", "state": tr.impl[-1]})
        for op in ops:
            tr.lines.append(op_line(op))
            tr.obs_pending = op
            rec = REC.of(r.ctx)
            ev0 = len(rec.events)
            t0 = w.sched.now
            if op[0] == "probe":
                o = r.probe()
                tr.impl.append(o)
                tr.obs.append({"op": op, "out": o})
                continue
            o = r.do(op)
            r.quiesce(r.ctx)
            st = observe(r.ctx, ev0)
            tr.impl.append(f"{o} | {st}")
            tr.obs.append({"op": op, "out": o, "state": st, "dt": w.sched.now - t0,
                           "relc": dict(rec.rel_count), "thr": thread_counts(rec)})
    return _finish(tr, _run(seed, body, policy=policy))


def qline(op) -> str:
    k = op[0]
    if k == "qstart":
        _, valid, cfg_tcp, tcpF, udpF, peers = op[:6]
        return (f"qstart {int(valid)} {int(cfg_tcp)} {int(bool(tcpF))} {int(bool(udpF))} " + ("".join(str(int(b)) for b in peers) or "-") +
                f" {int(bool(op[6] if len(op) > 6 else 0))}")
    if k in ("qstop", "qcontext"):
        return k
    if k == "qprobe":
        return f"qprobe {int(op[1])}"
    if k == "q":
        return "q " + op_line(op[1])
    raise ValueError(op)


def run_singleton(seed, ops, policy="weighted") -> Trace:
    """layer B: the process-wide singleton through the public qmi API"""
    tr = Trace()
    tr.obs_pending = None

    def pobs(ev0s):
        from qmi.core import context_singleton as cs
        c = cs._qmi_context
        leaked = sum(sum(thread_counts(r)) for r in REC.by_ctx.values() if r.ctx.name == "c1" and r.ctx is not c)
        lk = f" leaked={leaked}" if leaked else ""
        if c is None:
            return "single=none" + lk + stray_s()
        return "single=set " + observe(c, ev0s.get(id(c), 0)) + lk

    def body(w):
        import qmi
        from qmi.core import context_singleton as cs
        from qmi.core.context import QMI_Context
        from qmi.core.config_defs import CfgQmi, CfgContext
        from harness import detsched as D
        REC.world = w
        peers_ctx = {}
        r = Runner1(w, False, via_singleton=True)
        tr.lines.append("qnew")
        tr.impl.append("ok | " + pobs({}))
        tr.obs.append({"op": ["qnew"], "out": "ok", "state": tr.impl[-1]})

        def set_peer(i, up):
            c = peers_ctx.get(i)
            if up and c is None:
                c = QMI_Context(f"p{i}", CfgQmi(contexts={f"p{i}": CfgContext(tcp_server_port=PEER_PORT + i)}))
                c.start()
                peers_ctx[i] = c
            elif not up and c is not None:
                c.stop()
                del peers_ctx[i]

        def qstart(valid, cfg_tcp, tcpF, udpF, peers, logF=0):
            if logF:
                return qstart_logging(valid, cfg_tcp, logF)
            for i, up in enumerate(peers):
                set_peer(i, up)
            cfg = {"c1": {"connect_to_peers": [f"p{i}" for i in range(len(peers))]}}
            if cfg_tcp:
                cfg["c1"]["tcp_server_port"] = PORT
            for i in range(len(peers)):
                cfg[f"p{i}"] = {"host": "127.0.0.1", "tcp_server_port": PEER_PORT + i}
            REC.tcp_fail = int(tcpF)
            REC.udp_fail = int(udpF)
            try:
                qmi.start("c1" if valid else "bad ctx", init_logging=False, context_cfg=cfg)
            finally:
                REC.tcp_fail = 0
                REC.udp_fail = 0

        def qstart_logging(valid, cfg_tcp, logF):
            """qmi.start() with logging initialisation switched on and a logging configuration that cannot be applied
            (start step `_init_logging`): log directory below a regular file, unknown level names"""
            import json
            import logging as _lg
            import os
            import sys as _sys
            import tempfile
            from qmi.core import logging_init as _li
            with tempfile.TemporaryDirectory() as d:
                blocker = os.path.join(d, "not-a-directory")
                with open(blocker, "w") as f:
                    f.write("x")
                conf = {"logdir": {"log_dir": os.path.join(blocker, "logs"), "logging": {"logfile": "qmi.log"}},
                        "loglevel": {"logging": {"loglevel": "BOGUS"}},
                        "console": {"logging": {"console_loglevel": "LOUD"}},
                        "loglevels": {"logging": {"loglevels": {"qmi.core": "NOPE"}}}}[logF]
                cf = os.path.join(d, "qmi.conf")
                with open(cf, "w") as f:
                    json.dump(conf, f)
                saved = (_lg.root.handlers[:], _lg.root.level, _sys.excepthook, _li._file_handler, _li._saved_except_hook,
                         _lg.root.manager.disable)
                try:
                    cfg = {"c1": {"tcp_server_port": PORT}} if cfg_tcp else {"c1": {}}
                    qmi.start("c1" if valid else "bad ctx", config_file=cf, init_logging=True, context_cfg=cfg)
                finally:
                    for h in _lg.root.handlers[:]:
                        if h not in saved[0]:
                            _lg.root.removeHandler(h)
                            try:
                                h.close()
                            except Exception:  # noqa
                                pass
                    _lg.root.handlers[:] = saved[0]
                    _lg.root.setLevel(saved[1])
                    _sys.excepthook = saved[2]
                    _li._file_handler, _li._saved_except_hook = saved[3], saved[4]
                    _lg.captureWarnings(False)
                    _lg.disable(saved[5])

        try:
            for op in ops:
                tr.lines.append(qline(op))
                tr.obs_pending = op
                ev0s = {k: len(v.events) for k, v in REC.by_ctx.items()}
                k = op[0]
                try:
                    if k == "qstart":
                        try:
                            qstart(*op[1:])
                        except (NotADirectoryError, FileNotFoundError, PermissionError, ValueError) as e:
                            if len(op) > 6 and op[6]:
                                raise LoggingInitError(f"{type(e).__name__}: {e}") from e     # the model's name for "_init_logging() raised"
                            raise
                        o = "ok"
                    elif k == "qstop":
                        qmi.stop()
                        o = "ok"
                    elif k == "qcontext":
                        qmi.context()
                        o = "ok"
                    elif k == "qprobe":
                        qstart(True, op[1], False, False, [])
                        ev0s = {k2: len(v.events) for k2, v in REC.by_ctx.items()}
                        qmi.stop()
                        o = "ok"
                    elif k == "q":
                        o = r.do(op[1])
                        if cs._qmi_context is not None:
                            r.quiesce(cs._qmi_context)
                    else:
                        raise ValueError(op)
                except D.SchedAbort:
                    raise
                except BaseException as e:  # noqa
                    o = _exc_s(e)
                st = pobs(ev0s)
                tr.impl.append(f"{o} | {st}")
                tr.obs.append({"op": op, "out": o, "state": st})
        finally:
            # leave the process as we found it: public API first, the module attribute if a defect left it stuck
            if not w.sched.aborting:
                try:
                    if cs._qmi_context is not None:
                        qmi.stop()
                except D.SchedAbort:
                    raise
                except BaseException:  # noqa
                    pass
            cs._qmi_context = None
    try:
        return _finish(tr, _run(seed, body, policy=policy))
    finally:
        import sys
        m = sys.modules.get("qmi.core.context_singleton")
        if m is not None:
            m._qmi_context = None


GATES = ["start", "after_reserve", "after_construct", "before_register", None]
UNTIL = ["collected", "stopped"]


def run_conc(seed, cfg_tcp: bool, pop_ops, mk, gate=None, until="stopped", policy="weighted", change_points=None) -> Trace:
    """layer C: `stop()` in the context thread while another thread runs `make`"""
    tr = Trace()
    tr.obs_pending = None

    def body(w):
        from harness import detsched as D
        REC.world = w
        r = Runner1(w, cfg_tcp)
        tr.lines.append(f"new {int(cfg_tcp)}")
        r.new()
        tr.impl.append("ok | " + observe(r.ctx, 0))
        tr.obs.append({"op": ["new"], "out": "ok"})
        for op in [["start", 0, 0]] + list(pop_ops):
            tr.lines.append(op_line(op))
            tr.obs_pending = op
            rec = REC.of(r.ctx)
            ev0 = len(rec.events)
            o = r.do(op)
            r.quiesce(r.ctx)
            tr.impl.append(f"{o} | {observe(r.ctx, ev0)}")
            tr.obs.append({"op": op, "out": o})
        rec = REC.of(r.ctx)
        _, kind, n, namestr, ctorF, relF, runB, _rb = mk[:8]
        tr.lines.append(f"conc {kind} {n} {int(bool(ctorF))} {int(relF)} {MODEL_RUNB.get(runB, runB)}")
        tr.conc.append(len(tr.lines) - 1)
        tr.obs_pending = ["conc", mk]
        before_ids = [m._c12_id for m in rec.mgrs if getattr(m, "_c12_thread", None) is not None and not _done(m._c12_thread)]
        relc0 = dict(rec.rel_count)
        res = {}
        def main_waits_for_lock():
            # a parked maker may hold the object-map lock (the handler is registered inside the locked block): it moves on
            # as soon as stop() is blocked on a lock - parking it longer would be a wait cycle made by the harness
            m = w.sched.main
            return m.blocked_on is not None and m.label.startswith("lock.acquire") and not m.blocked_on()
        pred = {"collected": lambda: REC.flags.get("stop_unreg_seen") or REC.flags.get("stop_done") or main_waits_for_lock(),
                "stopped": lambda: REC.flags.get("stop_done") or main_waits_for_lock()}[until]
        if gate is not None and gate != "start":
            REC.gate = (gate, pred)

        def maker():
            REC.maker_ident = _rt.get_ident()
            if gate == "start":
                w.sched.yield_point("c12.gate.start", blocked_on=pred)
            return r.do(mk)
        t = w.spawn(maker, "maker")
        try:
            r.ctx.stop()
            so = "ok"
        except D.SchedAbort:
            raise
        except BaseException as e:  # noqa
            so = _exc_s(e)
        REC.flags["stop_done"] = True
        t.join()
        mo = t.value if t.exc is None else _exc_s(t.exc)
        line = (f"mk={mo} st={so} a={int(r.ctx._active)} {residue_s(r.ctx, rec)} rel={_join(map(str, rec.rel))}")
        extra = stray_s()
        tr.impl.append(line + extra)
        tr.obs.append({"op": ["conc", mk], "mk": mo, "st": so, "line": line + extra, "before": before_ids,
                       "relc0": relc0, "relc": dict(rec.rel_count), "thr": thread_counts(rec),
                       "new_ids": [m._c12_id for m in rec.mgrs if m._c12_id not in before_ids and m._c12_id >= min([rec.n_mgr] + [x for x in [rec.n_mgr - 1]])],
                       "constructed": [m._c12_id for m in rec.mgrs
                                       if m._c12_id not in before_ids and getattr(getattr(m, "_c12_thread", None), "_rpc_object", None) is not None]})
    return _finish(tr, _run(seed, body, policy=policy, change_points=change_points))


def run_mm(seed, cfg_tcp: bool, pop_ops, mk1, mk2, policy="weighted", change_points=None) -> Trace:
    """two threads call make_* at the same time (same or different names)"""
    tr = Trace()
    tr.obs_pending = None

    def body(w):
        REC.world = w
        r = Runner1(w, cfg_tcp)
        tr.lines.append(f"new {int(cfg_tcp)}")
        r.new()
        tr.impl.append("ok | " + observe(r.ctx, 0))
        tr.obs.append({"op": ["new"], "out": "ok"})
        for op in [["start", 0, 0]] + list(pop_ops):
            tr.lines.append(op_line(op))
            tr.obs_pending = op
            rec = REC.of(r.ctx)
            ev0 = len(rec.events)
            o = r.do(op)
            r.quiesce(r.ctx)
            tr.impl.append(f"{o} | {observe(r.ctx, ev0)}")
            tr.obs.append({"op": op, "out": o})
        rec = REC.of(r.ctx)
        f = lambda mk: f"{mk[1]} {mk[2]} {int(bool(mk[4]))} {int(mk[5])} {MODEL_RUNB.get(mk[6], mk[6])}"
        tr.lines.append(f"conc2 {f(mk1)} {f(mk2)}")
        tr.conc.append(len(tr.lines) - 1)
        tr.obs_pending = ["conc2", mk1, mk2]
        r2 = Runner1(w, cfg_tcp)
        r2.ctx = r.ctx
        t1 = w.spawn(lambda: r.do(mk1), "maker")
        t2 = w.spawn(lambda: r2.do(mk2), "maker")
        t1.join()
        t2.join()
        o1 = t1.value if t1.exc is None else _exc_s(t1.exc)
        o2 = t2.value if t2.exc is None else _exc_s(t2.exc)
        line = f"mk1={o1} mk2={o2} {residue_s(r.ctx, rec)} rel={_join(map(str, rec.rel))}" + stray_s()
        tr.impl.append(line)
        ob = {"op": ["conc2", mk1, mk2], "mk1": o1, "mk2": o2, "line": line, "out": "ok",
              "pre": [e.split(":")[0] for e in _lst(parse_state(tr.impl[-2]).get("map"))]}
        ob["stop"] = r.do(["stop"])
        ob["thr_end"] = thread_counts(rec)
        ob["end"] = residue_s(r.ctx, rec)
        tr.obs.append(ob)
    return _finish(tr, _run(seed, body, policy=policy, change_points=change_points))


def oracle_mm(tr: Trace):
    if tr.deadlock is not None:
        return [("mm:hang", f"make ‖ make never completed: {tr.deadlock[:300]}", 0)]
    ob = tr.obs[-1] if tr.obs else None
    if ob is None or ob["op"][0] != "conc2":
        return []
    bad = []
    _, mk1, mk2 = ob["op"]
    if ob.get("stop") != "ok":
        bad.append((f"mm:final-stop-raises:{str(ob.get('stop'))[4:]}", f"stop() after make ‖ make: {ob.get('stop')}; {ob['line']}", 0))
    st = parse_state(ob["line"])
    mp = dict(e.split(":") for e in _lst(st["map"]))
    hs = dict(e.split(":") for e in _lst(st["h"]))
    same = mk1[2] == mk2[2]
    oks = [o for o in (ob["mk1"], ob["mk2"]) if o == "ok"]
    taken = [mk for mk in (mk1, mk2) if str(mk[2]) in ob["pre"]]
    if taken:
        # a name that was live before both makers started: refused, nothing changes for it
        for mk, o in ((mk1, ob["mk1"]), (mk2, ob["mk2"])):
            if mk in taken and o != "exc:QMI_DuplicateNameException":
                bad.append(("mm:duplicate-name-not-refused", f"make of live name {NAMES[mk[2]]!r}: {o}: {ob['line']}", 0))
        if "-" in mp.values() or mp != hs or "stray" in st:
            bad.append(("mm:residue", f"{ob['line']}", 0))
        if ob["thr_end"] != (0, 0, 0):
            bad.append(("mm:stop-leaves-threads", f"after the final stop(): {ob['thr_end']} {ob['end']}", 0))
        return bad
    if same:
        if len(oks) > 1:
            bad.append(("mm:two-objects-one-name", f"both makers of {NAMES[mk1[2]]!r} succeeded: {ob['line']}", 0))
        if not mk1[4] and not mk2[4] and len(oks) != 1:
            bad.append(("mm:no-winner", f"two good makers of one free name, none or both won: {ob['line']}", 0))
        if not mk1[4] and not mk2[4] and sorted([ob["mk1"], ob["mk2"]]) != ["exc:QMI_DuplicateNameException", "ok"]:
            bad.append(("mm:loser-not-duplicate", f"{ob['line']}", 0))
    else:
        for mk, o in ((mk1, ob["mk1"]), (mk2, ob["mk2"])):
            if (o == "ok") != (not mk[4]):
                bad.append(("mm:independent-make-fails", f"make of another free name: {o}: {ob['line']}", 0))
    for mk, o in ((mk1, ob["mk1"]), (mk2, ob["mk2"])):
        live = str(mk[2]) in mp and mp[str(mk[2])] != "-"
        if same:
            continue
        if live != (o == "ok"):
            bad.append(("mm:name-state", f"name {mk[2]} live={live} although make returned {o}: {ob['line']}", 0))
    if same and ((str(mk1[2]) in mp) != bool(oks)):
        bad.append(("mm:name-state", f"name {mk1[2]} in map={str(mk1[2]) in mp} although results {ob['mk1']}, {ob['mk2']}: {ob['line']}", 0))
    if "-" in mp.values():
        bad.append(("mm:reservation-left", f"{ob['line']}", 0))
    if mp != hs:
        bad.append(("mm:handlers-differ-from-names", f"{ob['line']}", 0))
    if "stray" in st:
        bad.append(("mm:stray-thread", f"{ob['line']}", 0))
    if ob["thr_end"] != (0, 0, 0):
        bad.append(("mm:stop-leaves-threads", f"after the final stop(): {ob['thr_end']} {ob['end']}", 0))
    return bad


BUSY_SPECS = [
    {"tasks": ["remote"], "callers": 0, "action": "stop"},
    {"tasks": ["chain"], "callers": 0, "action": "stop"},
    {"tasks": ["remote", "sleep", "signal"], "callers": 1, "action": "stop"},
    {"tasks": ["sleep", "chain", "remote"], "callers": 0, "action": "stop", "relF": 1},
    {"tasks": [], "callers": 2, "action": "stop"},
    {"tasks": ["remote", "remote"], "callers": 0, "action": "disconnect_then_stop"},
    {"tasks": ["chain", "signal"], "callers": 1, "action": "disconnect_then_stop"},
    {"tasks": ["sleep", "signal"], "callers": 0, "action": "remove"},
    {"tasks": ["signal", "sleep", "remote"], "callers": 0, "action": "remove_then_stop"},
    {"tasks": ["remote", "remote"], "callers": 1, "action": "stop", "settled": False},
    {"tasks": ["chain", "remote"], "callers": 0, "action": "stop", "settled": False},
]


def run_busy(seed, spec: dict, policy="weighted", change_points=None) -> Trace:
    """objects that are BUSY when stop()/remove() arrives: tasks (and a plain object's method, and plain threads) blocked in a
    call to a peer context's object that does not answer, in a local call that waits for the peer, in sleep(), in
    get_next_signal().  Two contexts (c1 under test, peer p0 holding the gate) under the scheduler + simnet."""
    tr = Trace()
    tr.obs_pending = ["busy", spec]

    def body(w):
        from harness import detsched as D
        from qmi.core.context import QMI_Context
        from qmi.core.config_defs import CfgQmi, CfgContext
        C = classes()
        REC.world = w
        cfg_tcp = bool(spec.get("cfg_tcp", seed % 2))
        r = Runner1(w, cfg_tcp)
        st = r.busy_state
        st["ev"] = D.Event()
        p0 = QMI_Context("p0", CfgQmi(contexts={"p0": CfgContext(tcp_server_port=PEER_PORT)}))
        p0.start()
        p0.make_rpc_object("gate", C["Gate"], st)
        r.new()
        ctx = r.ctx
        rec = REC.of(ctx)
        res = {"setup": [r.do(["start", 0, 0])], "callers": []}
        ctx.connect_to_peer("p0", "localhost:%d" % PEER_PORT)
        relF = int(spec.get("relF", 0))
        directed = (not spec.get("settled", True)) and policy == "pct" and change_points is not None
        res["steps_wait"] = w.sched.steps
        if directed:
            # main has the lowest priority of all threads that were not demoted: it proceeds only when everything else is
            # blocked (settled) - or when the thread running at the change point (a task on its way to the socket thread, the
            # socket thread, a worker) is demoted below it: the sweep over change points places stop() at every yield index
            w.sched.main.prio = -0.5
        res["setup"].append(r.do(["make", "rpc", 3, NAMES[3], 0, relF, "loop", 0]))          # the relay object ("chain")
        for i, b in enumerate(spec["tasks"]):
            n = [1, 2, 4][i]
            res["setup"].append(r.do(["make", "task", n, NAMES[n], 0, relF, b, 0]))
            res["setup"].append(r.do(["tstart", n]))

        def mk_caller():
            out = []
            res["callers"].append(out)
            p = ctx.get_rpc_object_by_name("p0.gate")

            def run():
                st["about"] += 1
                try:
                    out.append(p.block())
                except D.SchedAbort:
                    out.append("never-answered")
                    raise
                except BaseException as e:  # noqa
                    out.append(type(e).__name__)
            return run
        threads = [w.spawn(mk_caller(), "caller") for _ in range(spec["callers"])]
        nbusy = len(spec["tasks"]) + spec["callers"]
        nremote = sum(1 for b in spec["tasks"] if b in ("remote", "chain")) + spec["callers"]
        # wait until everybody is about to block; in half of the runs also until the peer has really entered the method
        # settled = every call to the peer has arrived there (the gate object serves one call at a time: one caller is inside
        # block(), the others wait in its queue), i.e. every request is an unanswered *pending* request of c1's connection.
        # Unsettled (spec["settled"] = False) = the action may arrive while a request is still on its way to the socket
        # thread: that is the known race `call-waits-forever:own-context-stopped` (C01), reported under its own signature.
        gate_mgr = p0._rpc_object_map["gate"]

        def arrived():
            return st["entered"] + len(gate_mgr._rpc_thread._fifo)
        if spec.get("settled", True):
            w.sched.yield_point("c12.busy", blocked_on=lambda: st["about"] >= nbusy and arrived() >= nremote)
        elif directed:
            w.sched.yield_point("c12.busy", blocked_on=lambda: st["about"] >= 1)
        else:
            w.sched.yield_point("c12.busy", blocked_on=lambda: st["about"] >= nbusy)
        res["steps_action"] = w.sched.steps
        res["entered_at_action"] = st["entered"]
        res["before"] = sorted(m._c12_id for m in rec.mgrs if getattr(m, "_c12_thread", None) is not None and not _done(m._c12_thread))
        act = spec["action"]
        res["action"] = []
        if act in ("remove", "remove_then_stop"):
            n = 1
            res["action"].append(("remove", r.do(["remove", n])))
            res["after_remove"] = (thread_counts(rec), residue_s(ctx, rec))
        if act == "disconnect_then_stop":
            try:
                ctx.disconnect_from_peer("p0")
                res["action"].append(("disconnect", "ok"))
            except D.SchedAbort:
                raise
            except BaseException as e:  # noqa
                res["action"].append(("disconnect", _exc_s(e)))
        if act != "remove":
            res["action"].append(("stop", r.do(["stop"])))
            res["after_stop"] = (thread_counts(rec), residue_s(ctx, rec))
        if act != "remove":
            for t in threads:
                t.join()
        res["relc"] = dict(rec.rel_count)
        res["out"] = list(st["out"])
        # tidy up: open the gate, stop what is left; none of this may hang either
        st["ev"].set()
        for t in threads:
            t.join()
        if ctx._active:
            res["final_stop"] = r.do(["stop"])
        p0.stop()
        res["thr_end"] = thread_counts(rec)
        res["stray"] = stray_s()
        res["probe"] = r.probe()
        return res

    out = _run(seed, body, policy=policy, change_points=change_points, max_steps=60000)
    tr.deadlock = out.deadlock or ("step budget exceeded" if out.budget else None)
    tr.error = out.error
    tr.calls = out.value
    tr.thread_errors = [(n, type(e).__name__) for n, e in out.thread_errors]
    return tr


def oracle_busy(spec: dict, tr: Trace):
    kinds = "+".join(sorted(set(spec["tasks"]) | ({"caller"} if spec["callers"] else set())))
    if tr.deadlock is not None and not spec.get("settled", True):
        return [("busy-unsettled:hang:own-context-stopped",
                 f"a call issued while the caller's own context stops is lost ({kinds}): {tr.deadlock[:300]}", 0)]
    if tr.deadlock is not None:
        return [(f"busy:hang:{spec['action']}:{kinds}",
                 f"{spec['action']} with busy objects ({kinds}) never completed: {tr.deadlock[:300]}", 0)]
    res = tr.calls
    bad = []
    if any(o != "ok" for o in res["setup"]):
        bad.append(("busy:setup-fails", f"setup: {res['setup']}", 0))
    for what, o in res["action"]:
        if o != "ok":
            bad.append((f"busy:{what}-raises:{o[4:]}", f"{what}() with busy objects raised {o}", 0))
    if "after_stop" in res:
        thr, resid = res["after_stop"]
        st = parse_state(resid)
        if thr != (0, 0, 0):
            bad.append((f"busy:stop-leaves-threads:{kinds}", f"threads after stop(): {thr}", 0))
        if st["conn"] != "-" or st["h"] != "-" or st["map"] != "-":
            bad.append(("busy:stop-leaves-residue", f"after stop(): {resid}", 0))
        for mid in res["before"]:
            if res["relc"].get(mid, 0) != 1:
                bad.append(("busy:release-count", f"manager {mid} released {res['relc'].get(mid, 0)} times", 0))
        settled = spec.get("settled", True)
        for b, o in res["out"]:
            if not settled:
                # stop() may arrive before the task is busy at all: its look-up of the target may already fail (ValueError:
                # unknown object, delivery error); what matters is that it got *an* answer and everything was reclaimed
                continue
            if b in ("remote", "chain") and o != "QMI_MessageDeliveryException":
                bad.append((f"busy:blocked-call-outcome:{b}", f"a task blocked in a call to the peer saw {o!r} when its context stopped", 0))
            if b in ("sleep", "signal") and o != "QMI_TaskStopException":
                bad.append((f"busy:wait-outcome:{b}", f"a task blocked in {b} saw {o!r}", 0))
        if len(res["out"]) != len(spec["tasks"]):
            bad.append(("busy:task-not-finished", f"{len(spec['tasks'])} busy tasks, outcomes {res['out']}", 0))
        for outs in res["callers"]:
            if outs != ["QMI_MessageDeliveryException"] and (settled or len(outs) != 1 or outs == ["never-answered"]):
                bad.append(("busy:caller-outcome", f"a thread blocked in a call to the peer saw {outs} when the context stopped", 0))
    if "after_remove" in res:
        thr, resid = res["after_remove"]
        st = parse_state(resid)
        if any(e.split(":")[0] == "1" for e in _lst(st["map"])) or any(e.split(":")[0] == "1" for e in _lst(st["h"])):
            bad.append(("busy:remove-leaves-residue", f"after remove(): {resid}", 0))
    if res["thr_end"] != (0, 0, 0) or res["stray"]:
        bad.append(("busy:threads-left", f"threads at the end: {res['thr_end']}{res['stray']}", 0))
    if res["probe"] != "ok":
        bad.append(("busy:cannot-start-again", f"new context afterwards: {res['probe']}", 0))
    return bad


def _mk(kind, n, acts=None, relF=0, runB="loop", body_acts=None):
    return ["make", kind, n, NAMES[n], 0, relF, runB, 0, {"acts": acts or [], "body_acts": body_acts or {}}]


# populations in which release steps / task bodies / stop handlers act on the stopping context; creation order != ownership order
ACT_SPECS = [
    # an owner created first whose release step removes what it owns (created later), for every kind of owned object
    {"ops": [_mk("rpc", 1, acts=[["remove", 2], ["remove", 3]]), _mk("instr", 2), _mk("task", 3), ["tstart", 3]], "end": ["stop"]},
    # owned first, owner later; the owner also removes itself and an unknown name, looks others up and calls them
    {"ops": [_mk("instr", 2), _mk("rpc", 3, relF=1), _mk("rpc", 1, acts=[["remove", 2], ["remove", 1], ["remove", 4], ["get", 3], ["call", 3], ["call", 2]])],
     "end": ["stop"]},
    # a task that makes an instrument in run() and removes it in `finally:`; another object released in between
    {"ops": [_mk("task", 1, runB="acting", body_acts={"pre": [["make", 4, "instr"]], "finally": [["remove", 4]]}), ["tstart", 1], _mk("rpc", 2)],
     "end": ["stop"], "wait_made": 4},
    {"ops": [_mk("rpc", 2), _mk("task", 1, runB="acting", body_acts={"pre": [["make", 4, "rpc"], ["make", 3, "instr"]], "finally": [["remove", 3], ["remove", 4], ["remove", 2]]}),
             ["tstart", 1]], "end": ["stop"], "wait_made": 3},
    # release steps that make objects, stop() re-entrantly (wrong thread), call the object being released
    {"ops": [_mk("rpc", 1, acts=[["make", 4], ["stop"], ["call", 1], ["get", 1]]), _mk("instr", 2, acts=[["make", 3, "instr"], ["remove", 1]]),
             _mk("task", 3, acts=[["remove", 2], ["call", 1]])], "end": ["stop"]},
    # the same owners removed while the context is active (the nested removal really happens), then stop
    {"ops": [_mk("rpc", 1, acts=[["remove", 2], ["make", 4]]), _mk("instr", 2, acts=[["remove", 3]]), _mk("task", 3), ["tstart", 3]],
     "end": ["remove:1", "stop"]},
    {"ops": [_mk("task", 3, acts=[["remove", 1]]), _mk("rpc", 1, acts=[["remove", 3], ["remove", 2]]), _mk("instr", 2), ["iopen", 2]],
     "end": ["remove:1", "remove:3", "stop"]},
    # stop handlers (every callable kind elsewhere) that remove, make, look up and call objects
    {"ops": [_mk("rpc", 1), _mk("instr", 2), _mk("task", 3), ["tstart", 3], ["addh", "ok", "partial", 0, [["remove", 2], ["call", 1], ["make", 4]]],
             ["addh", "exc", "object", 1, [["remove", 3], ["remove", 3], ["get", 1]]]], "end": ["stop"]},
]


def run_acts(seed, spec: dict, policy="weighted", change_points=None) -> Trace:
    """release steps / task bodies / stop handlers that act on the context while it is stopping or while an object is
    removed (oracle only: the Lean model's release step does not run context operations)"""
    tr = Trace()
    tr.obs_pending = ["acts", spec]

    def body(w):
        REC.world = w
        r = Runner1(w, bool(seed % 2))
        r.new()
        ctx = r.ctx
        rec = REC.of(ctx)
        res = {"setup": [r.do(["start", 0, 0])], "end": []}
        for op in spec["ops"]:
            res["setup"].append(r.do(op))
        if spec.get("wait_made"):
            nm = NAMES[spec["wait_made"]]
            w.sched.yield_point("c12.acts", blocked_on=lambda: ctx._rpc_object_map.get(nm) is not None and
                                nm in ctx._message_router._address_to_messagehandler_map)
        for e in spec["end"]:
            if e == "stop":
                res["end"].append(("stop", r.do(["stop"])))
            else:
                res["end"].append((e, r.do(["remove", int(e.split(":")[1])])))
            r.quiesce(ctx)
        res["thr"] = thread_counts(rec)
        res["resid"] = residue_s(ctx, rec)
        res["stray"] = stray_s()
        res["constructed"] = sorted(mid for mid, _o in rec.objs) + [0]
        res["relc"] = dict(rec.rel_count)
        res["acts"] = list(rec.act_log)
        res["probe"] = r.probe()
        return res

    out = _run(seed, body, policy=policy, change_points=change_points, max_steps=60000)
    tr.deadlock = out.deadlock or ("step budget exceeded" if out.budget else None)
    tr.error = out.error
    tr.calls = out.value
    return tr


def oracle_acts(spec: dict, tr: Trace):
    if tr.deadlock is not None:
        return [("acts:hang", f"stop()/remove() with release steps acting on the context never completed: {tr.deadlock[:300]}", 0)]
    res = tr.calls
    bad = []
    if any(o != "ok" for o in res["setup"]):
        bad.append(("acts:setup-fails", f"setup: {res['setup']}", 0))
    for what, o in res["end"]:
        if what == "stop" and o != "ok":
            bad.append((f"acts:stop-raises:{o[4:]}", f"stop() raised {o} (release steps / task bodies / handlers acting on the context); acts: {res['acts']}", 0))
    if res["end"] and res["end"][-1][0] == "stop":
        st = parse_state(res["resid"])
        if res["thr"] != (0, 0, 0):
            bad.append(("acts:stop-leaves-threads", f"threads after stop(): {res['thr']}; {res['resid']}; acts: {res['acts']}", 0))
        if st["conn"] != "-" or st["h"] != "-" or st["map"] != "-":
            bad.append(("acts:stop-leaves-residue", f"after stop(): {res['resid']}", 0))
        for mid in res["constructed"]:
            c = res["relc"].get(mid, 0)
            if c != 1:
                bad.append(("acts:release-count", f"object of manager {mid} released {c} times; acts: {res['acts']}", 0))
    if res["stray"]:
        bad.append(("acts:stray-thread", res["stray"], 0))
    if any(o == "never-finished" for _w, _a, o in res["acts"]):
        bad.append(("acts:act-hangs", f"{res['acts']}", 0))
    if res["probe"] != "ok":
        bad.append(("acts:cannot-start-again", f"new context afterwards: {res['probe']}", 0))
    return bad


RX_SPECS = [{"other": o, "gate": g, "pop": pop}
            for o in ("make", "make_instr", "remove", "get", "call")
            for g in ("before_unregister", None)
            for pop in ([], [["make", "task", 2, NAMES[2], 0, 1, "loop", 0], ["tstart", 2]])]


def run_rx(seed, spec: dict, policy="weighted", change_points=None) -> Trace:
    """remove_rpc_object(a) in one thread racing make / remove / get / call of the SAME name in another; optionally the remover is
    parked between its first locked block and unregister_message_handler until the other thread is done (directed schedule);
    line-level yield points in remove_rpc_object and _internal_make_rpc_object otherwise.  Oracle only."""
    tr = Trace()
    tr.obs_pending = ["rx", spec]

    def body(w):
        REC.world = w
        r = Runner1(w, bool(seed % 2))
        r.new()
        ctx = r.ctx
        rec = REC.of(ctx)
        res = {"setup": [r.do(["start", 0, 0]), r.do(["make", "rpc", 1, "a", 0, int(seed % 3 == 0), "loop", 0])]}
        for op in spec["pop"]:
            res["setup"].append(r.do(op))
        r2 = Runner1(w, r.cfg_tcp)
        r2.ctx = ctx
        other_done = {"v": False}
        if spec["gate"]:
            REC.gate = (spec["gate"], lambda: other_done["v"])

        def remover():
            REC.maker_ident = _rt.get_ident()      # the thread the gate applies to
            return r.do(["remove", 1])

        def other():
            try:
                o = spec["other"]
                if o == "make":
                    return r2.do(["make", "rpc", 1, "a", 0, 0, "loop", 0])
                if o == "make_instr":
                    return r2.do(["make", "instr", 1, "a", 0, 1, "loop", 0])
                if o == "remove":
                    return r2.do(["remove", 1])
                if o == "get":
                    return r2.do(["get", 1, "rpc"])
                return r2.do(["call", 1])
            finally:
                other_done["v"] = True
        t1 = w.spawn(remover, "maker")
        if spec["gate"]:
            # let the remover reach its gate before the other thread starts
            w.sched.yield_point("c12.rx", blocked_on=lambda: REC.gate is None or _done_thread(t1))
        t2 = w.spawn(other, "maker")
        t1.join()
        t2.join()
        res["remove"] = t1.value if t1.exc is None else _exc_s(t1.exc)
        res["other"] = t2.value if t2.exc is None else _exc_s(t2.exc)
        res["mid"] = residue_s(ctx, rec) + stray_s()
        res["stop"] = r.do(["stop"])
        res["thr"] = thread_counts(rec)
        res["end"] = residue_s(ctx, rec)
        res["stray"] = stray_s()
        res["constructed"] = sorted(mid for mid, _o in rec.objs) + [0]
        res["relc"] = dict(rec.rel_count)
        res["probe"] = r.probe()
        return res

    from qmi.core.context import QMI_Context
    out = _run(seed, body, policy=policy, change_points=change_points, max_steps=60000,
               trace_funcs=[] if spec["gate"] else [QMI_Context.remove_rpc_object, QMI_Context._internal_make_rpc_object])
    tr.deadlock = out.deadlock or ("step budget exceeded" if out.budget else None)
    tr.error = out.error
    tr.calls = out.value
    return tr


def _done_thread(t) -> bool:
    return getattr(t, "finished", False)


def oracle_rx(spec: dict, tr: Trace):
    tag = f"remove||{spec['other']}"
    if tr.deadlock is not None:
        return [(f"rx:hang:{tag}", f"{tag} of one name never completed: {tr.deadlock[:300]}", 0)]
    res = tr.calls
    bad = []
    if any(o != "ok" for o in res["setup"]):
        bad.append(("rx:setup-fails", f"{res['setup']}", 0))
    st = parse_state(res["mid"])
    mp = dict(e.split(":") for e in _lst(st["map"]))
    hs = dict(e.split(":") for e in _lst(st["h"]))
    live = {e.split(":")[0] for e in _lst(st["m"])}
    if "-" in mp.values():
        bad.append((f"rx:reservation-left:{tag}", f"after {tag}: {res['mid']} (remove: {res['remove']}, other: {res['other']})", 0))
    if mp != hs:
        bad.append((f"rx:name-not-bound-to-registered-object:{tag}",
                    f"after {tag}: object map {st['map']} vs handler map {st['h']} (remove: {res['remove']}, other: {res['other']})", 0))
    if any(v != "-" and v not in live for v in mp.values()):
        bad.append((f"rx:name-bound-to-dead-object:{tag}", f"{res['mid']}", 0))
    if "stray" in st:
        bad.append((f"rx:stray-thread:{tag}", f"{res['mid']}", 0))
    if spec["other"].startswith("make") and res["other"] != "ok" and ("1" in mp) != False and res["remove"] == "ok" and "1" in mp:
        bad.append((f"rx:refused-make-left-something:{tag}", f"make refused ({res['other']}) but the name is taken: {res['mid']}", 0))
    if res["stop"] != "ok":
        bad.append((f"rx:stop-raises:{res['stop'][4:]}", f"stop() after {tag} raised {res['stop']}; before stop: {res['mid']}", 0))
    if res["thr"] != (0, 0, 0) or res["stray"]:
        bad.append((f"rx:stop-leaves-threads:{tag}", f"threads after stop(): {res['thr']}{res['stray']}; {res['end']}", 0))
    for mid in res["constructed"]:
        if res["relc"].get(mid, 0) != 1:
            bad.append((f"rx:release-count:{tag}", f"object of manager {mid} released {res['relc'].get(mid, 0)} times", 0))
    if res["probe"] != "ok":
        bad.append(("rx:cannot-start-again", f"{res['probe']}", 0))
    return bad


REQ_KINDS = ["get_name", "lock", "lock_token", "unlock", "unlock_token", "force_unlock", "is_locked"]
QUEUE_SPECS = [
    {"local": ["lock", "is_locked", "get_name"], "peer": [], "action": "remove"},
    {"local": ["force_unlock", "unlock_token", "get_name"], "peer": ["lock", "is_locked"], "action": "stop"},
    {"local": ["get_name", "unlock"], "peer": ["lock_token", "get_name", "force_unlock"], "action": "remove"},
    {"local": REQ_KINDS, "peer": [], "action": "stop"},
    {"local": [], "peer": REQ_KINDS, "action": "remove"},
    {"local": ["is_locked"], "peer": ["unlock"], "action": "stop", "prelock": True},
    {"local": ["lock_token", "lock"], "peer": ["is_locked", "unlock_token"], "action": "remove", "prelock": True},
]


def _request(proxy, kind):
    if kind == "get_name":
        return proxy.get_name()
    if kind == "lock":
        return proxy.lock()
    if kind == "lock_token":
        return proxy.lock(lock_token="tok")
    if kind == "unlock":
        return proxy.unlock()
    if kind == "unlock_token":
        return proxy.unlock(lock_token="tok")
    if kind == "force_unlock":
        return proxy.force_unlock()
    if kind == "is_locked":
        return proxy.is_locked()
    raise ValueError(kind)


def run_queued(seed, spec: dict, policy="weighted", change_points=None) -> Trace:
    """an object is busy executing a method while requests of EVERY kind it accepts (method call, lock, unlock, force_unlock,
    is_locked, with and without tokens; local and from a peer context) wait in its queue; then remove()/stop() arrives and the
    method finishes.  Every requester must get its answer, the object is released once, its thread ends.
    The manager/worker events are trace-refined against Mgr.mstep like the racing-calls family."""
    tr = Trace()
    tr.obs_pending = ["queued", spec]

    def body(w):
        from harness import detsched as D
        from qmi.core.context import QMI_Context
        REC.world = w
        REC.flags["calltrace"] = True
        r = Runner1(w, True)
        st = r.busy_state
        st["ev"] = D.Event()
        r.new()
        ctx = r.ctx
        rec = REC.of(ctx)
        res = {"setup": [r.do(["start", 0, 0]), r.do(["make", "rpc", 1, "a", 0, int(spec.get("relF", 0)), "loop", 0])], "req": []}
        cli = None
        if spec["peer"]:
            cli = QMI_Context("cli")
            cli.start()
            cli.connect_to_peer("c1", "localhost:%d" % PORT)
        mgr = ctx._rpc_object_map["a"]
        worker = mgr._rpc_thread
        if spec.get("prelock"):
            res["setup"].append("ok" if r.proxies[(1, "rpc")].lock() else "lock-refused")
        holder_proxy = r.proxies[(1, "rpc")] if spec.get("prelock") else ctx.get_rpc_object_by_name("c1.a")
        hold_out = []

        def holder():
            try:
                hold_out.append(holder_proxy.hold())
            except D.SchedAbort:
                hold_out.append("never-answered")
                raise
            except BaseException as e:  # noqa
                hold_out.append(type(e).__name__)
        th = w.spawn(holder, "holder")
        w.sched.yield_point("c12.queued.hold", blocked_on=lambda: st["entered"] >= 1)

        def mk_req(where, kind):
            out = []
            res["req"].append((where, kind, out))

            def run():
                try:
                    p = (cli if where == "peer" else ctx).make_proxy(desc)
                    v = _request(p, kind)
                    out.append("value:" + repr(v))
                except D.SchedAbort:
                    out.append("never-answered")
                    raise
                except BaseException as e:  # noqa
                    out.append(type(e).__name__)
            return run
        desc = mgr.rpc_object().rpc_object_descriptor
        reqs = [("local", k) for k in spec["local"]] + [("peer", k) for k in spec["peer"]]
        threads = [w.spawn(mk_req(wh, k), "requester") for wh, k in reqs]
        w.sched.yield_point("c12.queued.all", blocked_on=lambda: len(worker._fifo) >= len(reqs))
        res["queued"] = len(worker._fifo)

        def opener():
            w.sched.yield_point("c12.queued.open", blocked_on=lambda: worker._shutdown_requested)
            st["ev"].set()
        op = w.spawn(opener, "opener")
        res["action"] = r.do(["stop"] if spec["action"] == "stop" else ["remove", 1])
        for t in threads + [th, op]:
            t.join()
        res["hold"] = hold_out
        res["relc"] = rec.rel_count.get(mgr._c12_id, 0)
        res["worker_done"] = _done(worker)
        if cli is not None:
            cli.stop()
        if ctx._active:
            res["final_stop"] = r.do(["stop"])
        res["thr_end"] = thread_counts(rec)
        res["stray"] = stray_s()
        return res

    out = _run(seed, body, policy=policy, change_points=change_points, max_steps=60000)
    tr.deadlock = out.deadlock or ("step budget exceeded" if out.budget else None)
    tr.error = out.error
    tr.calls = out.value
    tr.thread_errors = [(n, type(e).__name__) for n, e in out.thread_errors]
    by_thread = {}
    for th, ev, rs in REC.mevents:
        if th is not None:
            by_thread.setdefault(id(th), (th, []))[1].append((ev, rs))
    for th, evs in by_thread.values():
        tr.lines.append("mnew")
        tr.impl.append("ok")
        for ev, rs in evs:
            tr.lines.append("m " + ev)
            tr.impl.append(rs)
        if tr.deadlock is None:
            tr.lines.append("mend")
            tr.impl.append(f"exited={int(_done(th))} fifo={len(th._fifo)} unanswered=0")
    return tr


def oracle_queued(spec: dict, tr: Trace):
    kinds = "+".join(sorted(set(spec["local"]) | set(spec["peer"])))
    if tr.deadlock is not None:
        died = ",".join(sorted({t for _n, t in tr.thread_errors})) or "-"
        return [(f"queued:hang:{spec['action']}",
                 f"{spec['action']}() of a busy object with queued requests ({kinds}) never completed / a requester was never answered; "
                 f"threads that died: {died}; {tr.deadlock[:250]}", 0)]
    res = tr.calls
    bad = []
    if any(o != "ok" for o in res["setup"]):
        bad.append(("queued:setup-fails", f"{res['setup']}", 0))
    if res["action"] != "ok":
        bad.append((f"queued:{spec['action']}-raises:{res['action'][4:]}", f"{spec['action']}() raised {res['action']}", 0))
    for where, kind, out in res["req"]:
        if len(out) != 1 or out[0] == "never-answered":
            bad.append((f"queued:request-not-answered:{kind}", f"{where} {kind} request queued behind a running method: {out}", 0))
        elif not out[0].startswith("value:") and out[0] != "QMI_MessageDeliveryException":
            bad.append((f"queued:request-outcome:{kind}:{out[0]}", f"{where} {kind} request queued at {spec['action']}(): {out[0]}", 0))
    if res["relc"] != 1:
        bad.append(("queued:release-count", f"the busy object was released {res['relc']} times", 0))
    if not res["worker_done"]:
        bad.append(("queued:worker-alive", "the object's thread is still alive", 0))
    if tr.thread_errors:
        bad.append(("queued:thread-died:" + ",".join(sorted({t for _n, t in tr.thread_errors})), f"{tr.thread_errors}", 0))
    if res["thr_end"] != (0, 0, 0) or res["stray"]:
        bad.append(("queued:threads-left", f"{res['thr_end']}{res['stray']}", 0))
    return bad


REAL_SPECS = [
    {"incoming": 1, "outgoing": 0, "first": "server"},
    {"incoming": 2, "outgoing": 1, "first": "server"},
    {"incoming": 1, "outgoing": 1, "first": "client"},
    {"incoming": 0, "outgoing": 2, "first": "server"},
    {"incoming": 2, "outgoing": 0, "first": "client"},
    {"incoming": 0, "outgoing": 0, "first": "server"},
    # failed connection attempts (incoming reset at the handshake, incoming garbage, outgoing handshake failure) before and
    # between the real peers; afterwards the ordinary scenario: stop must still end ALL connections
    {"incoming": 1, "outgoing": 0, "first": "server", "failed": ["rst"]},
    {"incoming": 2, "outgoing": 1, "first": "server", "failed": ["garbage", "rst"], "failed_between": ["out_fail"]},
    {"incoming": 2, "outgoing": 0, "first": "server", "failed": ["out_fail"], "failed_between": ["rst", "rst"]},
    {"incoming": 1, "outgoing": 1, "first": "client", "failed": ["rst", "garbage"], "failed_between": ["garbage"]},
]


def run_real_badport(port: int, timeout: float = 20.0) -> dict:
    """real sockets: a tcp_server_port the OS cannot bind (out of range -> OverflowError, not OSError): start() must raise and
    leave no thread; a fresh context starts afterwards"""
    res = {"spec": {"badport": port, "first": "server", "incoming": 0, "outgoing": 0}, "steps": []}

    def body():
        from qmi.core.context import QMI_Context
        from qmi.core.config_defs import CfgQmi, CfgContext
        base = set(_rt.enumerate())
        c = QMI_Context("c1", CfgQmi(contexts={"c1": CfgContext(tcp_server_port=port)}))
        try:
            c.start()
            res["start"] = "ok"
            c.stop()
        except BaseException as e:  # noqa
            res["start"] = type(e).__name__
        res["router_thread_left"] = [type(t).__name__ for t in _rt.enumerate()
                                     if t not in base and type(t).__name__ == "_EventDrivenThread" and t.is_alive()]
        try:
            c2 = QMI_Context("c1", CfgQmi(contexts={"c1": CfgContext(tcp_server_port=0)}))
            c2.start()
            c2.stop()
            res["restart"] = "ok"
        except BaseException as e:  # noqa
            res["restart"] = f"{type(e).__name__}: {e}"
        # the never-started context keeps its internal $context object (as any constructed, unstarted context does): retire it
        try:
            c._discard()
        except BaseException:  # noqa
            pass

    def guarded():
        try:
            body()
        except BaseException as e:  # noqa
            res["error"] = f"{type(e).__name__}: {e}"
    import logging
    prev = logging.root.manager.disable
    logging.disable(logging.CRITICAL)
    try:
        th = _rt.Thread(target=guarded, daemon=True)
        th.start()
        th.join(timeout)
        res["hang"] = th.is_alive()
    finally:
        logging.disable(prev)
    return res


def oracle_real_badport(res: dict):
    port = res["spec"]["badport"]
    if res.get("hang") or "error" in res:
        return [(f"real:badport:error", f"tcp_server_port={port}: {res.get('error', 'hang')}", 0)]
    bad = []
    if res.get("start") == "ok":
        return bad
    if res.get("router_thread_left"):
        bad.append((f"real:failed-start-residue:context:tcp-port-unbindable",
                    f"start() with tcp_server_port={port} raised {res['start']} and left {res['router_thread_left']} alive", 0))
    if res.get("restart") != "ok":
        bad.append(("real:cannot-start-again:after-unbindable-port", f"{res.get('restart')}", 0))
    return bad


def run_real(spec: dict, timeout: float = 30.0) -> dict:
    """REAL loopback sockets and real threads (no scheduler, no simnet): a context with a fixed tcp_server_port and
    `incoming` / `outgoing` established peer connections is stopped (server first or clients first); a new context with the
    same port must start at once.  Bounded waits everywhere; the scenario runs in a helper thread with a deadline."""
    import socket
    res = {"spec": spec, "steps": []}

    def free_port():
        sk = socket.socket()
        sk.bind(("127.0.0.1", 0))
        p = sk.getsockname()[1]
        sk.close()
        return p

    def body():
        from qmi.core.context import QMI_Context
        from qmi.core.config_defs import CfgQmi, CfgContext
        from qmi.core.messaging import _TcpServer, _UdpResponder
        base = set(_rt.enumerate())
        port = free_port()
        cfg = lambda name, p: CfgQmi(contexts={name: CfgContext(tcp_server_port=p)})
        made = []
        try:
            srv = QMI_Context("c1", cfg("c1", port))
            srv.start()
            made.append(srv)
            clients, others = [], []
            failed = list(spec.get("failed", []))       # failed connection attempts: before the real peers ...
            between = list(spec.get("failed_between", []))   # ... and between them
            res["failed"] = []

            def managed_ok():
                """every connection the socket manager still manages is open (a failed attempt leaves no entry behind)"""
                from qmi.core.messaging import _PeerTcpConnection
                sm = srv._message_router._socket_manager
                deadline = _rtime_monotonic() + 2.0
                while True:
                    wr = [x for x in list(sm._socket_wrappers) if isinstance(x, _PeerTcpConnection)]
                    stale = [x.peer_context_alias for x in wr if x._sock.fileno() == -1]
                    ghost = [k for k, v in list(sm._peer_context_map.items()) if v not in wr]
                    if not stale and not ghost:
                        return None
                    if _rtime_monotonic() > deadline:
                        return f"closed connections still managed: {stale}; map entries without a managed connection: {ghost}"
                    _rtime_sleep(0.01)

            def attempt(kind):
                """a connection attempt that fails: incoming reset at the handshake, incoming garbage, outgoing handshake failure"""
                import struct
                if kind == "rst":
                    # park the socket-manager thread (through its own run_in_thread), connect and reset, let it go on:
                    # the accepted socket is dead when the handshake is sent
                    gate, parked = _rt.Event(), _rt.Event()
                    srv._message_router._thread.run_in_thread(lambda: (parked.set(), gate.wait(5.0)))
                    parked.wait(5.0)
                    raw = socket.create_connection(("127.0.0.1", port), timeout=5.0)
                    raw.setsockopt(socket.SOL_SOCKET, socket.SO_LINGER, struct.pack("ii", 1, 0))
                    raw.close()
                    _rtime_sleep(0.02)
                    gate.set()
                    out = "reset"
                elif kind == "garbage":
                    raw = socket.create_connection(("127.0.0.1", port), timeout=5.0)
                    raw.sendall(b"\x00\xff not a qmi handshake " * 3)
                    _rtime_sleep(0.02)
                    raw.close()
                    out = "garbage"
                else:   # "out_fail": the peer accepts and hangs up before any handshake
                    lst = socket.socket()
                    lst.bind(("127.0.0.1", 0))
                    lst.listen(1)

                    def hangup():
                        try:
                            cs_, _ = lst.accept()
                            cs_.close()
                        except OSError:
                            pass
                    ht = _rt.Thread(target=hangup, daemon=True)
                    ht.start()
                    try:
                        srv.connect_to_peer("ghost", "127.0.0.1:%d" % lst.getsockname()[1])
                        out = "connected?!"
                    except BaseException as e:  # noqa
                        out = type(e).__name__
                    ht.join(2.0)
                    lst.close()
                # let the socket manager digest it, then look at what it still manages
                done = _rt.Event()
                srv._message_router._thread.run_in_thread(done.set)
                done.wait(5.0)
                res["failed"].append((kind, out, managed_ok()))

            for kind in failed:
                attempt(kind)
            for i in range(spec["incoming"]):
                if i == 1:
                    for kind in between:
                        attempt(kind)
                c = QMI_Context(f"cl{i}")
                c.start()
                made.append(c)
                c.connect_to_peer("c1", "127.0.0.1:%d" % port)
                c.make_peer_context_proxy("c1").get_version(rpc_timeout=5.0)
                clients.append(c)
            for i in range(spec["outgoing"]):
                op = free_port()
                o = QMI_Context(f"o{i}", cfg(f"o{i}", op))
                o.start()
                made.append(o)
                srv.connect_to_peer(f"o{i}", "127.0.0.1:%d" % op)
                srv.make_peer_context_proxy(f"o{i}").get_version(rpc_timeout=5.0)
                others.append(o)
            if spec["incoming"] <= 1:
                for kind in between:
                    attempt(kind)
            res["steps"].append("established")
            order = [srv] + clients + others if spec["first"] == "server" else clients + others + [srv]
            res["peers_after_stop"] = []
            for c in order:
                c.stop()
                if c is srv and spec["first"] == "server":
                    # "stop ends ALL its connections": every client sees the end of its connection and a call through a
                    # stale proxy fails promptly (a delivery error, not the rpc time-out)
                    from qmi.core.exceptions import QMI_RpcTimeoutException
                    for cl in clients:
                        deadline = _rtime_monotonic() + 3.0
                        while cl.has_peer_context("c1") and _rtime_monotonic() < deadline:
                            _rtime_sleep(0.01)
                        gone = not cl.has_peer_context("c1")
                        t0 = _rtime_monotonic()
                        try:
                            cl.make_peer_context_proxy("c1").get_version(rpc_timeout=2.0)
                            call = "ok"
                        except QMI_RpcTimeoutException:
                            call = "timeout"
                        except BaseException as e:  # noqa
                            call = type(e).__name__
                        res["peers_after_stop"].append((cl.name, gone, call, round(_rtime_monotonic() - t0, 2)))
            res["steps"].append("stopped")
            # the process must be able to start a context of the same configuration at once
            try:
                again = QMI_Context("c1", cfg("c1", port))
                again.start()
                made.append(again)
                res["restart"] = "ok"
                sm = again._message_router._socket_manager
                opts = {}
                deadline = _rtime_monotonic() + 5.0
                while _rtime_monotonic() < deadline and len(sm._socket_wrappers) < 2:
                    _rtime_sleep(0.005)
                for wr in list(sm._socket_wrappers):
                    if isinstance(wr, _TcpServer):
                        opts["tcp"] = wr._sock.getsockopt(socket.SOL_SOCKET, socket.SO_REUSEADDR)
                    if isinstance(wr, _UdpResponder):
                        opts["udp"] = wr._sock.getsockopt(socket.SOL_SOCKET, socket.SO_REUSEADDR)
                res["reuse"] = opts
                again.stop()
            except BaseException as e:  # noqa
                res["restart"] = f"{type(e).__name__}: {e}"
        finally:
            for c in made:
                try:
                    if c._active:
                        c.stop()
                except BaseException:  # noqa
                    pass
            deadline = _rtime_monotonic() + 5.0
            left = [t for t in _rt.enumerate() if t not in base and t is not _rt.current_thread()]
            while left and _rtime_monotonic() < deadline:
                _rtime_sleep(0.01)
                left = [t for t in _rt.enumerate() if t not in base and t is not _rt.current_thread() and t.is_alive()]
            res["threads_left"] = [type(t).__name__ for t in left]

    def guarded():
        try:
            body()
        except BaseException as e:  # noqa
            res["error"] = f"{type(e).__name__}: {e}"
    import logging
    prev = logging.root.manager.disable
    logging.disable(logging.CRITICAL)          # failed attempts are logged with tracebacks by QMI; keep the check's output clean
    try:
        th = _rt.Thread(target=guarded, daemon=True)
        th.start()
        th.join(timeout)
        res["hang"] = th.is_alive()
    finally:
        logging.disable(prev)
    return res


def _rtime_monotonic():
    import time
    return time.monotonic()


def _rtime_sleep(d):
    import time
    time.sleep(d)


def reuse_before_bind():
    """source check: in MessageRouter.start_tcp_server / start_udp_responder the address-reuse option is set on the socket
    before bind() (set afterwards it has no effect on that bind: a port in TIME_WAIT is refused)"""
    import ast
    import inspect
    import textwrap
    from qmi.core.messaging import MessageRouter
    out = {}
    for fn in ("start_tcp_server", "start_udp_responder"):
        tree = ast.parse(textwrap.dedent(inspect.getsource(getattr(MessageRouter, fn))))
        binds, opts = [], []
        for node in ast.walk(tree):
            if isinstance(node, ast.Call) and isinstance(node.func, ast.Attribute):
                if node.func.attr == "bind":
                    binds.append(node.lineno)
                if node.func.attr == "setsockopt" and any(isinstance(a, ast.Attribute) and a.attr in ("SO_REUSEADDR", "SO_REUSEPORT")
                                                          for a in node.args):
                    opts.append(node.lineno)
        if not binds or not opts:
            raise RuntimeError(f"reuse_before_bind: {fn}: source shape not understood (bind at {binds}, setsockopt at {opts})")
        out[fn] = min(opts) < min(binds)
    return out


def managed_after_handshake():
    """source check: _SocketManager.add_incoming_connection registers the connection (`_socket_wrappers.append`,
    `_peer_context_map[...] =`) only after attach / send_handshake succeeded"""
    import ast
    import inspect
    import textwrap
    from qmi.core.messaging import _SocketManager
    tree = ast.parse(textwrap.dedent(inspect.getsource(_SocketManager.add_incoming_connection)))
    hs, reg = [], []
    for node in ast.walk(tree):
        if isinstance(node, ast.Call) and isinstance(node.func, ast.Attribute):
            if node.func.attr == "send_handshake":
                hs.append(node.lineno)
            if node.func.attr == "append" and isinstance(node.func.value, ast.Attribute) and node.func.value.attr == "_socket_wrappers":
                reg.append(node.lineno)
        if isinstance(node, ast.Assign) and any(isinstance(t, ast.Subscript) and isinstance(t.value, ast.Attribute) and
                                                 t.value.attr == "_peer_context_map" for t in node.targets):
            reg.append(node.lineno)
    if not hs or not reg:
        raise RuntimeError(f"managed_after_handshake: source shape not understood (handshake at {hs}, registration at {reg})")
    return min(reg) > max(hs)


def oracle_real(res: dict):
    sp = res["spec"]
    tag = f"{sp['first']}-first:in{sp['incoming']}:out{sp['outgoing']}" + (":after-failed-attempts" if sp.get("failed") or sp.get("failed_between") else "")
    if res.get("hang"):
        return [(f"real:hang:{tag}", f"real-socket scenario did not finish within its deadline after {res['steps']}", 0)]
    if "error" in res:
        return [(f"real:error:{tag}", f"real-socket scenario raised {res['error']} after {res['steps']}", 0)]
    bad = []
    for kind, out, managed in res.get("failed", []):
        if managed:
            bad.append((f"real:failed-attempt-leaves-entry:{kind}", f"after a failed connection attempt ({kind}: {out}) the socket manager has {managed}", 0))
    for name, gone, call, dt in res.get("peers_after_stop", []):
        if not gone:
            bad.append(("real:peer-not-disconnected", f"{name} still lists the stopped context as a peer 3 s after its stop()", 0))
        if call in ("ok", "timeout"):
            bad.append((f"real:stale-proxy-{call}", f"a call from {name} to the stopped context: {call} after {dt} s (must fail promptly)", 0))
    if res.get("restart") != "ok":
        bad.append((f"real:cannot-start-again:{tag}", f"a new context with the same tcp_server_port right after stop(): {res.get('restart')}", 0))
    for k, v in res.get("reuse", {}).items():
        if v == 0:
            bad.append((f"real:reuseaddr-not-set:{k}", f"the listening {k} socket has SO_REUSEADDR = 0", 0))
    if res.get("threads_left") and res.get("restart") == "ok":
        bad.append(("real:threads-left", f"threads alive after all contexts stopped: {res['threads_left']}", 0))
    return bad


def run_calls(seed, spec: dict, policy="pct", change_points=None, labels=None) -> Trace:
    """layer D (oracle only): 1-3 managed caller threads — in the context itself or in a connected peer context — issue
    blocking calls (rpc_timeout=None) through proxies while the main thread removes the object / stops the context.
    `RpcObjectManager.handle_message` gets a yield point at every line (the window between the `_running` test and the push)."""
    tr = Trace()
    tr.obs_pending = ["calls", spec]

    def body(w):
        from harness import detsched as D
        from qmi.core.context import QMI_Context
        REC.world = w
        REC.flags["calltrace"] = True
        if labels is not None:
            orig_yp = w.sched.yield_point

            def yp(label, *a, **k):
                labels.append((w.sched.steps + 1, label))
                return orig_yp(label, *a, **k)
            w.sched.yield_point = yp
        r = Runner1(w, True)
        r.new()
        ctx = r.ctx
        o = r.do(["start", 0, 0])
        for op in spec["pop"]:
            r.do(op)
        cli = None
        if any(c["where"] == "peer" for c in spec["callers"]):
            cli = QMI_Context("cli")
            cli.start()
            cli.connect_to_peer("c1", "localhost:%d" % PORT)
        res = {"calls": [], "action": None, "setup": o, "steps0": w.sched.steps}

        def mk_caller(c):
            n = c["target"]
            if c["where"] == "peer":
                proxy = cli.get_rpc_object_by_name("c1." + NAMES[n])
            else:
                proxy = r.any_proxy(ctx, n)
            out = []
            res["calls"].append((c["where"], out))

            def run():
                for _ in range(c["ncalls"]):
                    t0 = w.sched.now
                    try:
                        v = proxy.get_name()
                        out.append(("ok" if v == NAMES[n] else f"wrong-value:{v!r}", w.sched.now - t0))
                    except D.SchedAbort:
                        out.append(("never-answered", None))
                        raise
                    except BaseException as e:  # noqa
                        out.append((type(e).__name__, w.sched.now - t0))
            return run
        if policy == "pct":
            # main gets the lowest priority of all threads that were not demoted: it performs remove()/stop() exactly when the
            # thread running at the change point (a caller, the object's worker, the socket thread) is demoted below it,
            # i.e. the sweep over change points places the action at every yield index of the call path
            w.sched.main.prio = -0.5
        threads = [w.spawn(mk_caller(c), "caller") for c in spec["callers"]]
        try:
            if spec["action"] == "stop":
                ctx.stop()
            else:
                ctx.remove_rpc_object(r.any_proxy(ctx, spec["victim"]))
            res["action"] = "ok"
        except D.SchedAbort:
            raise
        except BaseException as e:  # noqa
            res["action"] = _exc_s(e)
        for t in threads:
            t.join()
        res["thr"] = thread_counts(REC.of(ctx))
        # tidy up (must not hang either)
        if cli is not None:
            cli.stop()
        if ctx._active:
            ctx.stop()
        res["thr_end"] = thread_counts(REC.of(ctx))
        res["stray"] = stray_s()
        res["steps"] = w.sched.steps
        return res

    from qmi.core.rpc import RpcObjectManager
    out = _run(seed, body, policy=policy, change_points=change_points, trace_funcs=[RpcObjectManager.handle_message],
               max_steps=60000)
    tr.deadlock = out.deadlock or ("step budget exceeded" if out.budget else None)
    tr.error = out.error
    tr.calls = out.value
    # trace refinement input: the events of every worker thread, in the order they happened, against Mgr.mstep
    by_thread = {}
    for th, ev, res in REC.mevents:
        if th is not None:
            by_thread.setdefault(id(th), (th, []))[1].append((ev, res))
    for th, evs in by_thread.values():
        tr.lines.append("mnew")
        tr.impl.append("ok")
        for ev, res in evs:
            tr.lines.append("m " + ev)
            tr.impl.append(res)
        if tr.deadlock is None:
            tr.lines.append("mend")
            tr.impl.append(f"exited={int(_done(th))} fifo={len(th._fifo)} unanswered=0")
    tr.steps = out.sched.steps
    tr.partial = [(wh, list(o)) for wh, o in (getattr(out.value, "get", lambda *_: [])("calls") or [])] if out.value else None
    return tr


def oracle_calls(spec: dict, tr: Trace):
    """every call ends promptly with its value or a delivery error; remove()/stop() return; nothing hangs"""
    kinds = "+".join(sorted({c["where"] for c in spec["callers"]}))
    if tr.deadlock is not None:
        return [(f"calls:hang:{spec['action']}:{kinds}",
                 f"a call through a proxy racing {spec['action']} was never answered (or {spec['action']} never returned): {tr.deadlock[:300]}", 0)]
    res = tr.calls
    bad = []
    if res["action"] != "ok":
        bad.append((f"calls:{spec['action']}-raises:{res['action'][4:]}", f"{spec['action']}() racing calls raised {res['action']}", 0))
    for where, outs in res["calls"]:
        for o, dt in outs:
            if o not in ("ok", "QMI_MessageDeliveryException"):
                bad.append((f"calls:outcome:{where}:{o.split(':')[0]}", f"call from {where} caller racing {spec['action']}: {o}", 0))
            elif dt is not None and dt >= 1.0:
                bad.append((f"calls:late:{where}", f"call from {where} caller answered after {dt} virtual seconds", 0))
    if spec["action"] == "stop" and res["thr"] != (0, 0, 0):
        bad.append(("calls:stop-leaves-threads", f"threads after stop() racing calls: {res['thr']}", 0))
    if res["thr_end"] != (0, 0, 0) or res["stray"]:
        bad.append(("calls:threads-left", f"threads at the end: {res['thr_end']}{res['stray']}", 0))
    return bad


def call_sweep_points(seed, spec: dict, stride: int):
    """change points for one family: every yield index inside RpcObjectManager.handle_message (and the two after it) of the
    undisturbed run, plus every `stride`-th index of the rest of the racing phase"""
    labels = []
    tr = run_calls(seed, spec, change_points=[], labels=labels)
    if tr.error is not None:
        raise tr.error
    if tr.calls is None:
        return tr, []
    s0, n = tr.calls["steps0"], tr.steps
    pts = set(range(s0, n + 2, max(1, stride)))
    for i, lab in labels:
        if i >= s0 and lab.startswith("line:handle_message"):
            pts.update((i - 1, i, i + 1, i + 2))
    return tr, sorted(p for p in pts if p >= s0)


CALL_FAMILIES = [
    {"callers": [{"where": "local", "target": 1, "ncalls": 3}], "action": "remove", "victim": 1},
    {"callers": [{"where": "local", "target": 1, "ncalls": 3}], "action": "stop"},
    {"callers": [{"where": "peer", "target": 1, "ncalls": 3}], "action": "remove", "victim": 1},
    {"callers": [{"where": "peer", "target": 1, "ncalls": 3}], "action": "stop"},
    {"callers": [{"where": "local", "target": 1, "ncalls": 2}, {"where": "peer", "target": 1, "ncalls": 2},
                 {"where": "local", "target": 2, "ncalls": 2}], "action": "stop"},
    {"callers": [{"where": "local", "target": 2, "ncalls": 2}, {"where": "peer", "target": 1, "ncalls": 2}], "action": "remove", "victim": 1},
]
CALL_POP = [["make", "rpc", 1, "a", 0, 0, "loop", 0], ["make", "instr", 2, "b-1", 0, 1, "loop", 0]]


# ---------------------------------------------------------------------------
# generators
# ---------------------------------------------------------------------------

def gen_make(rng, fault_bias=0.25, names=(1, 2, 3, 4), invalid=0.12):
    kind = rng.choice(["rpc", "rpc", "instr", "task", "task"])
    if rng.random() < invalid:
        n, namestr = 9, rng.choice(INVALID)
    else:
        n = rng.choice(names)
        if names == (1, 2, 3, 4) and rng.random() < 0.12:
            n = rng.choice([5, 6, 7, 8])
        namestr = NAMES[n]
    ctorF = rng.choice([1, 1] + EXC_CODES + BASE_CODES) if rng.random() < fault_bias else 0
    return ["make", kind, n, namestr, ctorF, int(rng.random() < 0.3),
            rng.choice(["loop", "loop", "raise", "finish", "sleep", "signal"]), rng.choice([0, 0, 1] + EXC_CODES + BASE_CODES)]


def gen_op(rng):
    r = rng.random()
    n = rng.choice([1, 2, 3, 4]) if rng.random() < 0.88 else rng.choice([5, 6, 7, 8])
    if r < 0.36:
        return gen_make(rng)
    if r < 0.50:
        return ["remove", n]
    if r < 0.58:
        return ["get", n, rng.choice(["rpc", "instr", "task"])]
    if r < 0.68:
        return ["call", n]
    if r < 0.74:
        return ["iopen", n]
    if r < 0.78:
        return ["iclose", n]
    if r < 0.86:
        return ["tstart", n]
    if r < 0.91:
        return ["tjoin", n]
    if r < 0.96:
        hk = rng.choice(["ok", "exc", "exc", "base"] if rng.random() < 0.25 else ["ok", "exc", "exc"])
        return ["addh", hk, rng.choice(CALLABLE_SHAPES), rng.choice(BASE_CODES if hk == "base" else EXC_CODES)]
    if r < 0.98:
        return ["removeForeign"]
    return ["start", 0, 0]


def gen_history(rng, max_ops: int):
    """(cfg_tcp, ops): [ops before start] start(with faults) [ops] stop [ops after stop] probe"""
    cfg_tcp = rng.random() < 0.6
    ops = []
    for _ in range(rng.choice([0, 0, 0, 1, 2])):
        ops.append(gen_op(rng))
    tcpF = rng.choice(list(START_EXC)) if (cfg_tcp and rng.random() < 0.18) else 0
    udpF = rng.choice(list(START_EXC)) if rng.random() < 0.08 else 0
    ops.append(["start", tcpF, udpF])
    if tcpF or udpF:
        for _ in range(rng.choice([0, 1, 2])):
            ops.append(rng.choice([["start", 0, 0], ["stop"], gen_op(rng)]))
        ops.append(["probe"])
        return cfg_tcp, ops
    for _ in range(rng.randint(0, max_ops)):
        ops.append(gen_op(rng))
    if rng.random() < 0.85:
        ops.append(["stop"])
        for _ in range(rng.choice([0, 1, 2, 3])):
            ops.append(rng.choice([["stop"], ["start", 0, 0], ["call", rng.choice([1, 2, 3, 4])],
                                   ["get", rng.choice([1, 2, 3, 4]), "rpc"], ["remove", rng.choice([1, 2, 3, 4])],
                                   gen_make(rng, 0.1), ["tstart", rng.choice([1, 2, 3, 4])]]))
        ops.append(["probe"])
    return cfg_tcp, ops


def gen_singleton(rng, max_ops: int):
    ops = []
    reach = [rng.random() < 0.6, rng.random() < 0.6]      # fixed for the scenario: peers are never stopped under a live connection
    for _ in range(rng.randint(1, 3)):
        r = rng.random()
        if r < 0.12:
            ops.append(rng.choice([["qstop"], ["qcontext"], ["q", gen_make(rng)], ["q", ["get", 1, "rpc"]]]))
        cfg_tcp = rng.random() < 0.7
        peers = reach[:rng.choice([0, 0, 1, 2])]
        tcpF = rng.choice(list(START_EXC)) if (cfg_tcp and rng.random() < 0.3) else 0
        udpF = rng.choice(list(START_EXC)) if rng.random() < 0.1 else 0
        valid = rng.random() > 0.07
        logF = rng.choice(["logdir", "loglevel", "console", "loglevels"]) if rng.random() < 0.12 else 0
        ops.append(["qstart", valid, cfg_tcp, tcpF, udpF, peers, logF] if logF else ["qstart", valid, cfg_tcp, tcpF, udpF, peers])
        for _ in range(rng.randint(0, max_ops)):
            r = rng.random()
            if r < 0.45:
                ops.append(["q", gen_make(rng)])
            elif r < 0.6:
                ops.append(["q", ["remove", rng.choice([1, 2, 3, 4])]])
            elif r < 0.7:
                ops.append(["q", ["get", rng.choice([1, 2, 3, 4]), rng.choice(["rpc", "instr", "task"])]])
            elif r < 0.78:
                ops.append(["q", ["addh", rng.choice(["ok", "exc"]), rng.choice(CALLABLE_SHAPES), rng.choice(EXC_CODES)]])
            elif r < 0.84:
                ops.append(["qcontext"])
            elif r < 0.9:
                ops.append(["qstart", True, cfg_tcp, 0, 0, []])
            elif r < 0.94:
                ops.append(["q", ["stop"]])
            else:
                ops.append(["q", ["start", 0, 0]])
        ops.append(["qstop"])
        if rng.random() < 0.3:
            ops.append(["qstop"])
        ops.append(["qprobe", cfg_tcp])
    return ops


def gen_population(rng):
    ops = []
    for n in rng.sample([1, 2, 3], rng.choice([0, 1, 1, 2, 3])):
        mk = gen_make(rng, 0.0, names=(n,), invalid=0.0)
        mk[2], mk[3] = n, NAMES[n]
        ops.append(mk)
        if mk[1] == "task" and rng.random() < 0.6:
            ops.append(["tstart", n])
        if mk[1] == "instr" and rng.random() < 0.5:
            ops.append(["iopen", n])
    if rng.random() < 0.4:
        ops.append(["addh", rng.choice(["ok", "exc"]), rng.choice(CALLABLE_SHAPES), rng.choice(EXC_CODES)])
    mk = gen_make(rng, 0.2, names=(4, 4, 4, 1), invalid=0.0)
    return rng.random() < 0.5, ops, mk


# ---------------------------------------------------------------------------
# the property oracle (evaluated on implementation observations only; own bookkeeping, no Lean)
# ---------------------------------------------------------------------------

def parse_state(s: str) -> dict:
    d = {}
    for tok in s.split(" "):
        if "=" in tok:
            k, v = tok.split("=", 1)
            d[k] = v
    return d


def _lst(v: str):
    return [] if v in ("-", "", None) else v.split(",")


def _res(d: dict):
    return tuple(d.get(k) for k in ("r", "map", "h", "m", "conn", "thr", "fut"))


def oracle_history(tr: Trace):
    """returns [(signature, detail, op index)]"""
    bad = []
    active = stopped = False
    failed_start = None
    has_base = False
    live = {}            # name idx -> (manager id, kind)
    last = {}            # name idx -> why it is free
    prev = None

    def flag(sig, det, i):
        bad.append((sig, det, i))

    for i, ob in enumerate(tr.obs):
        op, out = ob["op"], ob["out"]
        k = op[0]
        if ob.get("hang"):
            flag(f"hang:{k}", f"op {op} never completed: {tr.deadlock}", i)
            break
        if k == "probe":
            if out != "ok":
                if failed_start:
                    flag(f"cannot-start-again:context:{failed_start}", f"after a failed start ({failed_start}) a new context of the same configuration: {out}", i)
                elif stopped:
                    flag("cannot-start-again:context:after-stop", f"new context after stop(): {out}", i)
            continue
        st = parse_state(ob["state"])
        if k == "new":
            prev = st
            continue
        if "stray" in st:
            flag(f"stray-thread:{k}", f"threads not accounted for after {op}: {st['stray']}", i)
        if "fut" in st:
            flag(f"future-handler-left:{k}", f"{st['fut']} $future_ handlers registered after {op}", i)
        if ob.get("dt", 0) >= RPC_TIMEOUT or out == "exc:QMI_RpcTimeoutException":
            flag(f"hang:{k}", f"{op} did not complete promptly (virtual dt={ob.get('dt')}, {out})", i)
        for mid, cnt in ob.get("relc", {}).items():
            if cnt > 1:
                flag("released-twice", f"manager {mid} released {cnt} times (after {op})", i)
        same = _res(st) == _res(prev)
        if k == "make":
            _, kind, n, namestr, ctorF, relF, runB, _rb = op[:8]
            if not ref_valid(namestr):
                if out == "ok" or not same:
                    flag("invalid-name-accepted", f"make {namestr!r}: {out}, residue changed={not same}", i)
            elif not active:
                if out == "ok" or not same:
                    flag("make-in-inactive-context", f"make in inactive context: {out}, residue changed={not same}", i)
            elif n in live:
                if out != "exc:QMI_DuplicateNameException":
                    flag("duplicate-name-not-refused", f"make of live name {namestr!r}: {out}", i)
                elif not same:
                    flag("duplicate-name-residue", f"refused duplicate changed the state: {prev} -> {st}", i)
            else:
                if out == "exc:QMI_DuplicateNameException":
                    flag(f"name-not-free:{last.get(n, 'fresh')}", f"make {namestr!r} refused as duplicate although free ({last.get(n, 'never used')})", i)
                elif ctorF:
                    if out == "ok":
                        flag("failed-ctor-accepted", f"constructor raised but make returned ok", i)
                    if not same:
                        flag(f"failed-ctor-residue:{kind}", f"constructor of {kind} {namestr!r} failed; before: {prev} after: {st}", i)
                    last[n] = "after-failed-ctor"
                elif out == "ok":
                    ids = dict(e.split(":") for e in _lst(st["map"]))
                    live[n] = (ids.get(str(n)), kind)
                else:
                    flag(f"make-fails:{kind}", f"make {namestr!r} in active context, free name, good constructor: {out}", i)
        elif k == "remove":
            n = op[1]
            if n in live and out == "ok":
                mid, kind = live.pop(n)
                last[n] = "after-remove"
                left = []
                if any(e.split(":")[0] == str(n) for e in _lst(st["map"])):
                    left.append("reservation")
                if any(e.split(":")[0] == str(n) for e in _lst(st["h"])):
                    left.append("handler")
                if any(e.split(":")[0] == mid for e in _lst(st["m"])):
                    left.append("thread")
                p0, p1 = [int(x) for x in prev["thr"].split(",")], [int(x) for x in st["thr"].split(",")]
                was_task_alive = any(e.split(":")[0] == mid and e.split(":")[1] == "task" and e.split(":")[2] in ("ready", "running")
                                     for e in _lst(prev["m"]))
                if p1[1] != p0[1] - 1 or p1[2] != p0[2] - (1 if was_task_alive else 0) or p1[0] != p0[0]:
                    left.append(f"threads {prev['thr']}->{st['thr']}")
                if left:
                    flag(f"remove-residue:{kind}", f"remove {NAMES[n]!r} left behind: {left}", i)
                if ob["relc"].get(int(mid), 0) != 1:
                    flag(f"remove-release-count:{kind}", f"removed object released {ob['relc'].get(int(mid), 0)} times", i)
            elif n not in live and out == "ok":
                flag("remove-unknown-accepted", f"remove of a name that is not live returned ok", i)
        elif k == "call":
            if op[1] not in live and out == "ok":
                flag("stale-proxy-call-ok", f"call through a proxy of a dead object returned ok (stopped={stopped})", i)
        elif k == "get":
            if op[1] not in live and out == "ok":
                flag("get-unknown-ok", f"get of a name that is not live returned a proxy", i)
        elif k == "addh":
            has_base = has_base or op[1] == "base"
        elif k == "start":
            if active:
                if out != "exc:QMI_UsageException" or not same:
                    flag("double-start-not-usage-error", f"start() of an active context: {out}", i)
            elif stopped:
                if out != "exc:QMI_UsageException" or not same:
                    flag("restart-not-refused", f"start() of a stopped context: {out}", i)
            else:               # never active so far: a fresh context, or one whose earlier start() failed
                fk = "tcp" if (op[1] and ob["state"] and tr.lines[0] == "new 1") else ("udp" if op[2] else None)
                if fk:
                    failed_start = fk
                    if out == "ok":
                        flag("start-fault-ignored", f"bind failed but start() returned ok", i)
                    if not same:
                        flag(f"failed-start-residue:context:{fk}", f"start() failed ({out}); before: {prev} after: {st}", i)
                elif out == "ok":
                    active, failed_start = True, None
                elif failed_start:
                    flag(f"cannot-start-again:context:retry-after-{failed_start}",
                         f"start() of the same context after a failed start ({failed_start}), fault gone: {out}", i)
                else:
                    flag("start-fails", f"fault-free first start(): {out}", i)
        elif k == "stop":
            if not active:
                if out != "exc:QMI_UsageException" or not same:
                    flag("stop-inactive-not-usage-error", f"stop() of an inactive context: {out}", i)
            elif has_base:
                if out == "ok":
                    active, stopped, live = False, True, {}
            else:
                if out != "ok":
                    flag(f"stop-raises:{out[4:]}", f"stop() raised {out}", i)
                pr = tr.obs[i - 1].get("relc", {}) if i > 0 else {}
                for n, (mid, kind) in live.items():
                    d = ob["relc"].get(int(mid), 0) - pr.get(int(mid), 0)
                    if d != 1:
                        flag(f"stop-release-count:{kind}", f"object {NAMES[n]!r} ({kind}) released {d} times by stop()", i)
                h0, h1 = [int(x) for x in _lst(prev.get("hc"))], [int(x) for x in _lst(st.get("hc"))]
                if len(h0) != len(h1) or any(b - a_ != 1 for a_, b in zip(h0, h1)):
                    flag("stop-handler-calls", f"stop() did not call every stop handler exactly once: {prev.get('hc')} -> {st.get('hc')}", i)
                d0 = ob["relc"].get(0, 0) - pr.get(0, 0)
                if d0 != 1:
                    flag("stop-release-count:$context", f"$context released {d0} times by stop()", i)
                liveids = {int(m) for m, _ in live.values()} | {0}
                for mid, cnt in ob["relc"].items():
                    if mid not in liveids and cnt != pr.get(mid, 0):
                        flag("stop-rereleases", f"manager {mid} was not live but released by stop()", i)
                left = []
                if st["thr"] != "0,0,0":
                    left.append("threads " + st["thr"])
                if st["conn"] != "-":
                    left.append("connections " + st["conn"])
                if st["h"] != "-":
                    left.append("handlers " + st["h"])
                if st["map"] != "-":
                    left.append("names " + st["map"])
                if st["a"] != "0":
                    left.append("active flag")
                if left:
                    flag("stop-leaves:" + left[0].split(" ")[0], f"after stop(): {left}", i)
                active, stopped, live = False, True, {}
        prev = st
    return bad


def oracle_singleton(tr: Trace):
    bad = []
    single = False
    pending = None
    misuse = False
    for i, ob in enumerate(tr.obs):
        op, out = ob["op"], ob["out"]
        k = op[0]
        if ob.get("hang"):
            bad.append((f"hang:{k}", f"{op} never completed: {tr.deadlock}", i))
            break
        st = ob["state"]
        is_set = st.startswith("single=set")
        d = parse_state(st)
        if "stray" in d:
            bad.append((f"stray-thread:{k}", f"threads not accounted for after {op}: {d['stray']}", i))
        if k == "qstart":
            _, valid, cfg_tcp, tcpF, udpF, peers = op[:6]
            logF = op[6] if len(op) > 6 else 0
            if single:
                if out != "exc:QMI_UsageException":
                    bad.append(("qstart-twice-not-usage-error", f"qmi.start() with a context present: {out}", i))
            else:
                fk = None
                if not valid:
                    fk = "name"
                elif logF:
                    fk = "logging"
                elif cfg_tcp and tcpF:
                    fk = "tcp"
                elif udpF:
                    fk = "udp"
                elif not all(peers):
                    fk = "peer"
                if fk is None:
                    if out != "ok":
                        bad.append(("qstart-fails", f"fault-free qmi.start(): {out}", i))
                    else:
                        single, pending = True, None
                else:
                    if out == "ok":
                        bad.append(("start-fault-ignored", f"qmi.start() returned ok although {fk} failed", i))
                    if is_set or "leaked" in d:
                        bad.append((f"failed-start-residue:singleton:{fk}",
                                    f"qmi.start() failed ({out}) and left behind: {st}", i))
                        pending = fk
                        single = is_set
        elif k == "qstop":
            if not single:
                if not is_set and out != "exc:QMI_NoActiveContextException":
                    bad.append(("qstop-twice-not-refused", f"qmi.stop() without a context: {out}", i))
            elif out == "ok":
                single, pending = False, None
                if is_set or "leaked" in d:
                    bad.append(("qstop-leaves", f"after qmi.stop(): {st}", i))
            elif not misuse and pending is None:
                bad.append((f"qstop-raises:{out[4:]}", f"qmi.stop() raised {out}", i))
        elif k == "qcontext":
            if not is_set and out == "ok":
                bad.append(("qcontext-without-context", "qmi.context() returned although no context exists", i))
        elif k == "q":
            if op[1][0] in ("stop", "start"):
                misuse = misuse or (op[1][0] == "stop" and is_set)
        elif k == "qprobe":
            if out != "ok" and not misuse:
                if pending:
                    bad.append((f"cannot-start-again:singleton:{pending}",
                                f"after qmi.start() failed at {pending}: qmi.stop() and qmi.start() both refuse; probe: {out}; {st}", i))
                elif not single:
                    bad.append(("cannot-start-again:singleton:after-stop", f"qmi.start() after qmi.stop(): {out}", i))
            if out == "ok":
                single, pending = False, None
    return bad


def oracle_conc(tr: Trace):
    bad = []
    ob = tr.obs[-1] if tr.obs else None
    if tr.deadlock is not None:
        return [("conc:hang", f"stop ‖ make never completed: {tr.deadlock}", len(tr.obs) - 1)]
    if ob is None or ob["op"][0] != "conc":
        return bad
    i = len(tr.obs) - 1
    if ob["st"] != "ok":
        # everything else on this trace (threads, handler, unreleased object) is a consequence of the aborted stop()
        return [(f"conc:stop-raises:{ob['st'][4:]}", f"stop() racing make raised: {ob['line']}", i)]
    st = parse_state(ob["line"])
    if ob["thr"] != (0, 0, 0):
        bad.append(("conc:threads-left", f"threads left after stop ‖ make: {ob['thr']}  {ob['line']}", i))
    if st["h"] != "-":
        bad.append(("conc:handlers-left", f"{ob['line']}", i))
    if st["map"] != "-":
        bad.append(("conc:names-left", f"{ob['line']}", i))
    if "stray" in st:
        bad.append(("conc:stray-thread", f"{ob['line']}", i))
    for mid in ob["before"]:
        d = ob["relc"].get(mid, 0) - ob["relc0"].get(mid, 0)
        if d != 1:
            bad.append(("conc:release-count", f"manager {mid} present at stop released {d} times: {ob['line']}", i))
    for mid in ob["constructed"]:
        if ob["relc"].get(mid, 0) != 1:
            bad.append(("conc:release-count:new", f"object made during stop released {ob['relc'].get(mid, 0)} times: {ob['line']}", i))
    return bad


# ---------------------------------------------------------------------------
# the check
# ---------------------------------------------------------------------------

def run_case(case: dict) -> Trace:
    k = case["kind"]
    if k == "hist":
        return run_history(case["seed"], case["cfg_tcp"], case["ops"], policy=case.get("policy", "weighted"))
    if k == "single":
        return run_singleton(case["seed"], case["ops"], policy=case.get("policy", "weighted"))
    if k == "conc":
        return run_conc(case["seed"], case["cfg_tcp"], case["pop"], case["mk"], gate=case.get("gate"),
                        until=case.get("until", "stopped"), policy=case.get("policy", "weighted"),
                        change_points=case.get("change_points"))
    if k == "mm":
        return run_mm(case["seed"], case["cfg_tcp"], case["pop"], case["mk1"], case["mk2"], policy=case.get("policy", "weighted"),
                      change_points=case.get("change_points"))
    if k == "rx":
        return run_rx(case["seed"], case["spec"], policy=case.get("policy", "weighted"), change_points=case.get("change_points"))
    if k == "queued":
        return run_queued(case["seed"], case["spec"], policy=case.get("policy", "weighted"), change_points=case.get("change_points"))
    if k == "acts":
        return run_acts(case["seed"], case["spec"], policy=case.get("policy", "weighted"), change_points=case.get("change_points"))
    if k == "busy":
        return run_busy(case["seed"], case["spec"], policy=case.get("policy", "weighted"), change_points=case.get("change_points"))
    if k == "calls":
        return run_calls(case["seed"], case["spec"], policy=case.get("policy", "pct"), change_points=case.get("change_points"))
    raise ValueError(case)


def oracle(case: dict, tr: Trace):
    if case["kind"] == "calls":
        return oracle_calls(case["spec"], tr)
    if case["kind"] == "mm":
        return oracle_mm(tr)
    if case["kind"] == "busy":
        return oracle_busy(case["spec"], tr)
    if case["kind"] == "acts":
        return oracle_acts(case["spec"], tr)
    if case["kind"] == "queued":
        return oracle_queued(case["spec"], tr)
    if case["kind"] == "rx":
        return oracle_rx(case["spec"], tr)
    return {"hist": oracle_history, "single": oracle_singleton, "conc": oracle_conc}[case["kind"]](tr)


def shrink(case: dict, sig: str, budget: int = 60) -> dict:
    """greedy deletion of operations while the same clause still fails"""
    key = {"hist": "ops", "single": "ops", "conc": "pop", "mm": "pop"}[case["kind"]]
    cur = dict(case)
    ops = list(cur[key])
    i = 0
    while i < len(ops) and budget > 0:
        cand = dict(cur)
        cand[key] = ops[:i] + ops[i + 1:]
        budget -= 1
        try:
            tr = run_case(cand)
            hit = tr.error is None and any(s == sig for s, _, _ in oracle(cand, tr))
        except Exception:  # noqa
            hit = False
        if hit:
            ops = cand[key]
            cur = cand
        else:
            i += 1
    return cur


DIRECTED_HIST = [
    # DESIGN §7(f) at the context level, each start step failing, with and without a TCP server
    (True, [["start", 1, 0], ["probe"]]),
    (True, [["start", 0, 1], ["probe"]]),
    (False, [["start", 0, 1], ["probe"]]),
    (True, [["start", 1, 0], ["start", 0, 0], ["stop"], ["probe"]]),
    # every kind of object / state present at stop, release steps raising, stop handlers raising
    (True, [["start", 0, 0], ["addh", "exc"], ["addh", "ok"],
            ["make", "rpc", 1, "a", 0, 1, "loop", 0], ["make", "instr", 2, "b-1", 0, 1, "loop", 1], ["iopen", 2],
            ["make", "task", 3, "c_(2)", 0, 1, "loop", 0], ["tstart", 3], ["make", "task", 4, "y" * 63, 0, 0, "raise", 0],
            ["tstart", 4], ["stop"], ["call", 1], ["call", 3], ["get", 2, "instr"], ["start", 0, 0], ["stop"], ["probe"]]),
    (False, [["start", 0, 0], ["make", "task", 1, "a", 1, 0, "loop", 0], ["make", "task", 1, "a", 0, 0, "finish", 0],
             ["tstart", 1], ["tjoin", 1], ["remove", 1], ["make", "instr", 1, "a", 0, 0, "loop", 0], ["make", "rpc", 1, "a", 0, 0, "loop", 0],
             ["remove", 1], ["call", 1], ["make", "rpc", 1, "a", 1, 0, "loop", 0], ["make", "rpc", 1, "a", 0, 0, "loop", 0], ["stop"], ["probe"]]),
    (True, [["make", "rpc", 1, "a", 0, 0, "loop", 0], ["get", 1, "rpc"], ["stop"], ["start", 0, 0], ["addh", "base"], ["stop"], ["stop"], ["probe"]]),
    # every start step failing with every exception kind (OSError, OverflowError, ValueError, RuntimeError, a QMI exception,
    # KeyboardInterrupt, SystemExit): nothing may be left, the same context can be started afterwards
    (True, [op for code in START_EXC for op in (["start", code, 0], ["start", 0, code])] + [["start", 0, 0], ["stop"], ["probe"]]),
    (False, [["start", 0, code] for code in START_EXC] + [["probe"]]),
    # constructors of every object kind failing with every exception kind (Exception and non-Exception BaseException): the make
    # raises, nothing is left, the name is free at once; release steps and stop handlers raising every kind
    (False, [["start", 0, 0]] +
            [op for code in EXC_CODES + BASE_CODES for kind in ("rpc", "instr", "task")
             for op in (["make", kind, 1, "a", code, 0, "loop", 0], ["make", kind, 1, "a", 0, 1, "loop", code], ["remove", 1])] +
            [["addh", "exc", "def", code] for code in EXC_CODES] +
            [["make", "task", 2, "b-1", 0, 1, "loop", 3], ["tstart", 2], ["make", "rpc", 3, "c_(2)", 0, 1, "loop", 4], ["stop"], ["probe"]]),
    (True, [["start", 0, 0], ["make", "rpc", 1, "a", 0, 0, "loop", 0]] + [op for code in BASE_CODES for op in (["addh", "base", "partial", code],)][:1] +
           [["stop"], ["call", 1], ["stop"], ["probe"]]),
    # stop handlers of every callable kind, raising and returning, in two orders; every one must be called once and stop() must finish
    (True, [["start", 0, 0]] + [["addh", k, sh] for sh in CALLABLE_SHAPES for k in ("exc", "ok")] +
           [["make", "task", 1, "a", 0, 1, "loop", 0], ["tstart", 1], ["make", "instr", 2, "b-1", 0, 0, "loop", 0], ["iopen", 2],
            ["stop"], ["stop"], ["call", 1], ["probe"]]),
    (False, [["addh", "exc", "partial"], ["addh", "ok", "object"], ["start", 0, 0]] +
            [["addh", k, sh] for sh in reversed(CALLABLE_SHAPES) for k in ("ok", "exc")] +
            [["make", "rpc", 1, "a", 0, 0, "loop", 0], ["stop"], ["probe"]]),
    # related names (case, prefix, suffix, brackets) are different objects; the same operation twice; unusual order
    (True, [["start", 0, 0], ["make", "rpc", 1, "a", 0, 0, "loop", 0], ["make", "instr", 5, "A", 0, 0, "loop", 0],
            ["make", "task", 6, "aa", 0, 0, "loop", 0], ["make", "rpc", 7, "a_", 0, 1, "loop", 0], ["make", "rpc", 8, "(a)", 0, 0, "loop", 0],
            ["make", "rpc", 1, "a", 0, 0, "loop", 0], ["make", "rpc", 5, "A", 1, 0, "loop", 0], ["remove", 1], ["remove", 1], ["call", 1],
            ["call", 5], ["call", 6], ["get", 1, "rpc"], ["get", 7, "rpc"], ["iopen", 5], ["iopen", 5], ["iclose", 5], ["iclose", 5], ["iopen", 5],
            ["tstart", 6], ["make", "rpc", 1, "a", 0, 0, "loop", 0], ["remove", 6], ["remove", 7], ["call", 7], ["call", 8],
            ["make", "task", 9, "a ", 0, 0, "loop", 0], ["make", "rpc", 9, "$context", 0, 0, "loop", 0], ["make", "rpc", 9, "y" * 63 + "-", 0, 0, "loop", 0],
            ["removeForeign"], ["stop"], ["stop"], ["remove", 1], ["call", 5], ["get", 5, "instr"], ["probe"]]),
    # operations before start and a failed start followed by a successful retry, a second failure, then normal life
    (True, [["make", "rpc", 1, "a", 0, 0, "loop", 0], ["remove", 1], ["call", 1], ["tstart", 1], ["addh", "exc"], ["stop"],
            ["start", 1, 0], ["start", 0, 1], ["start", 1, 1], ["make", "rpc", 1, "a", 0, 0, "loop", 0], ["start", 0, 0], ["start", 0, 0],
            ["make", "instr", 1, "a", 0, 1, "loop", 0], ["iopen", 1], ["stop"], ["start", 0, 0], ["probe"]]),
    # tasks joined before / after they ran, joined twice, started after the join (found by the thorough tier: model repaired)
    (False, [["start", 0, 0], ["make", "task", 1, "a", 0, 0, "raise", 0], ["tjoin", 1], ["tjoin", 1], ["tstart", 1],
             ["make", "task", 2, "b-1", 0, 1, "raise", 0], ["tstart", 2], ["tjoin", 2], ["tjoin", 2], ["tstart", 2],
             ["make", "task", 3, "c_(2)", 0, 0, "finish", 0], ["tstart", 3], ["tstart", 3], ["tjoin", 3], ["iopen", 3], ["stop"], ["probe"]]),
]

DIRECTED_SINGLE_LOG = [
    [["qstart", True, cfg_tcp, 0, 0, [], logF], ["qcontext"], ["qstop"], ["qprobe", cfg_tcp]]
    for logF, cfg_tcp in (("logdir", True), ("loglevel", False), ("console", True), ("loglevels", False))
] + [[["qstart", False, False, 0, 0, [], "loglevel"], ["qstart", True, False, 0, 0, [], "logdir"], ["qstart", True, False, 0, 0, []], ["qstop"], ["qprobe", False]]]

DIRECTED_SINGLE_START = [
    [op for code in START_EXC for op in (["qstart", True, True, code, 0, []], ["qstart", True, True, 0, code, [True]], ["qcontext"])] +
    [["qstop"], ["qprobe", True]],
]

DIRECTED_SINGLE = [
    [["qstart", True, True, 0, 0, []]] + [["q", ["addh", "exc", sh]] for sh in CALLABLE_SHAPES] +
    [["q", ["make", "rpc", 1, "a", 0, 0, "loop", 0]], ["qstop"], ["qcontext"], ["qprobe", True]],
    [["qstart", True, True, 1, 0, []], ["qcontext"], ["qstop"], ["qstart", True, True, 0, 0, []], ["qprobe", True]],   # DESIGN §7(f)
    [["qstart", True, True, 0, 1, []], ["qstop"], ["qprobe", True]],
    [["qstart", True, False, 0, 0, [False]], ["qcontext"], ["qstop"], ["qprobe", False]],
    [["qstart", True, True, 0, 0, [True, False]], ["qstop"], ["qprobe", True]],
    [["qstop"], ["qcontext"], ["qstart", False, False, 0, 0, []], ["qstart", True, False, 0, 0, [True]],
     ["q", ["make", "task", 1, "a", 0, 1, "loop", 0]], ["q", ["tstart", 1]] if False else ["qcontext"], ["qstart", True, False, 0, 0, []],
     ["qstop"], ["qstop"], ["qprobe", False]],
]

MALFORMED = ["", "make", "make rpc x 1 0 0 loop", "make blob 1 1 0 0 loop", "start 2 0", "qstart 1 1 0 0 2", "conc rpc", "stop now",
             "addh maybe", "remove", "q", "q foo", "new", "new 7", "\t"]


class C12(Prop):
    id = "C12"
    lean_modules = ["QmiModel.Props.C12"]
    driver = "drv_c12"
    modelled_not_verified = [
        "real thread teardown by the OS (observed through the scheduler's done flags and threading.enumerate(), not proved)",
        "the sockets: TCP/UDP bind, listen, connect are the in-memory simnet; the UDP port cannot be busy on the real OS with SO_REUSEADDR (fault injected by a patched bind)",
        "is_valid_object_name is an input flag of the model (checked differentially against an independent statement of the rule, incl. related names: case, prefix, suffix, 63/64 characters)",
        "SignalManager.handle_object_removed (C08) and the `$pubsub` handler, which stays registered after stop(), are not modelled",
        "the router / socket path of a *remote* call racing remove()/stop() is explored + oracle only (C01, C06 model it); the manager/worker part is modelled and trace-refined",
        "stop ‖ make and make ‖ make outcomes are compared as sets (membership in the model's outcome set), not by trace refinement",
    ]

    # -- helpers ----------------------------------------------------------------
    def _add(self, res: Result, batch: list, case: dict, tr: Trace) -> None:
        if tr.error is not None:
            raise tr.error
        batch.append((case, tr))
        res.traces_validated += 1
        kind = case["kind"]
        res.count("scenarios_" + kind)
        res.count("ops_total", len(tr.obs))
        for ob in tr.obs:
            op = ob["op"]
            k = op[0] if op[0] != "q" else "q-" + op[1][0]
            res.count("op_" + k)
            o = ob.get("out")
            if o is not None:
                res.count("out_" + (o if o in ("ok", "hang") else o[4:]))
            if k == "make" or k == "q-make":
                mk = op if k == "make" else op[1]
                res.count("make_" + mk[1])
                if mk[4]:
                    res.count("fault_ctor_" + mk[1])
                if mk[5]:
                    res.count("objects_with_raising_release")
                if not ref_valid(mk[3]):
                    res.count("make_invalid_name")
            if k == "start" and (op[1] or op[2]):
                res.count("fault_start_tcp" if op[1] else "fault_start_udp")
            if k == "qstart":
                if op[3]:
                    res.count("fault_qstart_tcp")
                elif op[4]:
                    res.count("fault_qstart_udp")
                elif not all(op[5]):
                    res.count("fault_qstart_peer_unreachable")
                if len(op) > 6 and op[6]:
                    res.count("fault_qstart_logging_" + str(op[6]))
            if k in ("addh", "q-addh"):
                hop = op if k == "addh" else op[1]
                res.count("stop_handler_%s_%s" % (hop[2] if len(hop) > 2 else "def", hop[1]))
            if k == "addh" and op[1] != "ok":
                res.count("fault_stop_handler_" + op[1])
            if k == "stop" and o == "ok" and "state" in ob and i_prev_state(tr, ob) is not None:
                pop = i_prev_state(tr, ob)
                for e in _lst(pop.get("m")):
                    res.count("at_stop_" + ":".join(e.split(":")[1:]))
                res.count("stops_with_%d_objects" % min(len(_lst(pop.get("m"))) - 1, 4))
            if k == "conc2":
                res.count("make_make_outcome %s / %s%s" % (ob.get("mk1"), ob.get("mk2"), " (same name)" if op[1][2] == op[2][2] else ""))
            if k == "conc":
                res.count("conc_outcome mk=%s st=%s" % (ob.get("mk"), ob.get("st")))
                res.count("conc_gate_%s_%s" % (case.get("gate"), case.get("until")))
        nontrivial = any(ob["op"][0] in ("stop", "qstop", "conc", "conc2", "remove") or (ob["op"][0] in ("start", "qstart") and ob["out"] != "ok")
                         for ob in tr.obs if "out" in ob or ob["op"][0] == "conc")
        res.note_case((kind, repr({k: v for k, v in case.items() if k != "seed"})), nontrivial=nontrivial)
        # the property oracle, directly on the implementation trace
        seen = self._seen
        for sig, det, _i in oracle(case, tr):
            if seen.get(sig, 0) >= 1:
                seen[sig] += 1
                continue
            seen[sig] = 1
            small = shrink(case, sig) if self._shrink else case
            res.failures.append(Failure(signature=sig, summary=f"{sig}: {det[:400]} | case={_short(small)}",
                                        replay={**small, "expect": sig}))

    def _calls(self, res: Result, ctx: Ctx, seeds, stride: int, randoms: int, seed0: int) -> int:
        """layer D: calls through proxies racing remove()/stop() (oracle only; no model lines)"""
        n = 0
        mbatch = []
        for fi, fam in enumerate(CALL_FAMILIES):
            spec = dict(fam, pop=CALL_POP)
            runs = []
            for sd in seeds:
                _tr, pts = call_sweep_points(seed0 + 10 * fi + sd, spec, stride)
                runs += [{"kind": "calls", "seed": seed0 + 10 * fi + sd, "spec": spec, "policy": "pct", "change_points": [cp]} for cp in pts]
            runs += [{"kind": "calls", "seed": seed0 + 1000 + 50 * fi + j, "spec": spec, "policy": "weighted"} for j in range(randoms)]
            for case in runs:
                tr = run_case(case)
                if tr.error is not None:
                    raise tr.error
                n += 1
                mbatch.append((case, tr))
                res.traces_validated += 1
                res.count("scenarios_calls")
                res.count("manager_worker_events", sum(1 for l in tr.lines if l.startswith("m ")))
                res.count(f"calls_family_{fam['action']}_" + "+".join(c["where"] for c in fam["callers"]))
                if tr.calls is not None:
                    for _wh, outs in tr.calls["calls"]:
                        for o, _dt in outs:
                            res.count("call_racing_outcome_" + o)
                res.note_case(("calls", fi, case["seed"], tuple(case.get("change_points") or ())), nontrivial=True)
                for sig, det, _i in oracle(case, tr):
                    if self._seen.get(sig, 0) >= 1:
                        self._seen[sig] += 1
                        continue
                    self._seen[sig] = 1
                    res.failures.append(Failure(signature=sig, summary=f"{sig}: {det[:400]} | case={_short(case)}",
                                                replay={**case, "expect": sig}))
        # trace refinement of the manager/worker events against Mgr.mstep (Model/ContextCalls.lean)
        lines = [l for _c, tr in mbatch for l in tr.lines]
        model = LeanDriver(self.driver).run(lines) if lines else []
        k = 0
        for case, tr in mbatch:
            for j, (l, a) in enumerate(zip(tr.lines, tr.impl)):
                if a != model[k + j]:
                    if sum(1 for x in res.broken if x.name.startswith("Mgr.mstep")) < 4:
                        res.broken.append(Broken("correspondence", "Mgr.mstep vs RpcObjectManager/_RpcThread",
                                                 f"event {j} `{l}`: impl {a!r} model {model[k + j]!r}; trace: {tr.lines[max(0, j - 10):j + 1]}",
                                                 case=case))
                    break
            k += len(tr.lines)
        return n

    def _busy(self, res: Result, ctx: Ctx, seeds: int, seed0: int, stride: int = 3) -> int:
        """objects busy when stop()/remove() arrives (two contexts; oracle only)"""
        n = 0
        cases = []
        for i, spec in enumerate(BUSY_SPECS):
            for sd in range(seeds):
                cases.append((i, {"kind": "busy", "seed": seed0 + 100 * i + sd, "spec": spec, "policy": "pct" if sd % 3 == 2 else "weighted"}))
            if not spec.get("settled", True):
                # the action at every (stride-th) yield index between "first caller about to call" and "everything has settled"
                base = {"kind": "busy", "seed": seed0 + 100 * i + 77, "spec": spec, "policy": "pct", "change_points": []}
                tr0 = run_case(base)
                if tr0.error is not None:
                    raise tr0.error
                if tr0.calls is not None:
                    for cp in range(tr0.calls["steps_wait"], tr0.calls["steps_action"] + 2, stride):
                        cases.append((i, dict(base, change_points=[cp])))
        for i, case in cases:
            spec = case["spec"]
            if True:
                tr = run_case(case)
                if tr.error is not None:
                    raise tr.error
                n += 1
                res.traces_validated += 1
                res.count("scenarios_busy")
                res.count("busy_%s_%s" % (spec["action"], "+".join(spec["tasks"]) + ("+%dcallers" % spec["callers"] if spec["callers"] else "")))
                if tr.calls is not None:
                    for b, o in tr.calls["out"]:
                        res.count(f"busy_outcome_{b}_{o}")
                res.note_case(("busy", i, case["seed"]), nontrivial=True)
                for sig, det, _i in oracle(case, tr):
                    if self._seen.get(sig, 0) >= 1:
                        self._seen[sig] += 1
                        continue
                    self._seen[sig] = 1
                    res.failures.append(Failure(signature=sig, summary=f"{sig}: {det[:400]} | case={_short(case)}",
                                                replay={**case, "expect": sig}))
        return n

    def _oracle_only(self, res: Result, cases, label: str) -> int:
        n = 0
        for case in cases:
            tr = run_case(case)
            if tr.error is not None:
                raise tr.error
            n += 1
            res.traces_validated += 1
            res.count("scenarios_" + label)
            if tr.calls is not None:
                for _w, a, o in tr.calls.get("acts", []):
                    res.count(f"context_op_from_user_code_{a[0]}_{o}")
            res.note_case((label, repr(case)), nontrivial=True)
            for sig, det, _i in oracle(case, tr):
                if self._seen.get(sig, 0) >= 1:
                    self._seen[sig] += 1
                    continue
                self._seen[sig] = 1
                res.failures.append(Failure(signature=sig, summary=f"{sig}: {det[:500]} | case={_short(case)}",
                                            replay={**case, "expect": sig}))
        return n

    def _queued(self, res: Result, seeds: int, seed0: int) -> int:
        """a busy object with queued requests of every kind at remove()/stop(): oracle + event-trace refinement"""
        cases = [{"kind": "queued", "seed": seed0 + 100 * i + sd, "spec": spec, "policy": "pct" if sd % 3 == 2 else "weighted"}
                 for i, spec in enumerate(QUEUE_SPECS) for sd in range(seeds)]
        traces = []
        n = 0
        for case in cases:
            tr = run_case(case)
            if tr.error is not None:
                raise tr.error
            n += 1
            traces.append((case, tr))
            res.traces_validated += 1
            res.count("scenarios_queued")
            for kind in case["spec"]["local"]:
                res.count("queued_request_local_" + kind)
            for kind in case["spec"]["peer"]:
                res.count("queued_request_peer_" + kind)
            res.note_case(("queued", repr(case)), nontrivial=True)
            for sig, det, _i in oracle(case, tr):
                if self._seen.get(sig, 0) >= 1:
                    self._seen[sig] += 1
                    continue
                self._seen[sig] = 1
                res.failures.append(Failure(signature=sig, summary=f"{sig}: {det[:500]} | case={_short(case)}", replay={**case, "expect": sig}))
        lines = [l for _c, tr in traces for l in tr.lines]
        model = LeanDriver(self.driver).run(lines) if lines else []
        k = 0
        for case, tr in traces:
            for j, (l, a) in enumerate(zip(tr.lines, tr.impl)):
                if a != model[k + j]:
                    if sum(1 for x in res.broken if x.name.startswith("Mgr.mstep")) < 4:
                        res.broken.append(Broken("correspondence", "Mgr.mstep vs RpcObjectManager/_RpcThread (queued requests)",
                                                 f"event {j} `{l}`: impl {a!r} model {model[k + j]!r}; trace: {tr.lines[max(0, j - 10):j + 1]}", case=case))
                    break
            k += len(tr.lines)
        return n

    def _acts(self, res: Result, seeds: int, seed0: int) -> int:
        """release steps / task bodies / stop handlers acting on the context (oracle only)"""
        return self._oracle_only(res, [{"kind": "acts", "seed": seed0 + 100 * i + sd, "spec": spec, "policy": "pct" if sd % 3 == 2 else "weighted"}
                                       for i, spec in enumerate(ACT_SPECS) for sd in range(seeds)], "acts")

    def _rx(self, res: Result, seeds: int, seed0: int) -> int:
        """remove_rpc_object racing make / remove / get / call of the same name (oracle only)"""
        return self._oracle_only(res, [{"kind": "rx", "seed": seed0 + 100 * i + sd, "spec": spec, "policy": "pct" if sd % 3 == 2 else "weighted"}
                                       for i, spec in enumerate(RX_SPECS) for sd in range(seeds if spec["gate"] is None else min(seeds, 2))], "rx")

    def _real(self, res: Result, rounds: int) -> int:
        """real loopback sockets: fixed port, established peer connections at stop, immediate restart; SO_REUSEADDR before bind"""
        n = 0
        order = reuse_before_bind()
        for fn, ok in order.items():
            res.count(f"reuse_option_before_bind_{fn}_{ok}")
            if not ok and not self._seen.get("real:reuseaddr-set-after-bind:" + fn):
                self._seen["real:reuseaddr-set-after-bind:" + fn] = 1
                res.failures.append(Failure(f"real:reuseaddr-set-after-bind:{fn}",
                                            f"MessageRouter.{fn}: the address-reuse socket option is set after bind() (no effect on that bind: a port in "
                                            f"TIME_WAIT is refused)", {"kind": "real-ast", "fn": fn}))
        ok = managed_after_handshake()
        res.count(f"incoming_connection_managed_after_handshake_{ok}")
        if not ok and not self._seen.get("real:connection-managed-before-handshake"):
            self._seen["real:connection-managed-before-handshake"] = 1
            res.failures.append(Failure("real:connection-managed-before-handshake",
                                        "_SocketManager.add_incoming_connection registers the connection before the handshake was sent: a failed "
                                        "attempt can leave a closed connection in the managed list", {"kind": "real-ast2"}))
        for port in (65536, 70000, -1):
            r = run_real_badport(port)
            n += 1
            res.traces_validated += 1
            res.count(f"real_unbindable_port_{port}_{r.get('start')}")
            res.note_case(("real-badport", port), nontrivial=True)
            for sig, det, _i in oracle_real_badport(r):
                if not self._seen.get(sig):
                    self._seen[sig] = 1
                    res.failures.append(Failure(sig, f"{sig}: {det}", {"kind": "real-badport", "port": port, "expect": sig}))
        for _ in range(rounds):
            for spec in REAL_SPECS:
                r = run_real(spec)
                n += 1
                res.traces_validated += 1
                res.count("scenarios_real_sockets")
                res.count(f"real_{spec['first']}_first_in{spec['incoming']}_out{spec['outgoing']}")
                res.note_case(("real", repr(spec), n), nontrivial=True)
                for sig, det, _i in oracle_real(r):
                    if self._seen.get(sig, 0) >= 1:
                        self._seen[sig] += 1
                        continue
                    self._seen[sig] = 1
                    res.failures.append(Failure(sig, f"{sig}: {det}", {"kind": "real", "spec": spec, "expect": sig}))
        return n

    def _diff(self, res: Result, batch: list) -> None:
        drv = LeanDriver(self.driver)
        lines, spans = [], []
        batch = [(c, t) for c, t in batch if not getattr(t, "no_model", False)]
        for case, tr in batch:
            spans.append((len(lines), case, tr))
            lines += tr.lines
        lines += MALFORMED
        model = drv.run(lines)
        for start, case, tr in spans:
            if len(tr.impl) != len(tr.lines):
                res.broken.append(Broken("correspondence", "Context.step vs QMI_Context",
                                         f"scenario aborted after {len(tr.impl)} of {len(tr.lines)} ops: {tr.deadlock}", case=case))
                continue
            for j, (l, a) in enumerate(zip(tr.lines, tr.impl)):
                b = model[start + j]
                ok = (a in b.split(" ; ")) if j in tr.conc else (a == b)
                if not ok:
                    if sum(1 for x in res.broken if x.stage == "correspondence") < 6:
                        res.broken.append(Broken(
                            "correspondence", "Context.step vs QMI_Context" if case["kind"] != "conc" or j not in tr.conc else "Context.crun vs stop‖make",
                            f"op {j} `{l}`:\n impl : {a}\n model: {b}", case=case))
                    break
        for l, b in zip(MALFORMED, model[len(lines) - len(MALFORMED):]):
            if b != "bad-op":
                res.broken.append(Broken("correspondence", "driver input validation", f"malformed line {l!r} answered {b!r}"))
        res.count("malformed_driver_lines", len(MALFORMED))

    # -- the stages ------------------------------------------------------------------
    def correspondence(self, ctx: Ctx) -> Result:
        res = Result(rule="layer A: random histories [ops before start] start(faults) [make/remove/get/call/open/close/task start/join/"
                          "stop handlers with valid, invalid, duplicate names and constructor / release / run faults] stop [ops after stop] probe; "
                          "layer B: the same through qmi.start/stop/context with TCP / UDP / unreachable-peer faults; layer C: stop ‖ make with the "
                          "maker parked at each of 5 cut points until stop() has collected / returned, plus random schedules; layer D (oracle "
                          "only): 1-3 caller threads (local and from a peer context) calling with rpc_timeout=None while main runs remove()/stop(), "
                          "line-level yield points in RpcObjectManager.handle_message, the action placed at every yield index of that window "
                          "(PCT change-point sweep); busy objects (oracle only): tasks, a plain object's method and plain threads blocked in a call to "
                          "a peer that does not answer / in a local call waiting for the peer / in sleep() / in get_next_signal() when stop(), "
                          "disconnect or remove() arrives (two contexts). Constructors, release steps and stop handlers raise every exception "
                          "kind (Exception subclasses; SystemExit, KeyboardInterrupt, GeneratorExit, CancelledError, an application "
                          "BaseException); stop handlers are every kind of callable; release steps, task bodies and stop handlers that act on the context "
                          "(remove / make / look up / call other objects, stop() re-entrantly; creation order != ownership order) — oracle only; "
                          "REAL loopback sockets: fixed tcp_server_port, 0-2 incoming / outgoing peer connections established at stop, server or "
                          "clients first, immediate restart on the same port, SO_REUSEADDR read back and checked to be set before bind; a busy object with "
                          "queued requests of every kind it accepts (method call, lock, unlock, force_unlock, is_locked, with/without tokens; local "
                          "and from a peer) at remove()/stop(), trace-refined against the manager/worker model; qmi.start() with a logging "
                          "configuration that cannot be applied (start step _init_logging). After every op the "
                          "abstract state read from the real objects is compared with the model. Non-trivial = contains a stop, remove, failed "
                          "start or race; distinct by (kind, ops, faults, gate).")
        self._seen = {}
        self._shrink = True
        rng = ctx.rng
        batch = []
        seed0 = ctx.seed * 1000003
        n = 0
        for cfg_tcp, ops in DIRECTED_HIST:
            case = {"kind": "hist", "seed": seed0 + n, "cfg_tcp": cfg_tcp, "ops": ops}
            self._add(res, batch, case, run_case(case)); n += 1
        for ops in DIRECTED_SINGLE + DIRECTED_SINGLE_LOG + DIRECTED_SINGLE_START:
            case = {"kind": "single", "seed": seed0 + n, "ops": ops}
            self._add(res, batch, case, run_case(case)); n += 1
        for _ in range(ctx.scale(1250, 12000)):
            cfg_tcp, ops = gen_history(rng, ctx.scale(10, 16))
            case = {"kind": "hist", "seed": seed0 + n, "cfg_tcp": cfg_tcp, "ops": ops,
                    "policy": "pct" if rng.random() < 0.2 else "weighted"}
            self._add(res, batch, case, run_case(case)); n += 1
        ctx.log(f"layer A done: {n} scenarios")
        for _ in range(ctx.scale(500, 4000)):
            case = {"kind": "single", "seed": seed0 + n, "ops": gen_singleton(rng, ctx.scale(5, 8))}
            self._add(res, batch, case, run_case(case)); n += 1
        ctx.log(f"layer B done: {n} scenarios")
        for _ in range(ctx.scale(55, 450)):
            cfg_tcp, pop, mk = gen_population(rng)
            combos = [(g, u) for g in GATES for u in UNTIL if g is not None] + [(None, "stopped")] * ctx.scale(3, 8)
            for g, u in combos:
                case = {"kind": "conc", "seed": seed0 + n, "cfg_tcp": cfg_tcp, "pop": pop, "mk": mk, "gate": g, "until": u,
                        "policy": "pct" if (g is None and rng.random() < 0.5) else "weighted"}
                self._add(res, batch, case, run_case(case)); n += 1
        for _ in range(ctx.scale(24, 300)):
            cfg_tcp, pop, mk1 = gen_population(rng)
            mk2 = gen_make(rng, 0.2, names=(mk1[2], mk1[2], 3), invalid=0.0)
            for j in range(ctx.scale(5, 10)):
                case = {"kind": "mm", "seed": seed0 + n, "cfg_tcp": cfg_tcp, "pop": pop, "mk1": mk1, "mk2": mk2,
                        "policy": "pct" if j % 2 else "weighted"}
                self._add(res, batch, case, run_case(case)); n += 1
        ctx.log(f"layer C done: {n} scenarios")
        n += self._calls(res, ctx, seeds=range(ctx.scale(1, 3)), stride=ctx.scale(10, 2), randoms=ctx.scale(4, 40), seed0=seed0 + 500000)
        ctx.log(f"layer D done: {n} scenarios")
        n += self._busy(res, ctx, seeds=ctx.scale(6, 60), seed0=seed0 + 700000, stride=ctx.scale(2, 1))
        n += self._acts(res, seeds=ctx.scale(6, 40), seed0=seed0 + 800000)
        n += self._queued(res, seeds=ctx.scale(6, 40), seed0=seed0 + 850000)
        n += self._rx(res, seeds=ctx.scale(6, 40), seed0=seed0 + 870000)
        n += self._real(res, rounds=ctx.scale(1, 5))
        ctx.log(f"busy objects, acting release steps, real sockets done: {n} scenarios")
        self._diff(res, batch)
        ctx.log("model diff done")
        for case, tr in batch[:2] + [b for b in batch if b[0]["kind"] == "single"][:1] + [b for b in batch if b[0]["kind"] == "conc"][-1:]:
            res.sample({"case": _short(case), "lines": tr.lines[:12], "impl": tr.impl[:12]})
        return res

    def search(self, ctx: Ctx, broken) -> Result:
        """a link broke: re-evaluate the oracle on the disagreeing cases, then sweep systematically"""
        res = Result()
        self._seen = {}
        self._shrink = True
        batch = []
        for b in broken:
            if b.case and "kind" in b.case:
                self._add(res, batch, b.case, run_case(b.case))
        n = 0
        seed0 = 77000 + ctx.seed
        # every single object kind / state × every fault, made, used and then removed or present at stop
        for kind in ("rpc", "instr", "task"):
            for ctorF in (0, 1):
                for relF in (0, 1):
                    for runB in (("loop", "raise", "finish") if kind == "task" else ("loop",)):
                        for use in ([], [["tstart", 1]], [["iopen", 1]], [["tstart", 1], ["tjoin", 1]]):
                            for end in ([["remove", 1]], []):
                                for hs in ([], [["addh", "exc"]]):
                                    ops = ([["start", 0, 0]] + hs + [["make", kind, 1, "a", ctorF, relF, runB, 0]] + use + end +
                                           [["make", "rpc", 1, "a", 0, 0, "loop", 0], ["make", "rpc", 2, "b-1", 0, relF, "loop", 1],
                                            ["stop"], ["call", 1], ["call", 2], ["stop"], ["start", 0, 0], ["probe"]])
                                    for sd in range(2):
                                        case = {"kind": "hist", "seed": seed0 + n, "cfg_tcp": bool(sd), "ops": ops,
                                                "policy": "pct" if sd else "weighted"}
                                        self._add(res, batch, case, run_case(case)); n += 1
        # stop ‖ make: every gate, both release points, several populations and schedules, PCT sweep over change points
        pops = [[], [["make", "rpc", 1, "a", 0, 0, "loop", 0]], [["make", "task", 1, "a", 0, 1, "loop", 0], ["tstart", 1], ["make", "instr", 2, "b-1", 0, 0, "loop", 0]]]
        for pop in pops:
            for mk in (["make", "rpc", 4, NAMES[4], 0, 0, "loop", 0], ["make", "task", 4, NAMES[4], 0, 1, "loop", 0], ["make", "rpc", 4, NAMES[4], 1, 0, "loop", 0]):
                for g in GATES:
                    for u in UNTIL:
                        for sd in range(3):
                            case = {"kind": "conc", "seed": seed0 + n, "cfg_tcp": False, "pop": pop, "mk": mk, "gate": g, "until": u}
                            self._add(res, batch, case, run_case(case)); n += 1
                for cp in range(0, 160, 2):
                    case = {"kind": "conc", "seed": seed0 + (cp % 7), "cfg_tcp": False, "pop": pop, "mk": mk, "gate": None,
                            "policy": "pct", "change_points": [cp]}
                    self._add(res, batch, case, run_case(case)); n += 1
        for ops in DIRECTED_SINGLE:
            for sd in range(3):
                case = {"kind": "single", "seed": seed0 + n, "ops": ops}
                self._add(res, batch, case, run_case(case)); n += 1
        # calls racing remove()/stop(): the action at every yield index of the call path, two priority assignments
        self._calls(res, ctx, seeds=range(2), stride=1, randoms=20, seed0=seed0 + 900000)
        self._busy(res, ctx, seeds=30, seed0=seed0 + 950000, stride=1)
        self._acts(res, seeds=30, seed0=seed0 + 960000)
        self._queued(res, seeds=30, seed0=seed0 + 970000)
        self._rx(res, seeds=20, seed0=seed0 + 980000)
        self._real(res, rounds=3)
        return res

    def replay(self, ctx: Ctx, rp: dict):
        if rp.get("kind") == "real-ast":
            ok = reuse_before_bind().get(rp["fn"], True)
            return None if ok else Failure(f"real:reuseaddr-set-after-bind:{rp['fn']}", "address-reuse option set after bind()", rp)
        if rp.get("kind") == "real-badport":
            bad = oracle_real_badport(run_real_badport(rp["port"]))
            return Failure(bad[0][0], f"{bad[0][0]}: {bad[0][1]}", rp) if bad else None
        if rp.get("kind") == "real-ast2":
            return None if managed_after_handshake() else Failure("real:connection-managed-before-handshake", "registered before the handshake", rp)
        if rp.get("kind") == "real":
            bad = oracle_real(run_real(rp["spec"]))
            return Failure(bad[0][0], f"{bad[0][0]}: {bad[0][1]}", rp) if bad else None
        case = {k: v for k, v in rp.items() if k != "expect"}
        tr = run_case(case)
        if tr.error is not None:
            raise tr.error
        bad = oracle(case, tr)
        if not bad:
            return None
        want = rp.get("expect")
        for sig, det, _ in bad:
            if sig == want:
                return Failure(sig, f"{sig}: {det[:400]}", rp)
        sig, det, _ = bad[0]
        return Failure(sig, f"{sig}: {det[:400]}", rp)


def i_prev_state(tr: Trace, ob):
    i = tr.obs.index(ob)
    if i > 0 and "state" in tr.obs[i - 1]:
        return parse_state(tr.obs[i - 1]["state"])
    return None


def _short(case: dict) -> str:
    c = dict(case)
    if c.get("kind") in ("busy", "acts", "queued", "rx"):
        return repr({k: v for k, v in c.items()})
    if c.get("kind") == "calls":
        sp = c["spec"]
        return repr({"kind": "calls", "seed": c["seed"], "action": sp["action"], "callers": [(x["where"], x["target"], x["ncalls"]) for x in sp["callers"]],
                     "policy": c.get("policy"), "change_points": c.get("change_points")})
    for key in ("ops", "pop"):
        if key in c:
            c[key] = [[(x if not (isinstance(x, str) and len(x) > 12) else x[:3] + "…") for x in (op if op[0] != "q" else ["q"] + list(op[1]))] for op in c[key]]
    for key in ("mk1", "mk2"):
        if key in c:
            c[key] = [(x if not (isinstance(x, str) and len(x) > 12) else x[:3] + "…") for x in c[key]]
    if "mk" in c:
        c["mk"] = [(x if not (isinstance(x, str) and len(x) > 12) else x[:3] + "…") for x in c["mk"]]
    return repr(c)


PROP = C12()
