"""Shared by C07 and C08: event taps on the real publish/subscribe code, translated into lines of the
`QmiModel.PubSub` driver protocol (lean/QmiModel/Model/PubSubDrv.lean).

Everything is injected from outside (class attributes wrapped and restored, per-instance lock proxies); no edit to
the tree under test.  One managed thread runs at a time (harness.detsched), so the order in which the taps fire is a
linearisation of the execution.  Every critical section of the three locks the model knows about
(`SignalManager._lock` = L, `QMI_Context._rpc_object_map_lock` = M, `_SocketManager._lock` = S), every enqueue on a
context's event loop (Q), every `_receive_signal` (R) and every socket-thread work item becomes one driver line, in
that order; the driver checks that the model's thread is at a micro-operation of the same lock class and performs it.
"""
from __future__ import annotations

import contextlib
import functools
import pickle
import threading as _rt

from harness import detsched as D

PUBSUB_MSGS = ("QMI_SignalMessage", "QMI_SignalSubscriptionRequest", "QMI_SignalSubscriptionReply", "QMI_SignalRemovedMessage")


class HarnessError(Exception):
    """The tap layer met something it does not understand (reported as a broken correspondence, not a violation)."""


class LockTap:
    """Proxy around a cooperative Lock/Condition instance: calls `cb()` right after every successful acquire."""

    def __init__(self, real, cb):
        object.__setattr__(self, "_real", real)
        object.__setattr__(self, "_cb", cb)

    def acquire(self, *a, **k):
        r = self._real.acquire(*a, **k)
        if r:
            self._cb()
        return r

    def release(self):
        return self._real.release()

    def __enter__(self):
        self.acquire()
        return True

    def __exit__(self, *a):
        self._real.release()

    def __getattr__(self, k):
        return getattr(self._real, k)


class Tracer:
    def __init__(self, world):
        self.w = world
        self.lines: list[str] = []       # driver input
        self.impl: list[str] = []        # what the real code did, canonical (compared with the driver output)
        self.cmp: list[str] = []         # 'full' | 'head': how line i is compared
        self.events: list[tuple] = []    # high-level log for the property oracles (independent of the driver)
        self.active = False
        self.ctx_ids: dict[str, int] = {}
        self.ctxs: dict[int, object] = {}
        self.obj_ids: dict[str, int] = {}
        self.sig_ids: dict[str, int] = {}
        self.rcv_ids: dict[int, int] = {}          # id(receiver) -> rid
        self.rcv_ctx: dict[int, int] = {}          # rid -> ctx id
        self.receivers: dict[int, object] = {}
        self.tids: dict[int, int] = {}
        self.req_ids: dict[str, int] = {}
        self.req_count: dict[int, int] = {}
        self.conn_of: dict[int, tuple] = {}        # id(_PeerTcpConnection) -> (cn, cli)
        self.alias_of: dict[tuple, int] = {}       # (ctx id, alias string) -> cn
        self.pending_srv: dict[int, tuple] = {}    # id(client SimSocket) -> (srv ctx id, alias, server conn object)
        self.nconn = 0
        self.late_cli: dict[int, int] = {}         # id(client SimSocket) -> cn, when the server side registers later
        self.scope: dict[int, list] = {}           # thread ident -> stack of scopes ('u', c, t) / ('s', c)
        self.cur_send: dict[int, object] = {}      # thread ident -> message being sent through MessageRouter.send_message
        self.send_pending: dict[int, int] = {}     # thread ident -> context: `send_message` has not yet taken `_send_lock`
        self.cur_pop: dict[int, str] = {}          # thread ident -> alias being popped by remove_peer_connection
        self.cur_recv: dict[int, tuple] = {}       # thread ident -> (receiver, message) inside _receive_signal
        self.in_disc: set[int] = set()
        self.cur_connect: dict[int, tuple] = {}
        self.stopping: dict[int, int] = {}
        self.dead: set[int] = set()
        self.pubseq: dict[int, int] = {}           # tid -> next publication number
        self.pub_of_uid: dict[int, tuple] = {}     # uid -> (c, t, seq, ob, sg)
        self.keys_l: set[tuple] = set()
        self.keys_r: set[tuple] = set()
        self.errors: list[str] = []

    # -- ids ---------------------------------------------------------------
    def cid(self, name: str) -> int:
        if name not in self.ctx_ids:
            self.ctx_ids[name] = len(self.ctx_ids)
        return self.ctx_ids[name]

    def oid(self, name: str) -> int:
        return self.obj_ids.setdefault(name, len(self.obj_ids))

    def sid(self, name: str) -> int:
        return self.sig_ids.setdefault(name, len(self.sig_ids))

    def tid(self) -> int:
        return self.tids.setdefault(_rt.get_ident(), len(self.tids))

    def rid(self, receiver) -> int:
        return self.rcv_ids.get(id(receiver), -1)

    def peercode(self, c: int, name: str) -> int:
        """code of the name under which context c knows a peer"""
        if name.startswith("$client_"):
            cn = self.alias_of.get((c, name))
            if cn is None:
                raise HarnessError(f"unknown alias {name} at context {c}")
            return 2 * cn + 1
        return 2 * self.cid(name)

    def msgdesc(self, c: int, m) -> str:
        """canonical description of a pubsub message sent by / arriving at context c"""
        tn = type(m).__name__
        if tn == "QMI_SignalMessage":
            uid = m.args[0]
            (_c, t, seq, _ob, _sg) = self.pub_of_uid[uid]
            return f"sig {self.oid(m.source_address.object_id)} {self.sid(m.signal_name)} {t} {seq}"
        if tn == "QMI_SignalSubscriptionRequest":
            return f"req {self.req_ids[m.request_id]} {self.oid(m.publisher_name)} {self.sid(m.signal_name)} {1 if m.subscribe else 0}"
        if tn == "QMI_SignalSubscriptionReply":
            return f"rep {self.req_ids.get(m.request_id, 999999)} {1 if m.success else 0}"
        if tn == "QMI_SignalRemovedMessage":
            return f"rem {self.oid(m.publisher_name)} {self.sid(m.signal_name)}"
        raise HarnessError(f"not a pubsub message: {tn}")

    # -- emission ------------------------------------------------------------
    def emit(self, line: str, impl: str, cmp: str = "full", c=None) -> None:
        if not self.active:
            return
        if c is not None and c in self.dead:
            return
        self.lines.append(line)
        self.impl.append(impl)
        self.cmp.append(cmp)

    def ev(self, *e) -> None:
        if self.active:
            self.events.append((len(self.lines),) + e)

    def cur_scope(self):
        st = self.scope.get(_rt.get_ident())
        return st[-1] if st else None

    @contextlib.contextmanager
    def scoped(self, sc):
        st = self.scope.setdefault(_rt.get_ident(), [])
        st.append(sc)
        try:
            yield
        finally:
            st.pop()

    @staticmethod
    def th(sc) -> str:
        return f"u {sc[1]} {sc[2]}" if sc[0] == "u" else f"s {sc[1]}"

    def micro(self, cls: str, c: int, a=None, b=None, impl: str = "ok", cmp: str = "head") -> None:
        sc = self.cur_scope()
        if sc is None or sc[1] != c:
            return
        args = "" if a is None else (f" {a}" if b is None else f" {a} {b}")
        self.emit(f"m {self.th(sc)} {cls}{args}", impl, cmp, c)

    # -- lock / loop instrumentation of one context ------------------------------
    def attach_context(self, ctx) -> None:
        c = self.cid(ctx.name)
        self.ctxs[c] = ctx
        sm = ctx._signal_manager
        sm._lock = LockTap(sm._lock, lambda: self.on_lock("L", c))
        ctx._rpc_object_map_lock = LockTap(ctx._rpc_object_map_lock, lambda: self.on_lock("M", c))
        sockm = ctx._message_router._socket_manager
        sockm._lock = LockTap(sockm._lock, lambda: self.on_lock("S", c))
        router = ctx._message_router
        if hasattr(router, "_send_lock"):
            # MessageRouter.send_message reads `_socket_manager` under `_send_lock` (held until the message is queued;
            # MessageRouter.stop takes the same lock): the read is logged when the lock has been acquired
            router._send_lock = LockTap(router._send_lock, lambda: self.on_send_lock(c, router))
        loop = ctx._message_router._thread.event_loop
        orig = loop.call_soon_threadsafe

        def call_soon_threadsafe(cb, *args):
            self.on_enqueue(c, cb, args)
            return orig(cb, *args)
        loop.call_soon_threadsafe = call_soon_threadsafe

    def attach_receiver(self, ctx, receiver) -> int:
        r = len(self.rcv_ids)
        self.rcv_ids[id(receiver)] = r
        self.rcv_ctx[r] = self.cid(ctx.name)
        self.receivers[r] = receiver
        receiver._queue_cond = LockTap(receiver._queue_cond, lambda: self.on_rcv_lock(receiver))
        return r

    def on_lock(self, kind: str, c: int) -> None:
        if not self.active:
            return
        if kind == "S":
            cc = self.cur_connect.pop(_rt.get_ident(), None)
            if cc is not None:
                (a, p, cn) = cc
                self.emit(f"connect {a} {p}", f"ok connect {cn}", "full", a)
                self.ev("connect", a, p, cn)
                return
        sc = self.cur_scope()
        if sc is None or sc[1] != c:
            return
        if kind == "S":
            ident = _rt.get_ident()
            m = self.cur_send.get(ident)
            if m is not None:
                try:
                    d = self.peercode(c, m.destination_address.context_id)
                except HarnessError:
                    d = 999999
                if type(m).__name__ == "QMI_SignalRemovedMessage":
                    self.micro("S", c, d, self.sid(m.signal_name))
                else:
                    self.micro("S", c, d)
                return
            al = self.cur_pop.get(ident)
            if al is not None:
                self.micro("S", c, self.peercode(c, al))
                return
            return     # some other use of the socket-manager lock (get_peer_context_names …): not a modelled step
        self.micro(kind, c)

    def router_read(self, c: int, router) -> None:
        """`MessageRouter.send_message` reads `_thread` / `_socket_manager`"""
        if router._thread is None or router._socket_manager is None:
            # the router is being stopped: send_message raises before it takes the socket-manager lock;
            # the model has the same step (`sendChk` with `routerDown`) in the lock class S
            self.on_lock("S", c)
        else:
            # the router is read as active here; has_peer_context follows later
            sc = self.cur_scope()
            if sc is not None and sc[1] == c:
                self.emit(f"rok {self.th(sc)}", "ok router-ok", "full", c)

    def on_send_lock(self, c: int, router) -> None:
        if self.send_pending.pop(_rt.get_ident(), None) is not None and self.active:
            self.router_read(c, router)

    def on_rcv_lock(self, receiver) -> None:
        ident = _rt.get_ident()
        cur = self.cur_recv.pop(ident, None)
        if cur is None or not self.active:
            return
        (rcv, m) = cur
        sc = self.cur_scope()
        r = self.rid(rcv)
        if sc is None or r < 0:
            return
        c = sc[1]
        uid = m.args[0]
        (_c, t, seq, _ob, _sg) = self.pub_of_uid.get(uid, (0, 999999, 999999, 0, 0))
        key = f"{self.peercode(c, m.source_address.context_id)}:{self.oid(m.source_address.object_id)}:{self.sid(m.signal_name)}"
        self.micro("R", c, r, impl=f"dlv {r} {key} {t} {seq}", cmp="full")
        self.ev("dlv", c, r, uid, m.source_address.context_id, m.source_address.object_id, m.signal_name)

    def on_enqueue(self, c: int, cb, args) -> None:
        if not self.active:
            return
        name = getattr(cb, "__name__", "")
        owner = type(getattr(cb, "__self__", None)).__name__
        if owner == "_SocketManager" and name == "send_message" and args and type(args[0]).__name__ in PUBSUB_MSGS:
            self.micro("Q", c)
        elif name == "_call_wait_helper" and args and getattr(getattr(args[0], "func", None), "__name__", "") == "disconnect_from_peer":
            self.micro("Q", c)

    # -- class-level taps ---------------------------------------------------------
    @contextlib.contextmanager
    def installed(self):
        import qmi.core.pubsub as PS
        import qmi.core.messaging as MS
        import qmi.core.context as CX
        T = self
        saved = []

        def wrap(cls, name, make):
            orig = cls.__dict__[name]
            f = orig.__func__ if isinstance(orig, (staticmethod, classmethod)) else orig
            saved.append((cls, name, orig))
            setattr(cls, name, functools.wraps(f)(make(f)))

        def user_api(kind):
            def make(orig):
                def api(self, *a, **k):
                    if not T.active:
                        return orig(self, *a, **k)
                    ctx = self._context if hasattr(self, "_context") else self
                    c = T.cid(ctx.name)
                    if c in T.dead or T.cur_scope() is not None:
                        return orig(self, *a, **k)
                    t = T.tid()
                    if kind == "pub":
                        (pubname, signame, args) = a
                        seq = T.pubseq.get(t, 0)
                        T.pubseq[t] = seq + 1
                        uid = args[0]
                        T.pub_of_uid[uid] = (c, t, seq, T.oid(pubname), T.sid(signame))
                        T.emit(f"begin {c} {t} pub {T.oid(pubname)} {T.sid(signame)}", f"ok begin {seq}", "full", c)
                        T.ev("pub-begin", c, t, uid, ctx.name, pubname, signame)
                        desc = ("pub", uid)
                    elif kind in ("sub", "unsub"):
                        (pc, pubname, signame, receiver) = a
                        pc = pc or ctx.name
                        r = T.rid(receiver)
                        T.emit(f"begin {c} {t} {kind} {T.cid(pc)} {T.oid(pubname)} {T.sid(signame)} {r}", "ok begin", "full", c)
                        T.ev(kind + "-begin", c, t, r, pc, pubname, signame)
                        desc = (kind, r, pc, pubname, signame)
                    elif kind == "rm":
                        name = a[0]._rpc_object_address.object_id
                        T.emit(f"begin {c} {t} rm {T.oid(name)}", "ok begin", "full", c)
                        T.ev("rm-begin", c, t, name)
                        desc = ("rm", name)
                    elif kind == "mk":
                        name = a[0]
                        T.emit(f"begin {c} {t} mk {T.oid(name)}", "ok begin", "full", c)
                        T.ev("mk-begin", c, t, name)
                        desc = ("mk", name)
                    elif kind == "disc":
                        name = a[0]
                        T.emit(f"begin {c} {t} disc {T.cid(name)}", "ok begin", "full", c)
                        T.ev("disc-begin", c, t, name)
                        desc = ("disc", name)
                    else:
                        raise HarnessError(kind)
                    with T.scoped(("u", c, t)):
                        try:
                            ret = orig(self, *a, **k)
                        except D.SchedAbort:
                            raise
                        except BaseException as e:
                            if kind == "disc":
                                T.micro("W", c, impl="ok wait-failed", cmp="full")
                            T.micro("E", c, impl=f"exc:{type(e).__name__}", cmp="full")
                            T.ev("end", c, t, desc, type(e).__name__)
                            raise
                        if kind == "disc":
                            T.micro("W", c, impl="ok wait-ok", cmp="full")
                        T.micro("E", c, impl="ret", cmp="full")
                        T.ev("end", c, t, desc, None)
                        return ret
                return api
            return make

        wrap(PS.SignalManager, "subscribe_signal", user_api("sub"))
        wrap(PS.SignalManager, "unsubscribe_signal", user_api("unsub"))
        wrap(PS.SignalManager, "publish_signal", user_api("pub"))
        wrap(CX.QMI_Context, "remove_rpc_object", user_api("rm"))
        wrap(CX.QMI_Context, "make_rpc_object", user_api("mk"))
        wrap(CX.QMI_Context, "disconnect_from_peer", user_api("disc"))

        def mk_deliver_local(orig):
            def _deliver_local(self, message):
                if T.active:
                    c = T.cid(self._context.name)
                    uid = message.args[0] if message.args else None
                    T.ev("dl-begin", c, uid, message.source_address.context_id)
                    try:
                        return orig(self, message)
                    finally:
                        T.ev("dl-end", c, uid, message.source_address.context_id)
                return orig(self, message)
            return _deliver_local
        wrap(PS.SignalManager, "_deliver_local", mk_deliver_local)

        def mk_wait(orig):
            def wait(self):
                r = orig(self)
                sc = T.cur_scope()
                if T.active and sc is not None and sc[0] == "u":
                    T.micro("W", sc[1], impl="ok wait-ok" if r[0] else "ok wait-failed", cmp="full")
                return r
            return wait
        wrap(PS._PendingSubscriptionRequest, "wait", mk_wait)

        def mk_req_init(orig):
            def __init__(self, source_address, destination_address, publisher_name, signal_name, subscribe):
                orig(self, source_address, destination_address, publisher_name, signal_name, subscribe)
                c = T.cid(source_address.context_id)
                n = T.req_count.get(c, 0)
                T.req_count[c] = n + 1
                T.req_ids[self.request_id] = n
            return __init__
        wrap(PS.QMI_SignalSubscriptionRequest, "__init__", mk_req_init)

        def mk_receive(orig):
            def _receive_signal(self, message):
                if T.active and id(self) in T.rcv_ids:
                    T.cur_recv[_rt.get_ident()] = (self, message)
                try:
                    return orig(self, message)
                finally:
                    T.cur_recv.pop(_rt.get_ident(), None)
            return _receive_signal
        wrap(PS.QMI_SignalReceiver, "_receive_signal", mk_receive)

        def mk_router_send(orig):
            def send_message(self, message):
                ident = _rt.get_ident()
                tracked = (T.active and T.cur_scope() is not None and type(message).__name__ in PUBSUB_MSGS
                           and message.destination_address.context_id != self.context_name)
                if tracked:
                    T.cur_send[ident] = message
                    if type(message).__name__ == "QMI_SignalMessage" and message.args:
                        T.ev("tx", T.cid(self.context_name), message.args[0], message.destination_address.context_id)
                    c = T.cid(self.context_name)
                    if isinstance(getattr(self, "_send_lock", None), LockTap):
                        T.send_pending[ident] = c      # the read happens under `_send_lock`: see `on_send_lock`
                    else:
                        T.router_read(c, self)         # a tree without the send lock: the read is the next statement
                try:
                    return orig(self, message)
                finally:
                    if tracked:
                        T.cur_send.pop(ident, None)
                        T.send_pending.pop(ident, None)
            return send_message
        wrap(MS.MessageRouter, "send_message", mk_router_send)

        def mk_sm_send(orig):
            def send_message(self, message):
                if not T.active or type(message).__name__ not in PUBSUB_MSGS:
                    return orig(self, message)
                c = T.cid(self._message_router.context_name)
                if c in T.dead:
                    return orig(self, message)
                dest = message.destination_address.context_id
                conn = self._peer_context_map.get(dest)
                ok = False
                if conn is not None:
                    s = conn._sock
                    ok = not (s.closed or s.peer is None or s.peer.closed or s.fd in s.net.send_fail)
                try:
                    d = T.peercode(c, dest)
                except HarnessError:
                    d = 999999
                T.emit(f"cb {c} send {d} {T.msgdesc(c, message)} {1 if ok else 0}", "ok sent" if ok else "ok send-failed", "full", c)
                with T.scoped(("s", c)):
                    return orig(self, message)
            return send_message
        wrap(MS._SocketManager, "send_message", mk_sm_send)

        def mk_process(orig):
            def _process_message(self, packed_message):
                if not T.active or id(self) not in T.conn_of:
                    return orig(self, packed_message)
                try:
                    m = pickle.loads(packed_message)
                except Exception:
                    return orig(self, packed_message)
                if type(m).__name__ not in PUBSUB_MSGS:
                    return orig(self, packed_message)
                c = T.cid(self._message_router.context_name)
                if c in T.dead:
                    return orig(self, packed_message)
                (cn, cli) = T.conn_of[id(self)]
                T.emit(f"arrive {cn} {1 if cli else 0} {T.msgdesc(c, m)}", "ok arrive", "full", c)
                with T.scoped(("s", c)):
                    return orig(self, packed_message)
            return _process_message
        wrap(MS._PeerTcpConnection, "_process_message", mk_process)

        def mk_remove_peer(orig):
            def remove_peer_connection(self, conn):
                if not T.active or id(conn) not in T.conn_of:
                    return orig(self, conn)
                c = T.cid(self._message_router.context_name)
                ident = _rt.get_ident()
                (cn, cli) = T.conn_of[id(conn)]
                if ident not in T.in_disc:
                    T.emit(f"eof {cn} {1 if cli else 0}", "ok eof", "full", c)
                T.cur_pop[ident] = conn.peer_context_alias
                try:
                    with T.scoped(("s", c)):
                        return orig(self, conn)
                finally:
                    T.cur_pop.pop(ident, None)
            return remove_peer_connection
        wrap(MS._SocketManager, "remove_peer_connection", mk_remove_peer)

        def mk_close(orig):
            def close(self):
                if not T.active or id(self) not in T.conn_of:
                    return orig(self)
                c = T.cid(self._message_router.context_name)
                if c in T.dead:
                    return orig(self)
                pend = sorted(T.req_ids[k] for k in self._pending_requests if k in T.req_ids)
                with T.scoped(("s", c)):
                    T.micro("C", c, impl="ok close [%s]" % ",".join(map(str, pend)), cmp="full")
                    return orig(self)
            return close
        wrap(MS._PeerTcpConnection, "close", mk_close)

        def mk_disc(orig):
            def disconnect_from_peer(self, peer_context_name):
                if not T.active:
                    return orig(self, peer_context_name)
                c = T.cid(self._message_router.context_name)
                ident = _rt.get_ident()
                known = self._peer_context_map.get(peer_context_name) is not None
                T.emit(f"cb {c} disc {T.peercode(c, peer_context_name)}", "ok disc" if known else "ok disc-unknown", "full", c)
                T.in_disc.add(ident)
                try:
                    with T.scoped(("s", c)):
                        try:
                            return orig(self, peer_context_name)
                        finally:
                            T.micro("F", c)
                finally:
                    T.in_disc.discard(ident)
            return disconnect_from_peer
        wrap(MS._SocketManager, "disconnect_from_peer", mk_disc)

        def mk_router_stop(orig):
            def stop(self):
                if T.active:
                    T.stopping[_rt.get_ident()] = T.cid(self.context_name)
                try:
                    return orig(self)
                finally:
                    T.stopping.pop(_rt.get_ident(), None)
            return stop
        wrap(MS.MessageRouter, "stop", mk_router_stop)

        def mk_run_in_thread(orig):
            def run_in_thread(self, func):
                r = orig(self, func)
                c = T.stopping.pop(_rt.get_ident(), None)
                if c is not None and T.active:
                    # MessageRouter.stop: `close_all` is queued; the next statement sets `_socket_manager = None`
                    T.emit(f"stopreq {c}", "ok stop-requested", "full", c)
                return r
            return run_in_thread
        wrap(MS._EventDrivenThread, "run_in_thread", mk_run_in_thread)

        def mk_close_all(orig):
            def close_all(self):
                if T.active:
                    c = T.cid(self._message_router.context_name)
                    T.emit(f"stop {c}", "ok stop", "full", c)
                    T.ev("stop", c)
                    T.dead.add(c)
                return orig(self)
            return close_all
        wrap(MS._SocketManager, "close_all", mk_close_all)

        def mk_incoming(orig):
            def add_incoming_connection(self, sock):
                r = orig(self, sock)
                alias = "$client_{}".format(self._peer_name_counter)
                conn = self._peer_context_map.get(alias)
                if conn is not None:
                    pc = T.cid(self._message_router.context_name)
                    cn = T.late_cli.pop(id(sock.peer), None)
                    if cn is not None:      # the client finished connect_to_peer before this accept callback returned
                        T.conn_of[id(conn)] = (cn, False)
                        T.alias_of[(pc, alias)] = cn
                    else:
                        T.pending_srv[id(sock.peer)] = (pc, alias, conn)
                return r
            return add_incoming_connection
        wrap(MS._SocketManager, "add_incoming_connection", mk_incoming)

        def mk_outgoing(orig):
            def add_outgoing_connection(self, conn):
                a = T.cid(self._message_router.context_name)
                p = T.cid(conn.peer_context_alias)
                cn = T.nconn
                T.nconn += 1
                T.conn_of[id(conn)] = (cn, True)
                srv = T.pending_srv.pop(id(conn._sock), None)
                if srv is not None:
                    (pc, alias, sconn) = srv
                    T.conn_of[id(sconn)] = (cn, False)
                    T.alias_of[(pc, alias)] = cn
                else:
                    T.late_cli[id(conn._sock)] = cn
                # the registration happens under the socket-manager lock: the `connect` line is emitted at that acquire
                T.cur_connect[_rt.get_ident()] = (a, p, cn)
                try:
                    return orig(self, conn)
                finally:
                    T.cur_connect.pop(_rt.get_ident(), None)
            return add_outgoing_connection
        wrap(MS._SocketManager, "add_outgoing_connection", mk_outgoing)

        try:
            yield self
        finally:
            for cls, name, orig in reversed(saved):
                setattr(cls, name, orig)

    # -- reading the real tables -----------------------------------------------------
    def real_tables(self, c: int):
        """(local {(peercode, ob, sg): sorted rids}, remote {(ob, sg): sorted peercodes}, pending ids, problems)"""
        ctx = self.ctxs[c]
        sm = ctx._signal_manager
        problems = []
        if sm._lock.locked():
            problems.append("pubsub-lock-held-at-dump")
        loc, rem = {}, {}
        for full, rs in sm._local_subscriptions.items():
            parts = full.split(".")
            if len(parts) != 3:
                problems.append(f"odd-local-key:{full}")
                continue
            try:
                k = (self.peercode(c, parts[0]), self.oid(parts[1]), self.sid(parts[2]))
            except HarnessError:
                problems.append(f"odd-local-key:{full}")
                continue
            if len(rs) == 0:
                problems.append(f"empty-local-set:{full}")
            loc[k] = sorted(self.rid(r) for r in rs)
        for full, ps in sm._remote_subscriptions.items():
            parts = full.split(".")
            if len(parts) != 2:
                problems.append(f"odd-remote-key:{full}")
                continue
            k = (self.oid(parts[0]), self.sid(parts[1]))
            if len(ps) == 0:
                problems.append(f"empty-remote-set:{full}")
            try:
                rem[k] = sorted(self.peercode(c, p) for p in ps)
            except HarnessError:
                problems.append(f"unknown-alias-in:{full}")
        by_id = sm._pending_subscription_request_by_request_id
        by_name = sm._pending_subscription_request_by_signal_name
        if len(by_id) != len(by_name) or {id(v) for v in by_id.values()} != {id(v) for v in by_name.values()}:
            problems.append("pending-tables-disagree")
        pend = sorted(self.req_ids.get(k, 999999) for k in by_id)
        return loc, rem, pend, problems

    def dump(self, c: int) -> None:
        """emit a `dump` line comparing the model's tables of context c with the real ones"""
        loc, rem, pend, problems = self.real_tables(c)
        self.keys_l |= set(loc)
        self.keys_r |= set(rem)
        toks = [f"l:{a}:{b}:{d}" for (a, b, d) in sorted(self.keys_l)] + [f"r:{a}:{b}" for (a, b) in sorted(self.keys_r)]
        parts = []
        for (a, b, d) in sorted(self.keys_l):
            if (a, b, d) in loc:
                parts.append(f"l:{a}:{b}:{d}=[{','.join(map(str, loc[(a, b, d)]))}]")
        for (a, b) in sorted(self.keys_r):
            if (a, b) in rem:
                parts.append(f"r:{a}:{b}=[{','.join(map(str, rem[(a, b)]))}]")
        impl = "tables " + " ".join(parts) + f" pend=[{','.join(map(str, pend))}]"
        if problems:
            impl += " !" + ",".join(problems)
        self.emit(f"dump {c} " + " ".join(toks), impl, "full")

    def note_keys(self, ctx_names, obj_names, sig_names) -> None:
        """make every (peer, object, signal) combination part of the dump universe"""
        for c in range(len(self.ctx_ids)):
            pass
        pcs = [2 * self.cid(n) for n in ctx_names] + [2 * cn + 1 for cn in range(self.nconn)]
        for o in obj_names:
            for s in sig_names:
                self.keys_r.add((self.oid(o), self.sid(s)))
                for pc in pcs:
                    self.keys_l.add((pc, self.oid(o), self.sid(s)))

    def got(self, r: int) -> None:
        """emit a `got` line: everything ever delivered to receiver r, from the real queue (never read by the scenario)"""
        rcv = self.receivers[r]
        c = self.rcv_ctx[r]
        items = []
        for s in list(rcv._queue):
            uid = s.args[0]
            (_c, t, seq, _ob, _sg) = self.pub_of_uid.get(uid, (0, 999999, 999999, 0, 0))
            items.append(f"{self.peercode(c, s.publisher_context)}:{self.oid(s.publisher_name)}:{self.sid(s.signal_name)}/{t}/{seq}")
        self.emit(f"got {c} {r}", "got " + " ".join(items), "full")


def drain(w, rounds: int = 3) -> None:
    """Let every other thread run until nothing can run any more (virtual-time sleep fires only then)."""
    for _ in range(rounds):
        D.TIME_SHIM.sleep(1.0)


def compare(tr: Tracer, model_out: list[str]):
    """index of the first line on which the model and the implementation disagree, or None"""
    for i, (cmpk, a, b) in enumerate(zip(tr.cmp, tr.impl, model_out)):
        if cmpk == "head":
            if b.split(" ")[0] != a.split(" ")[0]:
                return i
        elif a != b:
            return i
    return None
