"""C02 helper: structured value specs (JSON-able), builder, generator, comparison, shrinker.

A *spec* is a nested list that describes a Python value; `build(spec)` makes a fresh value every time, so
every placement (direct object, local proxy, peer proxy) gets its own copy and replay files hold specs only.
The classes below live at module level so that `pickle` can reach them by reference.
"""
from __future__ import annotations

import collections
import dataclasses
import enum
import math
import pickle
import typing

import numpy as np

# ---------------------------------------------------------------------------
# module-level user types
# ---------------------------------------------------------------------------

Point = collections.namedtuple("Point", "x y")


class Reading(typing.NamedTuple):
    channel: int
    value: typing.Any
    unit: str = "V"


class Color(enum.Enum):
    RED = 1
    GREEN = "green"
    BLUE = (0, 0, 255)


class Level(enum.IntEnum):
    LOW = 0
    HIGH = 7


class Perm(enum.Flag):
    R = 4
    W = 2
    X = 1


@dataclasses.dataclass
class Sample:
    name: str
    values: typing.Any
    meta: typing.Any = None


@dataclasses.dataclass(frozen=True)
class Key:
    a: int
    b: str


class AttrError(Exception):
    """plain exception class; instances get extra attributes"""


class KwInitError(Exception):
    """keyword-only extra state; pickles via args + __dict__"""

    def __init__(self, msg="", *, code=0):
        super().__init__(msg)
        self.code = code


class TwoArgInitError(Exception):
    """__init__ signature differs from .args: a *pickle* limitation (unpickling calls cls(*args))"""

    def __init__(self, a, b):
        super().__init__(f"{a}-{b}")
        self.a, self.b = a, b


NAMED = {"Point": Point, "Reading": Reading}
ENUMS = {"Color": Color, "Level": Level, "Perm": Perm}
DCS = {"Sample": Sample, "Key": Key}
LOCAL_EXC = {"AttrError": AttrError, "KwInitError": KwInitError, "TwoArgInitError": TwoArgInitError}
BUILTIN_EXC = ["ValueError", "TypeError", "KeyError", "IndexError", "OSError", "RuntimeError", "ZeroDivisionError",
               "AssertionError", "NotImplementedError", "StopIteration", "KeyboardInterrupt", "SystemExit",
               "ArithmeticError", "LookupError", "UnicodeDecodeError", "TimeoutError", "FileNotFoundError"]


def qmi_exception_names() -> list:
    import qmi.core.exceptions as E
    return sorted(n for n, c in vars(E).items() if isinstance(c, type) and issubclass(c, BaseException)
                  and c.__module__ == E.__name__)


def exc_class(name: str):
    if name in LOCAL_EXC:
        return LOCAL_EXC[name]
    import builtins
    import qmi.core.exceptions as E
    c = getattr(E, name, None)
    if c is None:
        c = getattr(builtins, name)
    return c


DTYPES = ["int8", "uint8", "int16", "int32", "int64", "uint64", "float16", "float32", "float64", "complex64",
          "complex128", "bool", "<U5", "S3", ">i4", ">f8", "datetime64[ns]", "timedelta64[s]", "rec"]
REC = [("a", "<i4"), ("b", "<f8"), ("c", "S2")]
SHAPES = [[], [0], [1], [3], [7], [2, 3], [3, 1], [2, 0, 3], [1, 1, 1, 4], [4, 5], [2, 3, 4]]
LAYOUTS = ["C", "F", "step", "T", "rev"]
SPECIAL_FLOATS = ["nan", "inf", "-inf", "-0.0", "0.0", "5e-324", "1.7976931348623157e+308", "2.2250738585072014e-308",
                  "0.1", "-1.5", "1e16", "3.141592653589793"]


def _dt(name):
    return np.dtype(REC) if name == "rec" else np.dtype(name)


def _nd(dtype, shape, seed, layout):
    dt = _dt(dtype)
    g = np.random.default_rng(seed)
    big = [int(d) if d else 0 for d in shape]
    if layout == "step":
        big = [2 * d for d in big]
    n = int(np.prod(big)) if big else 1
    raw = g.integers(0, 256, size=n * max(dt.itemsize, 1), dtype=np.uint8).tobytes()
    if dt.kind in "fc":
        base = np.frombuffer(raw, dtype=dt, count=n).copy()          # arbitrary bit patterns: nan payloads, denormals, -0
        if n >= 3:
            base[0], base[1], base[2] = np.nan, -0.0, np.inf
    elif dt.kind == "U":
        base = np.array(["".join(chr(g.choice([65, 233, 0x1F600, 0x4E2D, 48])) for _ in range(int(g.integers(0, 6))))
                         for _ in range(n)], dtype=dt)
    elif dt.kind == "b":
        base = (np.frombuffer(raw, dtype=np.uint8, count=n) & 1).astype(bool)
    elif dt.kind in "mM":
        base = np.frombuffer(raw[: n * 8].ljust(n * 8, b"\0"), dtype="<i8", count=n).astype(dt)
    else:
        base = np.frombuffer(raw, dtype=dt, count=n).copy()
    a = base.reshape(big)
    if layout == "F" and a.ndim >= 2:
        a = np.asfortranarray(a)
    elif layout == "step" and a.ndim >= 1:
        a = a[tuple(slice(None, None, 2) for _ in big)]
    elif layout == "T":
        a = a.T
    elif layout == "rev" and a.ndim >= 1:
        a = a[::-1]
    return a


def build(spec):
    """spec -> fresh Python value"""
    k = spec[0]
    if k == "none":
        return None
    if k == "bool":
        return bool(spec[1])
    if k == "int":
        return int(spec[1])
    if k == "float":
        return float(spec[1])
    if k == "complex":
        return complex(float(spec[1]), float(spec[2]))
    if k == "str":
        return "".join(chr(c) for c in spec[1])
    if k == "bytes":
        return bytes.fromhex(spec[1])
    if k == "bytearray":
        return bytearray.fromhex(spec[1])
    if k == "list":
        return [build(s) for s in spec[1]]
    if k == "tuple":
        return tuple(build(s) for s in spec[1])
    if k == "dict":
        return {build(a): build(b) for a, b in spec[1]}
    if k == "set":
        return {build(s) for s in spec[1]}
    if k == "frozenset":
        return frozenset(build(s) for s in spec[1])
    if k == "range":
        return range(spec[1], spec[2], spec[3])
    if k == "ellipsis":
        return Ellipsis
    if k == "nd":
        return _nd(spec[1], spec[2], spec[3], spec[4])
    if k == "npscalar":
        a = _nd(spec[1], [3], spec[2], "C")
        return a[spec[3] % 3]
    if k == "nt":
        return NAMED[spec[1]](*[build(s) for s in spec[2]])
    if k == "enum":
        return ENUMS[spec[1]][spec[2]] if not spec[1] == "Perm" else Perm(spec[2])
    if k == "dc":
        return DCS[spec[1]](*[build(s) for s in spec[2]])
    if k == "exc":
        kw = {n: build(s) for n, s in spec[4]} if len(spec) > 4 else {}
        e = exc_class(spec[1])(*[build(s) for s in spec[2]], **kw)
        for name, s in spec[3]:
            setattr(e, name, build(s))
        return e
    if k == "shared":
        x = build(spec[1])
        return [x, x, (x,)]
    if k == "selfref":
        l = [build(spec[1])]
        l.append(l)
        return l
    if k == "unpicklable":
        kind = spec[1]
        if kind == "lambda":
            return lambda: 1
        if kind == "localclass":
            class Local:
                pass
            return Local()
        if kind == "generator":
            return (i for i in range(3))
        if kind == "memoryview":
            return memoryview(b"abc")
        if kind == "twoarg-exc":
            return TwoArgInitError(1, "b")
        if kind == "module":
            return math
    raise ValueError(f"bad spec {spec!r}")


# ---------------------------------------------------------------------------
# generator
# ---------------------------------------------------------------------------

def _gen_int(rng):
    r = rng.random()
    if r < 0.3:
        return rng.randint(-5, 300)
    if r < 0.6:
        b = rng.choice([7, 8, 15, 16, 31, 32, 63, 64, 65, 127, 128, 200, 1000])
        return rng.choice([1, -1]) * ((1 << b) + rng.choice([-1, 0, 1]))
    if r < 0.8:
        return rng.getrandbits(rng.choice([8, 31, 32, 33, 64, 100, 256, 2049])) * rng.choice([1, -1])
    return rng.randint(-10 ** 30, 10 ** 30)


def _gen_str(rng):
    n = rng.choice([0, 1, 1, 2, 3, 5, 8, 40, 300])
    pools = [(32, 126), (0, 31), (128, 255), (0x100, 0x2FF), (0x4E00, 0x4FFF), (0x1F600, 0x1F64F), (0x10FFFE, 0x10FFFF),
             (0xE000, 0xE010), (0xFFF0, 0xFFFF)]
    out = []
    for _ in range(n):
        lo, hi = rng.choice(pools) if rng.random() < 0.5 else pools[0]
        out.append(rng.randint(lo, hi))
    if rng.random() < 0.03:
        out.append(rng.randint(0xD800, 0xDFFF))      # lone surrogate: scope decided by plain pickle
    return out


def _gen_bytes_hex(rng):
    n = rng.choice([0, 1, 2, 3, 8, 9, 16, 255, 256, 257, 4095, 4096, 4097, 70000]) if rng.random() < 0.25 else rng.randint(0, 24)
    r = rng.random()
    if r < 0.15:
        return (b"P" * n).hex()                       # looks like the frame marker
    if r < 0.3:
        return bytes(n).hex()
    return rng.randbytes(n).hex()


def gen_scalar(rng, hashable=False):
    r = rng.random()
    if r < 0.22:
        return ["int", str(_gen_int(rng))]
    if r < 0.36:
        if rng.random() < 0.5:
            v = rng.choice(SPECIAL_FLOATS)
            if hashable and v == "nan":
                v = "0.5"
            return ["float", v]
        return ["float", repr(rng.uniform(-1, 1) * 10 ** rng.randint(-300, 300))]
    if r < 0.50:
        return ["str", _gen_str(rng)]
    if r < 0.60:
        return ["bytes", _gen_bytes_hex(rng)]
    if r < 0.65 and not hashable:
        return ["bytearray", _gen_bytes_hex(rng)]
    if r < 0.72:
        return ["none"]
    if r < 0.80:
        return ["bool", rng.random() < 0.5]
    if r < 0.84:
        return ["complex", rng.choice(["0.0", "-0.0", "1.5", "inf", "1e300"]), rng.choice(["0.0", "-0.0", "-2.25", "1e-300"])]
    if r < 0.90:
        name = rng.choice(list(ENUMS))
        if name == "Perm":
            return ["enum", "Perm", rng.randint(0, 7)]
        return ["enum", name, rng.choice([m.name for m in ENUMS[name]])]
    if r < 0.93:
        return ["range", rng.randint(-5, 5), rng.randint(-5, 50), rng.choice([1, 2, -1, 7])]
    if r < 0.95:
        return ["dc", "Key", [["int", str(_gen_int(rng))], ["str", _gen_str(rng)]]]
    if r < 0.97:
        return ["ellipsis"]
    return ["npscalar", rng.choice(DTYPES[:11]), rng.randint(0, 10 ** 6), rng.randint(0, 2)] if not hashable else ["int", "7"]


def gen_nd(rng, big=False):
    shape = list(rng.choice(SHAPES))
    if big and rng.random() < 0.3:
        shape = [rng.choice([1000, 4096, 30000])] + ([rng.choice([2, 3])] if rng.random() < 0.5 else [])
    return ["nd", rng.choice(DTYPES), shape, rng.randint(0, 10 ** 6), rng.choice(LAYOUTS)]


def gen_exc(rng, depth, qmi_names):
    r = rng.random()
    if r < 0.55:
        name = rng.choice(qmi_names)
    elif r < 0.8:
        name = rng.choice(BUILTIN_EXC)
    else:
        name = rng.choice(["AttrError", "KwInitError"])
    kw = []
    if name == "UnicodeDecodeError":
        args = [["str", [117, 116, 102]], ["bytes", "ff00"], ["int", "0"], ["int", "1"], ["str", [98, 97, 100]]]
    elif name == "KwInitError":
        args = [["str", _gen_str(rng)]] if rng.random() < 0.8 else []
        if rng.random() < 0.7:
            kw = [["code", gen_value(rng, depth - 1)]]
    else:
        n = rng.choice([0, 1, 1, 1, 2, 3])
        args = []
        for i in range(n):
            args.append(["str", _gen_str(rng)] if (i == 0 and rng.random() < 0.6) else gen_value(rng, depth - 1))
    attrs = []
    if rng.random() < 0.3:
        for a in rng.sample(["detail", "errno_", "payload", "context_info"], rng.randint(1, 2)):
            attrs.append([a, gen_value(rng, depth - 1)])
    return ["exc", name, args, attrs, kw]


def gen_value(rng, depth=3, hashable=False, qmi_names=None, big=False):
    qn = qmi_names or ["QMI_Exception", "QMI_TimeoutException", "QMI_InstrumentException"]
    if depth <= 0 or rng.random() < 0.45:
        return gen_scalar(rng, hashable)
    r = rng.random()
    n = rng.choice([0, 1, 2, 2, 3, 5])
    if hashable:
        if r < 0.5:
            return ["tuple", [gen_value(rng, depth - 1, True, qn) for _ in range(n)]]
        if r < 0.7:
            return ["frozenset", _uniq_specs([gen_scalar(rng, True) for _ in range(n)])]
        if r < 0.85:
            return ["nt", "Point", [gen_value(rng, depth - 1, True, qn), gen_value(rng, depth - 1, True, qn)]]
        return gen_scalar(rng, True)
    if r < 0.16:
        return ["list", [gen_value(rng, depth - 1, False, qn) for _ in range(n)]]
    if r < 0.30:
        return ["tuple", [gen_value(rng, depth - 1, False, qn) for _ in range(n)]]
    if r < 0.44:
        return ["dict", _uniq_items([[gen_value(rng, min(depth - 1, 1), True, qn), gen_value(rng, depth - 1, False, qn)] for _ in range(n)])]
    if r < 0.50:
        return ["set", _uniq_specs([gen_scalar(rng, True) for _ in range(n)])]
    if r < 0.55:
        return ["frozenset", _uniq_specs([gen_scalar(rng, True) for _ in range(n)])]
    if r < 0.72:
        return gen_nd(rng, big)
    if r < 0.78:
        if rng.random() < 0.5:
            return ["nt", "Point", [gen_value(rng, depth - 1, False, qn), gen_value(rng, depth - 1, False, qn)]]
        return ["nt", "Reading", [["int", str(rng.randint(0, 9))], gen_value(rng, depth - 1, False, qn), ["str", _gen_str(rng)]]]
    if r < 0.84:
        return ["dc", "Sample", [["str", _gen_str(rng)], gen_value(rng, depth - 1, False, qn), gen_value(rng, depth - 1, False, qn)]]
    if r < 0.93:
        return gen_exc(rng, depth, qn)
    if r < 0.96:
        return ["shared", gen_value(rng, depth - 1, False, qn)]
    if r < 0.98:
        return ["selfref", gen_scalar(rng)]
    return ["unpicklable", rng.choice(["lambda", "localclass", "generator", "memoryview", "twoarg-exc", "module"])]


def _key(spec):
    """hash/eq class of the built value, to keep dict keys / set elements distinct *as Python sees them*"""
    try:
        v = build(spec)
        return ("h", hash(v), v if not isinstance(v, float) or v == v else "nan")
    except Exception:
        return ("s", repr(spec))


def _uniq_specs(specs):
    out, seen = [], []
    for s in specs:
        v = build(s)
        if any(v == w for w in seen):
            continue
        seen.append(v)
        out.append(s)
    return out


def _uniq_items(items):
    out, seen = [], []
    for k, v in items:
        kv = build(k)
        if any(kv == w for w in seen):
            continue
        seen.append(kv)
        out.append([k, v])
    return out


# ---------------------------------------------------------------------------
# comparison: "equal value of the same type" / "exception of the same type with the same arguments"
# ---------------------------------------------------------------------------

def same(a, b, memo=None) -> bool:
    if memo is None:
        memo = set()
    if type(a) is not type(b):
        return False
    key = (id(a), id(b))
    if key in memo:
        return True
    t = type(a)
    if t in (int, bool, str, bytes, type(None), range, type(Ellipsis)):
        return a == b
    if t is bytearray:
        return bytes(a) == bytes(b)
    if t in (float, complex):
        return repr(a) == repr(b)
    memo.add(key)
    if isinstance(a, np.ndarray):
        if a.dtype != b.dtype or a.shape != b.shape:
            return False
        if a.dtype.hasobject:
            return all(same(x, y, memo) for x, y in zip(a.ravel().tolist(), b.ravel().tolist()))
        return np.ascontiguousarray(a).tobytes() == np.ascontiguousarray(b).tobytes()
    if isinstance(a, np.generic):
        return a.dtype == b.dtype and a.tobytes() == b.tobytes()
    if isinstance(a, enum.Enum):
        return a is b
    if isinstance(a, BaseException):
        if not same(a.args, b.args, memo):
            return False
        da = {k: v for k, v in vars(a).items()}
        db = {k: v for k, v in vars(b).items()}
        return sorted(da) == sorted(db) and all(same(da[k], db[k], memo) for k in da)
    if isinstance(a, (list, tuple)):
        return len(a) == len(b) and all(same(x, y, memo) for x, y in zip(a, b))
    if isinstance(a, dict):
        return len(a) == len(b) and all(same(k1, k2, memo) and same(v1, v2, memo)
                                        for (k1, v1), (k2, v2) in zip(a.items(), b.items()))
    if isinstance(a, (set, frozenset)):
        if len(a) != len(b):
            return False
        ka = sorted(a, key=lambda x: (type(x).__name__, repr(x)))
        kb = sorted(b, key=lambda x: (type(x).__name__, repr(x)))
        return all(same(x, y, memo) for x, y in zip(ka, kb))
    if dataclasses.is_dataclass(a):
        return all(same(getattr(a, f.name), getattr(b, f.name), memo) for f in dataclasses.fields(a))
    try:
        return bool(a == b) and repr(a) == repr(b)
    except Exception:
        return False


def diff_clause(a, b) -> str:
    """why two values differ (for failure signatures)"""
    if type(a) is not type(b):
        return "type"
    if isinstance(a, np.ndarray):
        if a.dtype != b.dtype:
            return "dtype"
        if a.shape != b.shape:
            return "shape"
        return "array-content"
    if isinstance(a, BaseException):
        if not same(a.args, b.args):
            return "exc-args"
        return "exc-attrs"
    return "value"


def pickle_roundtrips(v) -> bool:
    """Is `v` inside the property's quantifier (plain pickle round-trips it with equality)?"""
    try:
        w = pickle.loads(pickle.dumps(v))
    except BaseException as e:  # noqa
        if type(e).__name__ in ("SchedAbort", "Deadlock", "StepBudget"):
            raise
        return False
    return same(v, w)


def kind_of(spec) -> str:
    k = spec[0]
    if k == "nd":
        return f"nd:{spec[1]}"
    if k in ("nt", "enum", "dc", "exc", "unpicklable"):
        return f"{k}:{spec[1]}"
    return k


def walk_kinds(spec, out):
    out.append(kind_of(spec))
    k = spec[0]
    if k in ("list", "tuple", "set", "frozenset"):
        for s in spec[1]:
            walk_kinds(s, out)
    elif k == "dict":
        for a, b in spec[1]:
            walk_kinds(a, out)
            walk_kinds(b, out)
    elif k in ("nt", "dc"):
        for s in spec[2]:
            walk_kinds(s, out)
    elif k == "exc":
        for s in spec[2]:
            walk_kinds(s, out)
        for _, s in spec[3]:
            walk_kinds(s, out)
    elif k in ("shared", "selfref"):
        walk_kinds(spec[1], out)


# ---------------------------------------------------------------------------
# shrinking
# ---------------------------------------------------------------------------

def shrink_candidates(spec):
    """simpler specs, most aggressive first"""
    k = spec[0]
    out = []
    if k != "none":
        out.append(["none"])
    if k in ("list", "tuple", "set", "frozenset"):
        for s in spec[1]:
            out.append(s)
        for i in range(len(spec[1])):
            out.append([k, spec[1][:i] + spec[1][i + 1:]])
        for i, s in enumerate(spec[1]):
            for c in shrink_candidates(s)[:4]:
                if k in ("set", "frozenset") and c[0] in ("list", "dict", "set", "bytearray", "nd"):
                    continue
                out.append([k, spec[1][:i] + [c] + spec[1][i + 1:]])
    elif k == "dict":
        for a, b in spec[1]:
            out.append(b)
        for i in range(len(spec[1])):
            out.append([k, spec[1][:i] + spec[1][i + 1:]])
        for i, (a, b) in enumerate(spec[1]):
            for c in shrink_candidates(b)[:4]:
                out.append([k, spec[1][:i] + [[a, c]] + spec[1][i + 1:]])
    elif k in ("nt", "dc"):
        for s in spec[2]:
            out.append(s)
        for i, s in enumerate(spec[2]):
            for c in shrink_candidates(s)[:4]:
                if spec[1] == "Key":
                    continue
                out.append([k, spec[1], spec[2][:i] + [c] + spec[2][i + 1:]])
    elif k == "exc":
        if spec[3]:
            out.append([k, spec[1], spec[2], [], spec[4] if len(spec) > 4 else []])
        if spec[1] not in ("UnicodeDecodeError",):
            for i in range(len(spec[2])):
                out.append([k, spec[1], spec[2][:i] + spec[2][i + 1:], spec[3], spec[4] if len(spec) > 4 else []])
            for i, s in enumerate(spec[2]):
                for c in shrink_candidates(s)[:3]:
                    out.append([k, spec[1], spec[2][:i] + [c] + spec[2][i + 1:], spec[3], spec[4] if len(spec) > 4 else []])
    elif k in ("shared", "selfref"):
        out.append(spec[1])
    elif k == "nd":
        if spec[2] not in ([], [1], [3]):
            out.append(["nd", spec[1], [3], spec[3], "C"])
        if spec[4] != "C":
            out.append(["nd", spec[1], spec[2], spec[3], "C"])
        if spec[1] != "int32":
            out.append(["nd", "int32", spec[2], spec[3], spec[4]])
    elif k == "int" and spec[1] not in ("0", "1"):
        out += [["int", "0"], ["int", "1"]]
    elif k == "str" and spec[1]:
        out += [["str", []], ["str", spec[1][: len(spec[1]) // 2]], ["str", [97]]]
    elif k in ("bytes", "bytearray") and spec[1]:
        out += [[k, ""], [k, spec[1][: (len(spec[1]) // 4) * 2]]]
    elif k == "float" and spec[1] != "0.0":
        out.append(["float", "0.0"])
    return out
