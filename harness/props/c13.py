"""C13 — instrument transports never lose, duplicate or reorder bytes.

Model: lean/QmiModel/Model/Transport.lean; theorems: Props/C13.lean; driver: Drv/C13.lean.

Tie: the real `QMI_TcpTransport`, `QMI_UdpTransport`, `QMI_SerialTransport` are run in-process against a
scripted socket / `serial.Serial` stand-in and a virtual `time.monotonic` (module attributes `socket`,
`serial`, `time` of `qmi.core.transport` are replaced for the duration of the run, nothing in the repo is
edited).  The device is an oracle script of receive results (`d<elapsed>:<hex>`, `t<elapsed>`, `e<elapsed>`);
every op's result, exception class, the exact device interactions (settimeout values, receive sizes),
the virtual clock, the unconsumed script length and the content of `_read_buffer` are diffed against the
Lean driver.  The property oracle (`_oracle`) is evaluated on the implementation trace alone.

One tick of virtual time = 1/8 s (all clock values and time-outs are exact binary fractions, so the float
deadline arithmetic of the code is exact and the model can use integers).
"""
from __future__ import annotations

import itertools
from typing import Optional

from harness import core
from harness.core import Broken, Ctx, Failure, LeanDriver, Prop, Result, diff_streams

TICK = 0.125
KINDS = ("tcp", "udp", "serial")


class ScriptExhausted(BaseException):
    """The oracle script ran out: the real call would block for ever."""


class Budget(BaseException):
    """The code under test did more device / clock calls than any terminating run could."""


# ---------------------------------------------------------------------------
# scripted device
# ---------------------------------------------------------------------------

class Device:
    """The instrument side: oracle script + virtual clock + record of what was handed to the transport."""

    def __init__(self, kind: str):
        self.kind = kind
        self.script: list = []          # [elapsed, 'd'|'t'|'e', bytes]
        self.ticks = 0
        self.io: list = []              # device interactions of the current op
        self.calls = 0                  # device touches (ever)
        self.clock_calls = 0
        self.given = bytearray()        # bytes handed to the transport during the current op
        self.dropped = bytearray()      # bytes the OS threw away during the current op (oversize datagram, flush)
        self.lost_dgrams: list = []     # (datagram length, receive size asked for) of datagrams lost during the current op
        self.objects = 0                # sockets / serial ports created
        self.open_plan: list = []       # outcomes of the coming open() attempts: 'ok' | 'to' | 'early' | 'late'
        self.cur_open = "ok"            # outcome of the open() attempt under way (UDP: chosen at gethostbyname)
        self.written: list = []         # payloads handed to the device during the current op, one entry per call
        self.last_answer = "idle"       # 'data' if the last receive handed out bytes, else 'idle' (time-out / EOF / empty / lost)

    def next_open(self) -> str:
        self.cur_open = self.open_plan.pop(0) if self.open_plan else "ok"
        return self.cur_open

    # virtual time ---------------------------------------------------------
    def monotonic(self) -> float:
        self.clock_calls += 1
        if self.clock_calls > 200000:
            raise Budget("clock")
        return self.ticks * TICK

    def sleep(self, dt: float) -> None:
        self.clock_calls += 1
        if self.clock_calls > 200000:
            raise Budget("clock")
        self.ticks += max(0, int(round(dt / TICK)))

    def touch(self, tag: str) -> None:
        self.calls += 1
        self.io.append(tag)
        if self.calls > 20000:
            raise Budget("device")

    def pop(self, datagram: bool, size: int):
        """-> ('d', bytes) | ('t',) | ('e',) | ('oserr',) ; raises ScriptExhausted"""
        if not self.script:
            raise ScriptExhausted()
        e, k, bs = self.script[0]
        self.ticks += e
        self.last_answer = "idle"
        if k != "d":
            self.script.pop(0)
            return (k,)
        if len(bs) <= size:
            self.script.pop(0)
            self.given += bs
            self.last_answer = "data" if bs else "idle"
            return ("d", bytes(bs))
        if datagram:
            self.script.pop(0)
            self.dropped += bs
            self.lost_dgrams.append((len(bs), size))
            return ("oserr",)
        self.script[0] = [0, "d", bs[size:]]
        self.given += bs[:size]
        self.last_answer = "data" if size else "idle"
        return ("d", bytes(bs[:size]))


def _fmt_t(v) -> str:
    if v is None:
        return "st:none"
    x = v / TICK
    if x == int(x):
        return f"st:{int(x)}"
    return f"st:{v!r}"


class FakeSocket:
    def __init__(self, dev: Device, *a, **kw):
        self.dev = dev
        dev.objects += 1
        dev.touch("mk")
        self.tmo = None
        self.live = False
        self.closed = False

    def settimeout(self, v):
        if not self.live:          # connect timeout during open(): not part of the read path
            return
        self.dev.touch(_fmt_t(v))
        if v is not None and v < 0:
            raise ValueError("Timeout value out of range")
        self.tmo = v

    def setsockopt(self, *a):
        pass

    def connect(self, addr):
        import socket as real_socket
        self.dev.touch("cn")
        r = self.dev.next_open()
        if r == "to":
            raise real_socket.timeout("timed out")
        if r != "ok":
            raise ConnectionRefusedError(111, "Connection refused")
        self.live = True

    def bind(self, addr):
        self.dev.touch("bd")
        if self.dev.cur_open != "ok":          # chosen when gethostbyname ran
            raise OSError(98, "Address already in use")
        self.live = True

    def _recv(self, n: int, tag: str) -> bytes:
        import socket as real_socket
        self.dev.touch(f"{tag}:{n}")
        if self.closed:
            raise OSError(9, "Bad file descriptor")
        r = self.dev.pop(self.dev.kind == "udp", n)
        if r[0] == "d":
            return r[1]
        if r[0] == "e":
            return b""
        if r[0] == "oserr":
            raise OSError(90, "Message too long")
        if self.tmo == 0:
            raise BlockingIOError(11, "Resource temporarily unavailable")
        raise real_socket.timeout("timed out")

    def recvfrom(self, n: int):
        return self._recv(n, "rf"), ("127.0.0.1", 5025)

    def recv(self, n: int) -> bytes:
        return self._recv(n, "rv")

    def sendall(self, data):
        self.dev.touch(f"sa:{len(data)}")
        if self.closed:
            raise OSError(9, "Bad file descriptor")
        self.dev.written.append(bytes(data))

    def sendto(self, data, addr):
        self.dev.touch(f"sd:{len(data)}")
        if self.closed:
            raise OSError(9, "Bad file descriptor")
        self.dev.written.append(bytes(data))
        return len(data)

    def close(self):
        self.dev.touch("cl")
        self.closed = True


class FakeSerial:
    def __init__(self, dev: Device, *a, **kw):
        self.dev = dev
        if dev.next_open() != "ok":
            import serial as real_serial
            raise real_serial.SerialException("could not open port")
        dev.objects += 1
        dev.touch("mk")
        self.timeout = kw.get("timeout")
        self.closed = False

    @property
    def in_waiting(self) -> int:
        self.dev.touch("iw")
        s = self.dev.script
        if s and s[0][0] == 0 and s[0][1] == "d":
            return len(s[0][2])
        return 0

    def read(self, size: int = 1) -> bytes:
        self.dev.touch(f"rd:{size}")
        if size == 0:
            return b""
        r = self.dev.pop(False, size)
        return r[1] if r[0] == "d" else b""

    def reset_input_buffer(self) -> None:
        self.dev.touch("rs")
        s = self.dev.script
        while s and s[0][0] == 0 and s[0][1] == "d":
            self.dev.dropped += s.pop(0)[2]

    def write(self, data):
        self.dev.touch(f"wr:{len(data)}")
        self.dev.written.append(bytes(data))
        return len(data)

    def close(self):
        self.dev.touch("cl")
        self.closed = True


def _fake_gethostbyname(dev: Device, host: str) -> str:
    import socket as real_socket
    dev.touch("gh")
    if dev.next_open() == "early":
        raise real_socket.gaierror(-2, "Name or service not known")
    return "127.0.0.1"


class _Shim:
    """A module stand-in: forwards everything to the real module except the overridden names."""

    def __init__(self, real, **over):
        self.__dict__["_real"] = real
        self.__dict__.update(over)

    def __getattr__(self, name):
        return getattr(self.__dict__["_real"], name)


class _Patched:
    """Replace `socket`, `serial`, `time` inside qmi.core.transport; `cur[0]` is the device of the running scenario."""

    def __enter__(self):
        import qmi.core.transport as T
        import socket as real_socket
        import serial as real_serial
        import time as real_time
        self.T = T
        self.saved = (T.socket, T.serial, T.time)
        cur = self.cur = [None]
        T.socket = _Shim(real_socket, socket=lambda *a, **kw: FakeSocket(cur[0], *a, **kw),
                         gethostbyname=lambda h: _fake_gethostbyname(cur[0], h))
        T.serial = _Shim(real_serial, Serial=lambda *a, **kw: FakeSerial(cur[0], *a, **kw))
        T.time = _Shim(real_time, monotonic=lambda: cur[0].monotonic(), sleep=lambda dt: cur[0].sleep(dt))
        return self

    def __exit__(self, *a):
        self.T.socket, self.T.serial, self.T.time = self.saved


class _DebugLogging:
    """The library's loggers at DEBUG (null handler, nothing printed), restored afterwards: optional debug output of
    the code under test must not change what the transport does with the bytes."""

    def __enter__(self):
        import logging
        self.lg = logging.getLogger("qmi")
        self.old = (self.lg.level, self.lg.propagate)
        self.h = logging.NullHandler()
        self.lg.addHandler(self.h)
        self.lg.setLevel(logging.DEBUG)
        self.lg.propagate = False
        self.sub = [(l, l.level) for n, l in logging.root.manager.loggerDict.items()
                    if isinstance(l, logging.Logger) and n.startswith("qmi.")]
        for l, _ in self.sub:
            l.setLevel(logging.NOTSET)
        return self

    def __exit__(self, *a):
        self.lg.removeHandler(self.h)
        self.lg.setLevel(self.old[0])
        self.lg.propagate = self.old[1]
        for l, lv in self.sub:
            l.setLevel(lv)


def _consts(T, kind):
    if kind == "tcp":
        return int(T.QMI_TcpTransport.MIN_PACKET_SIZE), int(T.QMI_TcpTransport.MAX_PACKET_SIZE)
    if kind == "udp":
        return int(T.QMI_UdpTransport.MIN_PACKET_SIZE), int(T.QMI_UdpTransport.MAX_PACKET_SIZE)
    return 0, 0


def _hx(b) -> str:
    return bytes(b).hex() or "-"


def _tt(t) -> str:
    return "none" if t is None else str(t)


def _ev_str(ev) -> str:
    e, k, h = ev
    return f"d{e}:{h or '-'}" if k == "d" else f"{k}{e}"


# ---------------------------------------------------------------------------
# running one scenario on the real code
# ---------------------------------------------------------------------------

def _run_impl(P: _Patched, sc: dict):
    """sc = {kind, steps}; steps: ["feed", [[e,k,hex]…]] | ["open"] | ["close"] | ["discard"] |
    ["read", n, t] | ["until", hex, t] | ["rut", n, t]   (t = None | int ticks).
    Returns (op lines, output lines, trace for the oracle)."""
    T = P.T
    kind = sc["kind"]
    dev = Device(kind)
    P.cur[0] = dev
    if kind == "tcp":
        tr = T.QMI_TcpTransport("127.0.0.1", 5025)
    elif kind == "udp":
        tr = T.QMI_UdpTransport("127.0.0.1", 5025)
    else:
        tr = T.QMI_SerialTransport("/dev/ttyS0", 9600)
    mn, mx = _consts(T, kind)
    lines = [f"init {kind} {mn} {mx}"]
    outs = ["ok"]
    trace = []
    for st in sc["steps"]:
        op = st[0]
        if op == "feed":
            for e, k, h in st[1]:
                dev.script.append([int(e), k, bytes.fromhex(h) if k == "d" else b""])
            lines.append("feed " + " ".join(_ev_str(ev) for ev in st[1]) if st[1] else "feed")
            outs.append("ok")
            trace.append({"op": "feed"})
            continue
        if op == "planopen":
            dev.open_plan.append(st[1])
            lines.append(f"planopen {st[1]}")
            outs.append("ok")
            trace.append({"op": "planopen", "plan": st[1]})
            continue
        dev.io = []
        dev.written = []
        dev.given = bytearray()
        dev.dropped = bytearray()
        dev.lost_dgrams = []
        calls0, objs0 = dev.calls, dev.objects
        clk0 = dev.ticks
        slice0 = max([e for e, _, _ in dev.script], default=0)     # longest wait of any single device read still to come
        ret, exc = None, None
        try:
            if op == "open":
                lines.append("open")
                tr.open()
            elif op == "close":
                lines.append("close")
                tr.close()
            elif op == "discard":
                lines.append("discard")
                tr.discard_read()
            elif op == "write":
                lines.append(f"write {st[1] or '-'}")
                tr.write(bytes.fromhex(st[1]))
            elif op == "read":
                lines.append(f"read {st[1]} {_tt(st[2])}")
                ret = tr.read(st[1], None if st[2] is None else st[2] * TICK)
            elif op == "until":
                lines.append(f"until {st[1] or '-'} {_tt(st[2])}")
                ret = tr.read_until(bytes.fromhex(st[1]), None if st[2] is None else st[2] * TICK)
            elif op == "rut":
                lines.append(f"rut {st[1]} {_tt(st[2])}")
                ret = tr.read_until_timeout(st[1], None if st[2] is None else st[2] * TICK)
            else:
                raise ValueError(f"bad step {st!r}")
        except (ScriptExhausted, Budget) as e:
            exc = type(e).__name__
        except Exception as e:  # noqa
            # OS-level errors the code passes through unchanged (ConnectionRefusedError, gaierror, SerialException …)
            exc = "OSError" if isinstance(e, OSError) else type(e).__name__
        if exc is not None:
            o = f"exc:{exc}"
        elif ret is None:
            o = "none"
        elif isinstance(ret, (bytes, bytearray)):
            o = "ret:" + _hx(ret)
        else:
            o = f"ret-type:{type(ret).__name__}"
        buf = bytes(getattr(tr, "_read_buffer", b""))
        outs.append(f"{o} io={','.join(dev.io) or '-'} clk={dev.ticks} left={len(dev.script)} buf={_hx(buf)} "
                    f"open={'true' if getattr(tr, '_is_open', None) is True else 'false'}")
        trace.append({"op": op, "args": st[1:], "ret": None if ret is None else bytes(ret), "exc": exc,
                      "touched": dev.calls - calls0, "made": dev.objects - objs0,
                      "given": bytes(dev.given), "dropped": bytes(dev.dropped), "buf": buf,
                      "lost_dgrams": list(dev.lost_dgrams), "fit_limit": min(mn, mx),
                      "written": list(dev.written), "flag": getattr(tr, "_is_open", None),
                      "clk0": clk0, "clk1": dev.ticks, "slice": slice0, "io": list(dev.io),
                      "last_answer": dev.last_answer,
                      "head_ready": bool(dev.script and dev.script[0][0] == 0 and dev.script[0][1] == "d" and dev.script[0][2])})
        if exc == "Budget":
            break
    return lines, outs, trace


# ---------------------------------------------------------------------------
# the property, evaluated on an implementation trace (independent of the Lean driver)
# ---------------------------------------------------------------------------

_ALLOWED_EXC = {"QMI_TimeoutException", "QMI_EndOfInputException", "QMI_InvalidOperationException", "ScriptExhausted"}


def _oracle(kind: str, trace) -> Optional[tuple]:
    """Returns None or (clause, step index, detail).

    `pending` = bytes the device has handed to the transport that the caller has neither been given nor
    discarded.  The property says: whatever a call returns is the front of `pending` (nothing lost, duplicated,
    reordered); a call that raises leaves `pending` alone; the read buffer holds exactly `pending`."""
    pending = bytearray()
    is_open = False
    soft = None      # a broken per-call size contract does not invalidate the accounting: keep checking
    plan: list = []  # what the OS will answer to the coming open() attempts
    for i, ev in enumerate(trace):
        op = ev["op"]
        if op == "feed":
            continue
        if op == "planopen":
            plan.append(ev["plan"])
            continue
        exc, ret = ev["exc"], ev["ret"]
        if exc == "Budget":
            return ("does-not-terminate", i, op)
        if op == "open":
            if is_open:
                if exc != "QMI_InvalidOperationException" or ev["made"]:
                    return ("open-not-refused-when-open", i, f"exc={exc} made={ev['made']}")
            else:
                planned = plan.pop(0) if plan else "ok"
                if planned == "ok":
                    if exc is not None:
                        return ("open-refused-when-closed", i, exc)
                    is_open = True
                else:
                    # the OS refuses (connect time-out / refused / name lookup / bind / port busy): the call must
                    # raise, the transport stays closed and can be opened again
                    if exc is None:
                        return ("failed-open-reported-success", i, planned)
                    if exc not in ("QMI_TimeoutException", "OSError"):
                        return ("failed-open-wrong-exception", i, f"{planned}: {exc}")
                    io = ev.get("io", [])
                    if io.count("mk") != io.count("cl"):
                        return ("failed-open-leaves-socket-open", i,
                                f"{planned}: device calls {','.join(io)} (created {io.count('mk')}, closed {io.count('cl')})")
                if ev["buf"] == b"":
                    pending.clear()          # dropping the leftover of the previous session is a discard
        elif op == "close":
            if is_open:
                if exc is not None:
                    return ("close-refused-when-open", i, exc)
                is_open = False
            elif exc != "QMI_InvalidOperationException":
                return ("close-not-refused-when-closed", i, f"exc={exc}")
        else:
            if not is_open:
                if ev["touched"]:
                    return ("closed-touches-device", i, f"{op}: {ev['touched']} device calls")
                if exc is None and op == "write":
                    return ("closed-write-not-refused", i, op)
                if exc is None and ret is None and op != "discard":
                    return ("closed-wrong-result", i, op)
                if exc is not None and exc != "QMI_InvalidOperationException":
                    return ("closed-wrong-exception", i, f"{op}: {exc}")
                if exc is None and op == "discard":
                    return ("closed-discard-not-refused", i, op)
            elif exc == "QMI_InvalidOperationException":
                return ("open-transport-refused", i, op)
            pending += ev["given"]
            # A datagram that fits the transport's packet size must never be lost or cut, whatever is already
            # buffered: the receive size asked of the OS may not drop below the packet size.
            if kind == "udp":
                for (dlen, asked) in ev.get("lost_dgrams", ()):
                    if dlen <= ev.get("fit_limit", 0):
                        return ("datagram-that-fits-packet-size-lost-or-truncated", i,
                                f"{op}: a {dlen}-byte datagram (packet size {ev['fit_limit']}) was received with size {asked} "
                                f"while {len(pending)} bytes were buffered: the OS drops it or cuts it to {asked} bytes")
            if op == "write" and is_open and exc is not None:
                return ("write-failed-on-open-transport", i, exc)
            if exc is not None:
                ok = exc in _ALLOWED_EXC or (exc == "QMI_RuntimeException" and kind == "udp" and ev["dropped"]
                                             and all(d > ev.get("fit_limit", 0) for d, _ in ev.get("lost_dgrams", ()))) \
                    or (exc == "ValueError" and ev["args"] and ev["args"][-1] is not None and ev["args"][-1] < 0)
                if not ok:
                    return ("unexpected-exception", i, f"{op}: {exc}")
                if op == "discard" and exc == "ScriptExhausted" and is_open:
                    pending.clear()      # the discard was under way when the finite script ended (harness artefact)
            elif op == "discard":
                pending.clear()
                # discard_read leaves nothing of what had arrived: it may stop only when the device says "nothing more"
                # (time-out / EOF / empty), not after a receive that still handed out data while more is waiting
                if is_open and ev.get("head_ready") and (kind == "serial" or ev.get("last_answer") == "data"):
                    return ("discard-leaves-arrived-data-behind", i,
                            "discard_read returned while the device still had data ready (the last receive was answered with data)")
            elif op == "write":
                if is_open:
                    data = bytes.fromhex(ev["args"][0])
                    if ev.get("written") != [data]:
                        return ("write-not-handed-to-device-whole", i,
                                f"wrote {_hx(data)}, device got {[_hx(w) for w in ev.get('written', [])]}")
            else:
                if not isinstance(ret, bytes):
                    return ("result-not-bytes", i, op)
                if bytes(pending[:len(ret)]) != ret:
                    return ("returned-bytes-not-next-in-stream", i,
                            f"{op}: returned {_hx(ret)} but the undelivered stream starts {_hx(pending[:len(ret) + 4])}")
                del pending[:len(ret)]
                if op == "read" and len(ret) != ev["args"][0]:
                    return ("read-not-exactly-n", i, f"n={ev['args'][0]} got {len(ret)}")
                if op == "rut" and len(ret) > ev["args"][0]:
                    soft = soft or ("rut-more-than-n", i, f"n={ev['args'][0]} got {len(ret)}")
                if op == "until":
                    term = bytes.fromhex(ev["args"][0])
                    if not ret.endswith(term):
                        return ("until-not-terminated", i, f"{_hx(ret)} does not end with {_hx(term)}")
                    if ret.find(term) != len(ret) - len(term):
                        return ("until-not-shortest", i, f"{_hx(ret)} has an earlier terminator {_hx(term)}")
        # serial deadline contract: back within time-out + one device slice; a non-blocking read does not wait
        if kind == "serial" and op in ("read", "until", "rut") and ev["args"][-1] is not None:
            t = ev["args"][-1]
            took = ev["clk1"] - ev["clk0"]
            if took > max(t, 0) + ev["slice"]:
                return ("serial-call-blocks-longer-than-timeout-plus-slice", i,
                        f"{op} timeout={t} ticks, slice={ev['slice']}: took {took} ticks")
            if op == "read" and t <= 0 and took != 0:
                return ("serial-nonblocking-read-waited", i, f"read timeout={t}: took {took} ticks")
        if ev.get("flag") is not is_open:
            return ("open-flag-differs-from-state-machine", i, f"{op}: _is_open={ev.get('flag')!r}, expected {is_open}")
        if ev["buf"] != bytes(pending):
            how = "after-timeout" if exc == "QMI_TimeoutException" else ("after-exception" if exc else "after-return")
            return (f"buffer-differs-from-undelivered-{how}", i,
                    f"{op}: buffer {_hx(ev['buf'])} undelivered {_hx(pending)}")
    return soft


def _short(steps) -> str:
    """steps for a one-line summary: long hex strings abbreviated (the replay file keeps them in full)"""
    def h(x):
        return x if not isinstance(x, str) or len(x) <= 48 else f"{x[:24]}…({len(x) // 2} bytes)"
    out = []
    for st in steps:
        if st[0] == "feed":
            out.append(["feed", [[e, k, h(d)] for e, k, d in st[1]]])
        else:
            out.append([h(a) for a in st])
    return repr(out)


def _signature(kind: str, trace, clause) -> str:
    ev = trace[clause[1]]
    return f"{clause[0]}:{kind}:{ev['op']}"


def _check(P: _Patched, sc: dict):
    lines, outs, trace = _run_impl(P, sc)
    return _oracle(sc["kind"], trace), trace


def _shrink(P: _Patched, sc: dict, clause_name: str) -> dict:
    def bad(c):
        r, _ = _check(P, c)
        return r is not None and r[0] == clause_name

    steps = list(sc["steps"])
    changed = True
    while changed:
        changed = False
        i = 0
        while i < len(steps):
            cand = steps[:i] + steps[i + 1:]
            if cand and bad({"kind": sc["kind"], "steps": cand}):
                steps, changed = cand, True
            else:
                i += 1
        # thin out feed entries
        for i, st in enumerate(steps):
            if st[0] != "feed":
                continue
            j = 0
            while j < len(st[1]):
                cand_feed = st[1][:j] + st[1][j + 1:]
                cand = steps[:i] + [["feed", cand_feed]] + steps[i + 1:]
                if bad({"kind": sc["kind"], "steps": cand}):
                    steps, st, changed = cand, cand[i], True
                else:
                    j += 1
    return {"kind": sc["kind"], "steps": steps}


# ---------------------------------------------------------------------------
# generators
# ---------------------------------------------------------------------------

TERMS = [b"\n", b"\r\n", b"ab", b"aab", b"aa", b"aba", b"\n\n", b"abab", b"b", b";\r\n"]


_BINARY = [False]       # set while the debug-logging slice is generated: payloads from the full byte range
_UTF8_BITS = ["é".encode(), "€".encode(), "😀".encode(), b"\x80", b"\xc3", b"\xe2\x82", b"\xff", b"\xf0\x9f", b"\xc0\xaf", b"\n", b"a"]


def _gen_binary(rng, n: int) -> bytes:
    """full-range bytes: random 0..255, valid multibyte UTF-8 characters (so that cuts split them), lone
    continuation / lead bytes and other invalid UTF-8"""
    out = bytearray()
    while len(out) < n:
        r = rng.random()
        if r < 0.5:
            out += rng.choice(_UTF8_BITS)
        elif r < 0.9:
            out.append(rng.randrange(256))
        else:
            out.append(rng.choice([0x00, 0x7f, 0x80, 0xbf, 0xc2, 0xfe, 0xff]))
    return bytes(out[:n])


def _gen_stream(rng, n: int) -> bytes:
    style = rng.random()
    if _BINARY[0] or style < 0.08:
        return _gen_binary(rng, n)
    if style < 0.5:
        alpha = b"ab\n\r"
    elif style < 0.8:
        alpha = b"ab"
    else:
        alpha = b"ab\n\r;x\x00\xff"
    return bytes(rng.choices(alpha, k=n))


def _split(rng, data: bytes, mode: str):
    if not data:
        return []
    if mode == "single":
        return [data[i:i + 1] for i in range(len(data))]
    if mode == "whole":
        return [data]
    k = {"few": 2, "some": 5, "many": 12}.get(mode, 4)
    cuts = sorted(set(rng.randint(1, max(1, len(data) - 1)) for _ in range(rng.randint(1, k)))) if len(data) > 1 else []
    out, prev = [], 0
    for c in cuts + [len(data)]:
        if c > prev:
            out.append(data[prev:c])
            prev = c
    return out


def _gen_script(rng, kind: str, big: bool):
    """A device script: one stream cut by the PRNG, with delays, time-outs, empty reads and EOF sprinkled in."""
    n = rng.choice([0, 1, 2, 3, 5, 8, 13, 20, 30, 45]) if not big else rng.choice([600, 1100, 1500])
    data = _gen_stream(rng, n)
    mode = rng.choice(["single", "whole", "few", "some", "many", "some"]) if not big else rng.choice(["whole", "few", "some"])
    chunks = _split(rng, data, mode)
    evs = []
    p_to = rng.choice([0.0, 0.15, 0.4])
    p_zero = rng.choice([0.2, 0.6, 1.0])
    for c in chunks:
        while rng.random() < p_to:
            evs.append([rng.choice([0, 1, 3, 8, 8, 20]), "t", ""])
        if rng.random() < 0.04:
            evs.append([rng.choice([0, 2]), "d", ""])          # empty read / empty datagram
        evs.append([0 if rng.random() < p_zero else rng.choice([1, 2, 5, 8, 13]), "d", c.hex()])
    if kind == "udp" and rng.random() < 0.03:
        evs.insert(rng.randint(0, len(evs)), [rng.choice([0, 1]), "d", _gen_stream(rng, rng.choice([4097, 5000])).hex()])
    tail = rng.random()
    for _ in range(rng.choice([0, 2, 6, 12, 12])):
        evs.append([rng.choice([0, 1, 8, 30]), "t", ""])
    if tail < 0.25 and kind != "serial":
        evs.append([rng.choice([0, 3]), "e", ""])
        if rng.random() < 0.5:
            evs.append([0, "e", ""])
    return evs, data


def _gen_t(rng):
    r = rng.random()
    if r < 0.18:
        return None
    if r < 0.40:
        return 0
    if r < 0.85:
        return rng.choice([1, 2, 3, 5, 8, 13, 21])
    if r < 0.93:
        return rng.choice([100, 1000])
    return rng.choice([-1, -8])


def _gen_open(rng, steps: list, p_fail: float) -> None:
    """an open(), sometimes preceded by attempts the OS refuses (time-out / before the device object exists / after it),
    with calls on the still-closed transport in between, then the successful retry"""
    if rng.random() < p_fail:
        fails = [rng.choice(["to", "early", "late"]) for _ in range(rng.choice([1, 1, 2, 3]))]
        for f in fails:
            steps.append(["planopen", f])
        if rng.random() < 0.2:
            steps.append(["planopen", "ok"])
        for _ in fails:
            steps.append(["open"])
            if rng.random() < 0.5:
                steps.append(rng.choice([["close"], ["read", 1, 0], ["write", "00"], ["discard"], ["rut", 1, 1],
                                         ["until", "0a", 0]]))
        if rng.random() < 0.9:
            steps.append(["open"])
    else:
        steps.append(["open"])


def _gen_scenario(rng, kind: str, max_ops: int) -> dict:
    big = rng.random() < 0.04
    evs, data = _gen_script(rng, kind, big)
    steps = []
    # feed: everything up-front, or in instalments between the ops
    instalments = 1 if rng.random() < 0.5 else rng.randint(2, 4)
    cuts = sorted(rng.randint(0, len(evs)) for _ in range(instalments - 1))
    parts = [evs[a:b] for a, b in zip([0] + cuts, cuts + [len(evs)])]
    if rng.random() < 0.1:
        steps.append(["read", rng.randint(0, 3), _gen_t(rng)])       # before open
    if rng.random() < 0.03:
        steps.append(["close"])
    steps.append(["feed", parts[0]])
    _gen_open(rng, steps, 0.12)
    nops = rng.randint(1, max_ops)
    later = parts[1:]
    terms = [rng.choice(TERMS) for _ in range(2)]
    # terminators that actually occur in the stream (so that read_until usually has something to find)
    occ = [t for t in TERMS if t in data]
    for k in range(nops):
        if later and rng.random() < 0.35:
            steps.append(["feed", later.pop(0)])
        if rng.random() < 0.07:
            steps.append(["write", _gen_stream(rng, rng.choice([0, 1, 2, 5, 17])).hex()])
        r = rng.random()
        if r < 0.30:
            n = rng.choice([0, 1, 1, 2, 3, 4, 5, 8, 13]) if not big else rng.choice([1, 100, 511, 512, 513, 700])
            steps.append(["read", n, _gen_t(rng)])
        elif r < 0.65:
            t = rng.choice(occ) if occ and rng.random() < 0.7 else rng.choice(terms)
            if rng.random() < 0.02:
                t = b""
            steps.append(["until", t.hex(), _gen_t(rng)])
        elif r < 0.88:
            n = rng.choice([0, 1, 2, 3, 5, 8, 13, 40]) if not big else rng.choice([1, 100, 512, 513, 2000])
            tt = _gen_t(rng)
            steps.append(["rut", n, tt])
        elif r < 0.93:
            steps.append(["discard"])
        elif r < 0.97:
            steps.append(["close"])
            if rng.random() < 0.7:
                steps.append(rng.choice([["until", rng.choice(TERMS).hex(), _gen_t(rng)], ["read", 1, 0], ["discard"],
                                         ["rut", 2, 1], ["close"], ["write", "6162"]]))
            if rng.random() < 0.8:
                _gen_open(rng, steps, 0.3)
        else:
            steps.append(["open"])
    for p in later:
        steps.append(["feed", p])
        steps.append(["rut", rng.choice([1, 4, 50]), rng.choice([0, 3, None])])
    return {"kind": kind, "steps": steps}


def _gen_udp_boundary(rng) -> dict:
    """UDP at the packet-size boundary: a non-empty buffer followed by datagrams of 4096-nbuf … 4096 bytes, and
    reads of 4000+ bytes over mid-size (≈1400-byte) datagrams.  Every datagram fits the packet size, so nothing
    may be lost."""
    P = 4096
    steps = []
    evs = []
    if rng.random() < 0.5:
        # A: a few bytes stay buffered, then a datagram close to the packet size
        k = rng.choice([1, 2, 4, 10, 10, 33, 100])
        first = _gen_stream(rng, k + rng.choice([0, 0, 3]))
        big_len = P - rng.choice([0, 0, 1, k - 1, k, k + 1, 2 * k, rng.randint(0, k)])
        big = _gen_stream(rng, max(1, big_len))
        evs = [[rng.choice([0, 1]), "d", first.hex()], [rng.choice([0, 1, 3]), "d", big.hex()]]
        for _ in range(rng.randint(1, 4)):
            evs.append([rng.choice([0, 2, 8]), "t", ""])
        steps = [["feed", evs], ["open"]]
        if len(first) > k:
            steps.append(["read", len(first) - k, rng.choice([None, 5])])      # leaves k bytes in the buffer
        n = rng.choice([k + 1, k + 10, 100, 1000, P - 1, P, P + k, P + 1000])
        steps.append([rng.choice(["read", "read", "rut"]), n, rng.choice([None, 5, 20])])
        steps.append(["rut", rng.choice([P, 2 * P]), rng.choice([0, 3])])
        steps.append(["rut", 2 * P, 1])
    else:
        # B: a long read assembled from mid-size datagrams
        size = rng.choice([1400, 1400, 1000, 1472, 2048, 3000, rng.randint(500, 4096)])
        count = rng.randint(2, 6)
        for _ in range(count):
            evs.append([rng.choice([0, 0, 1, 2]), "d", _gen_stream(rng, size if rng.random() < 0.7 else rng.randint(1, size)).hex()])
            if rng.random() < 0.15:
                evs.append([rng.choice([1, 4]), "t", ""])
        for _ in range(rng.randint(1, 4)):
            evs.append([rng.choice([0, 2, 8]), "t", ""])
        steps = [["feed", evs], ["open"]]
        for _ in range(rng.randint(1, 3)):
            n = rng.choice([4000, 4000, 4096, 4097, 5000, 2 * size + 1, 3 * size, size + 1])
            steps.append([rng.choice(["read", "read", "rut"]), n, rng.choice([None, 10, 40])])
        steps.append(["rut", 3 * P, rng.choice([0, 2])])
        steps.append(["rut", 3 * P, 1])
    return {"kind": "udp", "steps": steps}


def _fixed_corpus():
    """Deterministic scenarios run first on every seed: boundary values of every size / count / time-out the code
    handles, terminators that are prefixes / suffixes / repetitions of each other, the same call twice, calls in
    unusual order, reuse across close/open, every kind of open() failure followed by a retry."""
    def pat(n, seed=0):
        return bytes((i * 7 + seed) % 251 for i in range(n))
    tail = [[2, "t", ""]] * 4
    out = []
    for kind in KINDS:
        # 1. related terminators on one stream, whole and byte-by-byte, each asked for twice
        stream = b"aabababb\r\n\nabab\n\n"
        for term in (b"ab", b"aab", b"aba", b"abab", b"ba", b"b", b"\n", b"\r\n", b"\n\n", b"", b"abababababababab", stream):
            for chunks in ([stream], [stream[i:i + 1] for i in range(len(stream))], [stream[:7], stream[7:12], stream[12:]]):
                evs = [[i % 2, "d", c.hex()] for i, c in enumerate(chunks)] + tail
                for t in (None, 0, 3):
                    out.append({"kind": kind, "steps": [["feed", evs], ["open"], ["until", term.hex(), t],
                                                          ["until", term.hex(), t], ["rut", 64, 1], ["rut", 64, 1]]})
        # 2. byte counts around every limit of the code, time-outs None / 0 / 1 / -1
        limits = {"tcp": [0, 1, 2, 511, 512, 513, 1024], "udp": [0, 1, 2, 4095, 4096, 4097], "serial": [0, 1, 2, 63, 64, 65]}[kind]
        sizes = {"tcp": [1, 511, 512, 513, 1100], "udp": [1, 4095, 4096], "serial": [1, 63, 64, 65]}[kind]
        for size in sizes:
            evs = [[1, "d", pat(size).hex()], [0, "d", pat(size, 3).hex()]] + tail
            for n in limits:
                for t in (None, 0, 1, -1):
                    out.append({"kind": kind, "steps": [["feed", evs], ["open"], ["read", n, t], ["read", n, t],
                                                          ["rut", n, t], ["rut", n, t], ["rut", 3 * size + 9, 0]]})
        # 3. the same call twice, calls in unusual order, reuse across close / open
        evs = [[0, "d", b"one\ntwo\nthree\n".hex()]] + tail
        for first in (["close"], ["read", 1, 0], ["write", "6869"], ["discard"], ["until", "0a", 0], ["rut", 1, 0], ["open"]):
            out.append({"kind": kind, "steps": [["feed", evs], first, first, ["open"], ["open"], ["write", "6869"],
                                                  ["write", "6869"], ["write", ""], ["until", "0a", 1], ["discard"], ["discard"],
                                                  ["close"], ["close"], first, ["until", "0a", 1], ["open"],
                                                  ["feed", [[0, "d", b"four\n".hex()], [1, "t", ""]]], ["until", "0a", 1],
                                                  ["close"], ["open"], ["close"]]})
        # 4. open() failures of every kind, calls on the still-closed transport, then the retry
        for fails in (["to"], ["early"], ["late"], ["to", "late"], ["early", "early", "to"], ["late", "ok"]):
            steps = [["feed", evs]] + [["planopen", f] for f in fails]
            for _ in fails:
                steps += [["open"], ["close"], ["read", 1, 0], ["write", "00"], ["discard"], ["until", "0a", 0]]
            steps += [["open"], ["until", "0a", 1], ["write", "6f6b"], ["close"], ["planopen", "to"], ["open"], ["open"],
                      ["until", "0a", 1]]
            out.append({"kind": kind, "steps": steps})
    return out


def _gen_discard_pending(rng, kind: str) -> dict:
    """Several datagrams / segments already waiting when discard_read() is called (sizes below / at / above
    MAX_PACKET_SIZE), then zero-time-out reads (must find nothing) and a fresh answer (must be the next thing read)."""
    P = {"tcp": 512, "udp": 4096, "serial": 64}[kind]
    sizes_small = [1, 2, 7, 30]
    sizes_edge = [P - 1, P, P + 1, 2 * P + 3] if kind != "udp" else [P - 1, P]
    count = rng.choice([2, 2, 3, 4, 6])
    evs = []
    for _ in range(count):
        size = rng.choice(sizes_small * 3 + sizes_edge)
        evs.append([0 if rng.random() < 0.8 else rng.choice([1, 2]), "d", _gen_stream(rng, size).hex()])
    evs.append([rng.choice([0, 1, 3]), "t", ""])
    steps = [["feed", evs], ["open"]]
    if rng.random() < 0.5:
        steps.append([rng.choice(["read", "rut"]), rng.choice([1, 2, 5]), rng.choice([0, 2, None])])   # something buffered too
    steps.append(["discard"])
    steps.append(["feed", [[1, "t", ""]]])
    steps.append(["rut", rng.choice([1, 8, 5000]), 0])
    steps.append(["read", 1, 0])
    answer = _gen_stream(rng, rng.choice([3, 9])) + b"\n"
    steps.append(["feed", [[rng.choice([0, 1]), "d", answer.hex()], [1, "t", ""], [1, "t", ""]]])
    steps.append(["until", "0a", rng.choice([3, None])])
    steps.append(["discard"])
    steps.append(["rut", 8, 0])
    return {"kind": kind, "steps": steps}


def _sweep_scenarios(kinds=KINDS):
    """Systematic: one stream, every single cut point, with and without a time-out between the two halves,
    every terminator of a small set, a few op templates."""
    stream = b"ab\r\naab\r\nb"
    for kind in kinds:
        for term in (b"\n", b"\r\n", b"ab", b"aab", b"b\r\n"):
            for cut in range(0, len(stream) + 1):
                for gap in ("none", "timeout", "delay"):
                    for tmpl in range(6):
                        a, b = stream[:cut], stream[cut:]
                        evs = []
                        if a:
                            evs.append([0, "d", a.hex()])
                        if gap == "timeout":
                            evs.append([4, "t", ""])
                        if b:
                            evs.append([3 if gap == "delay" else 0, "d", b.hex()])
                        evs += [[2, "t", ""], [2, "t", ""], [2, "t", ""]]
                        th = term.hex()
                        ops = [
                            [["until", th, 4], ["until", th, 4], ["until", th, 4], ["rut", 50, 1]],
                            [["read", 1, 2], ["until", th, 2], ["read", 2, 2], ["until", th, None], ["rut", 50, 0]],
                            [["rut", 3, 2], ["until", th, 0], ["until", th, 5], ["rut", 50, 2]],
                            [["until", th, 1], ["discard"], ["until", th, 3], ["rut", 50, 2]],
                            [["read", 4, 0], ["read", 4, 3], ["close"], ["until", th, 1], ["open"], ["rut", 50, 2]],
                            [["until", th, 2], ["close"], ["read", 1, 1], ["close"], ["open"], ["open"], ["until", th, 2]],
                        ][tmpl]
                        yield {"kind": kind, "steps": [["feed", evs], ["open"]] + ops}


# ---------------------------------------------------------------------------

class C13(Prop):
    id = "C13"
    lean_modules = ["QmiModel.Props.C13"]
    driver = "drv_c13"
    modelled_not_verified = [
        "the OS socket / pyserial port: replaced by a scripted stand-in (stream recv returns at most the requested "
        "bytes and keeps the rest; a datagram is delivered whole or lost with OSError; recv returns b'' at EOF; "
        "settimeout(negative) raises ValueError; Serial.read(0) returns at once; in_waiting = size of the head chunk "
        "when it has no delay; reset_input_buffer drops the chunks that have no delay; connect / gethostbyname / bind / "
        "serial.Serial() succeed or fail as an oracle plan says; sendall / sendto / Serial.write accept the whole payload)",
        "time.monotonic: replaced by a virtual clock advanced only by the scripted device (1 tick = 1/8 s, exact in floats); "
        "the serial deadline theorem assumes every Serial.read returns within one device slice (pyserial's fixed timeout)",
        "bytearray.find / endswith / slicing (model: findSub, endsWith, take/drop; differentially checked here)",
        "a write() that fails half-way in the OS (sendall raising) is not modelled; socket deadlines relative to the OS "
        "honouring settimeout are tied by the clock / settimeout-value diff only (no theorem)",
        "QMI_Vxi11Transport / USBTMC / GPIB transports are not named by the property and not modelled: only the shared "
        "base-class open/close/_check_is_open logic (open_close_state_machine, isOpen_run) transfers to them",
    ]

    # -- differential run ---------------------------------------------------
    def _differential(self, ctx: Ctx, P: _Patched, scenarios, res: Result, label: str):
        drv = LeanDriver(self.driver)
        all_lines, all_outs, spans = [], [], []
        for idx, sc in enumerate(scenarios):
            lines, outs, trace = _run_impl(P, sc)
            spans.append((len(all_lines), len(lines), sc))
            all_lines += lines
            all_outs += outs
            kind = sc["kind"]
            ops = [e for e in trace if e["op"] not in ("feed", "planopen")]
            rets = sum(1 for e in ops if e["ret"])
            res.note_case((kind, repr(sc["steps"])), nontrivial=(rets >= 1 and len(ops) >= 3))
            res.count(f"{label}_scenarios_{kind}")
            for e in ops:
                res.count("op_" + e["op"])
                if e["exc"]:
                    res.count("exc_" + e["exc"])
                elif e["op"] in ("read", "until", "rut"):
                    res.count("returned_" + e["op"])
                if e["op"] == "until" and e["ret"] and e["buf"]:
                    res.count("until_with_leftover_in_buffer")
                if e["exc"] == "QMI_TimeoutException" and e["buf"]:
                    res.count("timeout_with_nonempty_buffer")
                if e["dropped"]:
                    res.count("os_dropped_bytes_events")
            if idx < 3 and label == "random":
                res.sample({"kind": kind, "ops": lines[:14], "impl_out": outs[:14]})
            clause = _oracle(kind, trace)
            if clause:
                sig = _signature(kind, trace, clause)
                res.count("oracle_fail_" + sig)
                if not any(f.signature == sig for f in res.failures) and len(res.failures) < 6:
                    small = _shrink(P, sc, clause[0])
                    c2, t2 = _check(P, small)
                    c2 = c2 or clause
                    sig2 = _signature(kind, t2, c2) if c2 is not clause else sig
                    if not any(f.signature == sig2 for f in res.failures):
                        res.failures.append(Failure(
                            signature=sig2,
                            summary=f"{kind} {_short(small['steps'])}: {c2[0]} at step {c2[1]}: {c2[2]}",
                            replay={"kind": "scenario", "scenario": small, "clause": c2[0],
                                    "debuglog": label == "debuglog"}))
        model = drv.run(all_lines)
        res.traces_validated += len(spans)
        k = diff_streams(all_lines, all_outs, model)
        if k is not None:
            for (start, ln, sc) in spans:
                if start <= k < start + ln:
                    res.broken.append(Broken(
                        "correspondence", f"Transport.step vs QMI_{sc['kind'].capitalize()}Transport",
                        f"line {k - start}: op={all_lines[k]!r}\n impl ={all_outs[k]!r}\n model={model[k]!r}",
                        case={"scenario": sc}))
                    break

    def correspondence(self, ctx: Ctx) -> Result:
        res = Result(rule="scenario = (transport kind, device script, op sequence): one PRNG-generated stream cut into chunks "
                          "(single bytes / whole / random cuts), with delays, time-out results, empty reads, EOF and (UDP) "
                          "oversize datagrams sprinkled in, fed up-front or in instalments between ops; ops = random "
                          "read/read_until/read_until_timeout/discard_read/open/close with time-outs None/0/positive/negative; "
                          "first a fixed corpus (related terminators x chunkings, byte counts around 512 / 4096, time-outs None/0/1/-1, every call "
                          "twice, unusual order, reuse across close/open, every open() failure + retry); "
                          "plus discard_read with several datagrams / segments pending (sizes around MAX_PACKET_SIZE) followed by zero-time-out "
                          "reads and a fresh answer; plus a slice of every family re-run with the qmi loggers at DEBUG and payloads from the "
                          "full byte range (invalid UTF-8, split multibyte characters); "
                          "plus UDP packet-size boundary scenarios (non-empty buffer + datagram of 4096-nbuf..4096 bytes; reads of 4000+ bytes "
                          "over ~1400-byte datagrams; every datagram fits, so none may be lost); "
                          "plus a systematic sweep (every cut point x gap kind x terminator x 6 op templates x 3 kinds). "
                          "non-trivial = at least 3 ops and at least one call returned data; distinct by (kind, steps)")
        with _Patched() as P:
            mn, mx = _consts(P.T, "tcp")
            res.extra["packet_sizes"] = {"tcp": [mn, mx], "udp": list(_consts(P.T, "udp"))}
            self._differential(ctx, P, _fixed_corpus(), res, "corpus")
            n = ctx.scale(30000, 600000)
            scen = [_gen_scenario(ctx.rng, KINDS[i % 3], ctx.scale(10, 16)) for i in range(n)]
            self._differential(ctx, P, scen, res, "random")
            self._differential(ctx, P, [_gen_udp_boundary(ctx.rng) for _ in range(ctx.scale(400, 6000))], res, "udp_boundary")
            self._differential(ctx, P, [_gen_discard_pending(ctx.rng, KINDS[i % 3]) for i in range(ctx.scale(900, 12000))],
                               res, "discard_pending")
            # a slice of every scenario family with the library's loggers at DEBUG and full-range (non-UTF-8) payloads
            _BINARY[0] = True
            try:
                with _DebugLogging():
                    dbg = [_gen_scenario(ctx.rng, KINDS[i % 3], ctx.scale(10, 16)) for i in range(ctx.scale(4000, 60000))]
                    dbg += [_gen_discard_pending(ctx.rng, KINDS[i % 3]) for i in range(ctx.scale(150, 1500))]
                    dbg += [_gen_udp_boundary(ctx.rng) for _ in range(ctx.scale(30, 300))]
                    dbg += _fixed_corpus()[::ctx.scale(7, 1)]
                    self._differential(ctx, P, dbg, res, "debuglog")
            finally:
                _BINARY[0] = False
            sweep = list(_sweep_scenarios())
            if ctx.quick:
                sweep = ctx.rng.sample(sweep, 2500)
            self._differential(ctx, P, sweep, res, "sweep")
            # regression input of the repaired defect 916a4b4 (`udpWitness` in Props/C13.lean): a 3-byte datagram,
            # read_until_timeout(1, 0) must return 1 byte and keep 2 — evaluated by the ordinary oracle
            wit = {"kind": "udp", "steps": [["feed", [[1, "d", "010203"]]], ["open"], ["rut", 1, 0], ["rut", 5, 0]]}
            self._differential(ctx, P, [wit], res, "regression")
        return res

    def search(self, ctx: Ctx, broken) -> Result:
        res = Result()
        with _Patched() as P:
            cands = [b.case["scenario"] for b in broken if b.case and "scenario" in b.case]
            plain = itertools.chain(cands, (_gen_discard_pending(ctx.rng, KINDS[i % 3]) for i in range(300)), _fixed_corpus(),
                                    (_gen_udp_boundary(ctx.rng) for _ in range(300)), _sweep_scenarios(),
                                    (_gen_scenario(ctx.rng, KINDS[i % 3], 12) for i in range(ctx.scale(6000, 60000))))
            self._search_pass(ctx, P, plain, res, debuglog=False)
            if len(res.failures) < 3:
                # the same under debug logging with full-range payloads (interplay with the optional debug output)
                _BINARY[0] = True
                try:
                    with _DebugLogging():
                        dbg = itertools.chain(cands, (_gen_scenario(ctx.rng, KINDS[i % 3], 12) for i in range(ctx.scale(2000, 20000))),
                                              (_gen_discard_pending(ctx.rng, KINDS[i % 3]) for i in range(150)))
                        self._search_pass(ctx, P, dbg, res, debuglog=True)
                finally:
                    _BINARY[0] = False
        return res

    def _search_pass(self, ctx: Ctx, P, scenarios, res: Result, debuglog: bool) -> None:
        for sc in scenarios:
            clause, trace = _check(P, sc)
            res.note_case((sc["kind"], repr(sc["steps"]), debuglog))
            if clause:
                sig = _signature(sc["kind"], trace, clause)
                if core.known_match(self.id, sig) or any(f.signature == sig for f in res.failures):
                    continue
                small = _shrink(P, sc, clause[0])
                c2, t2 = _check(P, small)
                c2 = c2 or clause
                res.failures.append(Failure(_signature(sc["kind"], t2, c2) if t2 else sig,
                                            f"{sc['kind']} {_short(small['steps'])}: {c2[0]} at step {c2[1]}: {c2[2]}"
                                            + (" [qmi loggers at DEBUG]" if debuglog else ""),
                                            {"kind": "scenario", "scenario": small, "clause": c2[0], "debuglog": debuglog}))
                if len(res.failures) >= 3:
                    break

    def replay(self, ctx: Ctx, rp: dict):
        if rp.get("debuglog"):
            with _DebugLogging():
                return self._replay(ctx, rp)
        return self._replay(ctx, rp)

    def _replay(self, ctx: Ctx, rp: dict):
        with _Patched() as P:
            sc = rp["scenario"]
            clause, trace = _check(P, sc)
            if clause is None:
                return None
            if core.known_match(self.id, _signature(sc["kind"], trace, clause)):
                return None          # only a listed known finding is left on this input
            return Failure(_signature(sc["kind"], trace, clause),
                           f"{sc['kind']} {_short(sc['steps'])}: {clause[0]} at step {clause[1]}: {clause[2]}", rp)


PROP = C13()
