"""C15 part B — NKT Interbus frames, Thorlabs APT packets, PicoQuant T2 event-stream decoding.

Models:   lean/QmiModel/Model/{Interbus,Apt,T2}.lean
Gen:      lean/QmiModel/Gen/Layouts.lean   (regenerated here from the current sources)
Theorems: lean/QmiModel/Props/C15B.lean
Driver:   lean/Drv/C15B.lean (exe drv_c15b)

Tie: (1) translator (AST + live ctypes/enum introspection) -> Gen, obligations closed by `decide`;
     (2) differential run of the real protocol classes (scripted / recording fake transport, real numpy
         arrays) against the Lean driver; (3) the property oracle: an *independent* reference device
     (written from the NKT SDK manual, the Thorlabs APT protocol document and the PicoQuant TTTR record
     format description — not from QMI) decodes what QMI wrote and produces what QMI reads.
"""
from __future__ import annotations

import ast
import binascii
import itertools
import struct
from typing import Any, Optional

from harness import core
from harness.core import Broken, Ctx, Failure, LeanDriver, Prop, Result, diff_streams

GEN_FILE = core.LEAN / "QmiModel" / "Gen" / "Layouts.lean"

IB_SRC = "qmi/instruments/nkt_photonics/nkt_photonics_interbus_protocol.py"
APT_SRC = "qmi/instruments/thorlabs/apt_protocol.py"
T2_SRC = "qmi/instruments/picoquant/support/_decoders.py"


# =====================================================================================================
# 1. translator: current source -> Gen/Layouts.lean
# =====================================================================================================

class TranslatorError(Exception):
    pass


def _func(tree: ast.AST, name: str, cls: Optional[str] = None) -> ast.FunctionDef:
    scope: Any = tree
    if cls is not None:
        cs = [n for n in ast.walk(tree) if isinstance(n, ast.ClassDef) and n.name == cls]
        if len(cs) != 1:
            raise TranslatorError(f"class {cls}: {len(cs)} definitions")
        scope = cs[0]
    fs = [n for n in scope.body if isinstance(n, ast.FunctionDef) and n.name == name]
    if len(fs) != 1:
        raise TranslatorError(f"function {cls or ''}.{name}: {len(fs)} definitions")
    return fs[0]


def _one(nodes, what: str, count: int = 1):
    nodes = list(nodes)
    if len(nodes) != count:
        raise TranslatorError(f"expected {count} × {what}, found {len(nodes)}")
    return nodes[0] if count == 1 else nodes


def _const_int(n: ast.AST, env: Optional[dict] = None) -> Optional[int]:
    """Value of a constant integer expression (literals, + - * << >> | &, unary minus, names bound in env)."""
    if isinstance(n, ast.Constant) and isinstance(n.value, int) and not isinstance(n.value, bool):
        return n.value
    if isinstance(n, ast.Name) and env is not None and n.id in env:
        return env[n.id]
    if isinstance(n, ast.UnaryOp) and isinstance(n.op, ast.USub):
        v = _const_int(n.operand, env)
        return None if v is None else -v
    if isinstance(n, ast.BinOp):
        a, b = _const_int(n.left, env), _const_int(n.right, env)
        if a is None or b is None:
            return None
        ops = {ast.Add: lambda: a + b, ast.Sub: lambda: a - b, ast.Mult: lambda: a * b, ast.LShift: lambda: a << b,
               ast.RShift: lambda: a >> b, ast.BitOr: lambda: a | b, ast.BitAnd: lambda: a & b}
        f = ops.get(type(n.op))
        return None if f is None else f()
    return None


def _int_list_loops(fn: ast.FunctionDef) -> list:
    """`for v in [c1, c2, …]:` loops over literal int lists, in source order."""
    out = []
    for n in ast.walk(fn):
        if isinstance(n, ast.For) and isinstance(n.iter, (ast.List, ast.Tuple)):
            vals = [_const_int(e) for e in n.iter.elts]
            if all(v is not None for v in vals):
                out.append((n, vals))
    out.sort(key=lambda t: t[0].lineno)
    return out


def _mentions(n: ast.AST, attr: str) -> bool:
    return any(isinstance(x, ast.Attribute) and x.attr == attr for x in ast.walk(n))


def _range_check(fn: ast.FunctionDef, attr: str) -> tuple:
    """`lo <= <expr mentioning .attr> <= hi` (also with `<`), normalised to inclusive bounds"""
    hits = []
    for n in ast.walk(fn):
        if (isinstance(n, ast.Compare) and len(n.ops) == 2 and all(isinstance(o, (ast.LtE, ast.Lt)) for o in n.ops)
                and _mentions(n.comparators[0], attr)):
            lo, hi = _const_int(n.left), _const_int(n.comparators[1])
            if lo is not None and hi is not None:
                hits.append((lo + (1 if isinstance(n.ops[0], ast.Lt) else 0), hi - (1 if isinstance(n.ops[1], ast.Lt) else 0)))
    return _one(hits, f"range check on .{attr}")


def _esc_pair(loop: ast.For) -> tuple:
    """`bytes([E, value + OFF])` inside an escaping loop -> (E, OFF)"""
    var = loop.target.id if isinstance(loop.target, ast.Name) else None
    hits = []
    for n in ast.walk(loop):
        if (isinstance(n, ast.Call) and isinstance(n.func, ast.Name) and n.func.id == "bytes" and len(n.args) == 1
                and isinstance(n.args[0], ast.List) and len(n.args[0].elts) == 2):
            a, b = n.args[0].elts
            e = _const_int(a)
            if (e is not None and isinstance(b, ast.BinOp) and isinstance(b.op, ast.Add)
                    and isinstance(b.left, ast.Name) and b.left.id == var and _const_int(b.right) is not None):
                hits.append((e, _const_int(b.right)))
    return _one(hits, "bytes([ESC, value + OFFSET])")


def _bytes1(n: ast.AST) -> Optional[int]:
    """`bytes([K])` -> K"""
    if (isinstance(n, ast.Call) and isinstance(n.func, ast.Name) and n.func.id == "bytes" and len(n.args) == 1
            and isinstance(n.args[0], ast.List) and len(n.args[0].elts) == 1):
        return _const_int(n.args[0].elts[0])
    return None


def _interbus_params() -> dict:
    src = (core.REPO / IB_SRC).read_text()
    tree = ast.parse(src)
    enc = _func(tree, "_encode_interbus_message")
    dec = _func(tree, "_decode_interbus_message")
    crc = _func(tree, "_crc_ccitt")
    p: dict = {}
    # encoder
    loop, p["escOrder"] = _one(_int_list_loops(enc), "literal-list loop in the encoder")
    p["encEsc"], p["encOff"] = _esc_pair(loop)
    if not any(isinstance(n, ast.Attribute) and n.attr == "replace" for n in ast.walk(loop)):
        raise TranslatorError("encoder loop does not call .replace")
    p["dstLo"], p["dstHi"] = _range_check(enc, "destination")
    p["srcLo"], p["srcHi"] = _range_check(enc, "source")
    dlo, p["maxData"] = _range_check(enc, "data")
    if dlo != 0:
        raise TranslatorError("data length lower bound is not 0")
    frames = []
    for n in ast.walk(enc):
        if isinstance(n, ast.BinOp) and isinstance(n.op, ast.Add) and isinstance(n.left, ast.BinOp) \
                and isinstance(n.left.op, ast.Add):
            a, b = _bytes1(n.left.left), _bytes1(n.right)
            if a is not None and b is not None:
                frames.append((a, b))
    p["encSot"], p["encEot"] = _one(frames, "bytes([SOT]) + … + bytes([EOT])")
    # decoder
    loop, p["unescOrder"] = _one(_int_list_loops(dec), "literal-list loop in the decoder")
    p["decEsc"], p["decOff"] = _esc_pair(loop)
    lens = []
    ends = {}
    for n in ast.walk(dec):
        if isinstance(n, ast.Compare) and len(n.ops) == 1:
            l, r = n.left, n.comparators[0]
            if isinstance(n.ops[0], ast.Lt) and isinstance(l, ast.Call) and isinstance(l.func, ast.Name) \
                    and l.func.id == "len" and _const_int(r) is not None:
                lens.append((n.lineno, _const_int(r)))
            if isinstance(n.ops[0], ast.Eq) and isinstance(l, ast.Subscript) and _const_int(r) is not None \
                    and _const_int(l.slice) in (0, -1):
                ends.setdefault(_const_int(l.slice), []).append(_const_int(r))
    lens.sort()
    if len(lens) != 2:
        raise TranslatorError(f"decoder: expected two `len(…) < K` tests, found {len(lens)}")
    p["minFrame"], p["minBody"] = lens[0][1], lens[1][1]
    p["decSot"] = _one(ends.get(0, []), "msg[0] == SOT")
    p["decEot"] = _one(ends.get(-1, []), "msg[-1] == EOT")
    # the decoder strips [1:-1] and then [:-2]; MessageType(b[2]); fields 0,1,3; data [4:]
    slices = [(_const_int(n.slice.lower) if n.slice.lower is not None else None,
               _const_int(n.slice.upper) if n.slice.upper is not None else None)
              for n in ast.walk(dec) if isinstance(n, ast.Subscript) and isinstance(n.slice, ast.Slice)]
    if sorted(slices, key=repr) != sorted([(1, -1), (None, -2), (4, None)], key=repr):
        raise TranslatorError(f"decoder slices {slices} are not [1:-1], [:-2], [4:]")
    # CRC
    consts = [n.value for n in ast.walk(crc) if isinstance(n, ast.Constant) and isinstance(n.value, int)]
    polys = [n for n in ast.walk(crc) if isinstance(n, ast.If)]
    iff = _one(polys, "`if xorflag:` in _crc_ccitt")
    aug = _one([n for n in ast.walk(iff) if isinstance(n, ast.AugAssign) and isinstance(n.op, ast.BitXor)], "crc ^= POLY")
    p["crcPoly"] = _const_int(aug.value)
    if p["crcPoly"] is None:
        raise TranslatorError("CRC polynomial is not a literal")
    rest = sorted(consts)
    rest.remove(p["crcPoly"])
    if rest != sorted([8, 8, 0x8000, 0, 1, 0xffff]):
        raise TranslatorError(f"_crc_ccitt constants {sorted(consts)} differ from the modelled shift/mask constants")
    # _read_message terminator
    rd = _func(tree, "_read_message", "NKTPhotonicsInterbusProtocol")
    terms = [k.value.value for n in ast.walk(rd) if isinstance(n, ast.Call) for k in n.keywords
             if k.arg == "message_terminator" and isinstance(k.value, ast.Constant) and isinstance(k.value.value, bytes)]
    term = _one(terms, "read_until(message_terminator=b'…')")
    if len(term) != 1:
        raise TranslatorError("message terminator is not one byte")
    p["readTerm"] = term[0]
    # live class attributes and enum
    import importlib
    mod = importlib.import_module("qmi.instruments.nkt_photonics.nkt_photonics_interbus_protocol")
    proto = mod.NKTPhotonicsInterbusProtocol
    p["hostBase"] = int(proto.HOST_BASE_ADDRESS)
    p["maxRetry"] = int(proto.MAX_RETRY_COUNT)
    mt = mod.MessageType
    p["msgTypes"] = sorted(int(m.value) for m in mt)
    p["tNack"], p["tAck"], p["tRead"], p["tWrite"], p["tDatagram"] = (
        int(mt.NACK.value), int(mt.ACK.value), int(mt.READ.value), int(mt.WRITE.value), int(mt.DATAGRAM.value))
    for k in ("escOrder", "unescOrder"):
        if not all(0 <= v <= 255 for v in p[k]):
            raise TranslatorError(f"{k} has a non-byte value")
    return p


def _t2_params() -> dict:
    tree = ast.parse((core.REPO / T2_SRC).read_text())
    fn = _func(tree, "process_data", "_T2EventDecoder")
    env: dict = {}
    for n in fn.body:
        if isinstance(n, ast.Assign) and len(n.targets) == 1 and isinstance(n.targets[0], ast.Name):
            v = _const_int(n.value, env)
            if v is not None:
                env[n.targets[0].id] = v
    arg = fn.args.args[1].arg

    def on_input(n, op):
        return (isinstance(n, ast.BinOp) and isinstance(n.op, op) and isinstance(n.left, ast.Name) and n.left.id == arg
                and _const_int(n.right, env) is not None)
    shift = _one([n for n in ast.walk(fn) if on_input(n, ast.RShift)], "fifo_data >> K")
    mask = _one([n for n in ast.walk(fn) if on_input(n, ast.BitAnd)], "fifo_data & MASK")
    eqs = [n for n in ast.walk(fn) if isinstance(n, ast.Compare) and len(n.ops) == 1 and isinstance(n.ops[0], ast.Eq)
           and _const_int(n.comparators[0], env) is not None]
    ovf = _one(eqs, "record_types == OVERFLOW_TYPE")
    muls = [n for n in ast.walk(fn) if isinstance(n, ast.BinOp) and isinstance(n.op, ast.Mult)
            and _const_int(n.right, env) is not None and _const_int(n.left, env) is None]
    per = _one(muls, "… * OVERFLOW_PERIOD")
    return {"typeShift": _const_int(shift.right, env), "tagMask": _const_int(mask.right, env),
            "overflowType": _const_int(ovf.comparators[0], env), "period": _const_int(per.right, env)}


def _t3_params() -> dict:
    tree = ast.parse((core.REPO / T2_SRC).read_text())
    fn = _func(tree, "process_data", "_T3EventDecoder")
    arg = fn.args.args[1].arg
    env: dict = {}
    for n in fn.body:
        if isinstance(n, ast.Assign) and len(n.targets) == 1 and isinstance(n.targets[0], ast.Name):
            v = _const_int(n.value, env)
            if v is not None:
                env[n.targets[0].id] = v

    def on_input(n, op):
        return (isinstance(n, ast.BinOp) and isinstance(n.op, op) and isinstance(n.left, ast.Name) and n.left.id == arg
                and _const_int(n.right, env) is not None)
    shifts = sorted((_const_int(n.right, env) for n in ast.walk(fn) if on_input(n, ast.RShift)), reverse=True)
    if len(shifts) != 2:
        raise TranslatorError(f"T3: expected two `fifo_data >> K`, found {shifts}")
    # `fifo_data >> 10 & 0x07fff` parses as `(fifo_data >> 10) & 0x07fff`; `fifo_data & 0x03ff`
    dmask = _one([_const_int(n.right, env) for n in ast.walk(fn) if isinstance(n, ast.BinOp) and isinstance(n.op, ast.BitAnd)
                  and on_input(n.left, ast.RShift) and _const_int(n.right, env) is not None], "(fifo_data >> K) & MASK")
    nmask = _one([_const_int(n.right, env) for n in ast.walk(fn) if on_input(n, ast.BitAnd)], "fifo_data & MASK")
    ovf = _one([n for n in ast.walk(fn) if isinstance(n, ast.Compare) and len(n.ops) == 1 and isinstance(n.ops[0], ast.Eq)
                and _const_int(n.comparators[0], env) is not None], "record_types == OVERFLOW_TYPE")
    wraps = [_const_int(n.left, env) for n in ast.walk(fn) if isinstance(n, ast.BinOp) and isinstance(n.op, ast.Mult)
             and isinstance(n.left, ast.BinOp) and isinstance(n.left.op, ast.LShift) and _const_int(n.left, env) is not None]
    wrap = _one(wraps, "(1 << K) * sync period")
    syncs = [n.value.value for n in ast.walk(fn) if isinstance(n, ast.Assign) and isinstance(n.value, ast.Constant)
             and isinstance(n.value.value, int) and isinstance(n.targets[0], ast.Subscript)]
    sync = _one(syncs, "events[...]['type'] = SYNC literal")
    return {"typeShift": shifts[0], "dShift": shifts[1], "dMask": dmask, "nMask": nmask,
            "overflowType": _const_int(ovf.comparators[0], env), "wrap": wrap, "syncType": sync}


_CT_KINDS = {"B": (1, False), "b": (1, True), "H": (2, False), "h": (2, True), "I": (4, False), "i": (4, True),
             "L": (None, False), "l": (None, True), "Q": (8, False), "q": (8, True)}


def all_fields(cls) -> list:
    """`_fields_` of the class and of its bases, in memory order."""
    out = []
    for base in reversed(cls.__mro__):
        out += list(base.__dict__.get("_fields_", []))
    return out


def _layout_of(cls, name: Optional[str] = None) -> dict:
    import ctypes
    if not issubclass(cls, ctypes.LittleEndianStructure):
        raise TranslatorError(f"{cls.__name__} is not a LittleEndianStructure")
    fields = []
    for fname, ftype, *bits in all_fields(cls):
        if bits:
            raise TranslatorError(f"{cls.__name__}.{fname}: bit fields are not modelled")
        d = getattr(cls, fname)
        count, elem, is_char = 1, ftype, False
        if hasattr(ftype, "_length_"):
            count, elem = int(ftype._length_), ftype._type_
        code = getattr(elem, "_type_", None)
        if code == "c":
            size, signed, is_char = 1, False, True
        elif code in _CT_KINDS:
            size, signed = ctypes.sizeof(elem), _CT_KINDS[code][1]
        else:
            raise TranslatorError(f"{cls.__name__}.{fname}: ctypes type {ftype!r} is not modelled")
        if d.size != count * size:
            raise TranslatorError(f"{cls.__name__}.{fname}: descriptor size {d.size} != {count}*{size}")
        fields.append({"name": fname, "off": int(d.offset), "size": size, "signed": signed, "count": count, "isChar": is_char})
    return {"name": name or cls.__name__, "msgId": int(getattr(cls, "MESSAGE_ID", 0)),
            "headerOnly": bool(getattr(cls, "HEADER_ONLY", False)), "size": int(ctypes.sizeof(cls)), "fields": fields}


def _apt_params() -> dict:
    import importlib
    import inspect
    ap = importlib.import_module("qmi.instruments.thorlabs.apt_protocol")
    pk = importlib.import_module("qmi.instruments.thorlabs.apt_packets")
    packets = []
    for name, cls in sorted(inspect.getmembers(pk, inspect.isclass)):
        if cls.__module__ == pk.__name__ and issubclass(cls, ap.AptMessage) and cls is not ap.AptMessage:
            packets.append(_layout_of(cls))
    if not packets:
        raise TranslatorError("no AptMessage subclasses found in apt_packets")
    tree = ast.parse((core.REPO / APT_SRC).read_text())
    wd = _func(tree, "write_data_command", "AptProtocol")
    flags = [_const_int(n.right) for n in ast.walk(wd) if isinstance(n, ast.BinOp) and isinstance(n.op, ast.BitOr)
             and _const_int(n.right) is not None]
    flag = flags[0] if len(flags) == 1 else 0 if not flags else None
    if flag is None:
        raise TranslatorError("write_data_command: more than one `| K`")
    return {"headerSize": int(ap.AptProtocol.HEADER_SIZE_BYTES), "dataFlag": flag,
            "hdrParams": _layout_of(ap.AptMessageHeaderWithParams), "hdrData": _layout_of(ap.AptMessageHeaderForData),
            "packets": packets}


K10_SRC = "qmi/instruments/thorlabs/k10cr1.py"


def _k10_params() -> dict:
    import importlib
    k = importlib.import_module("qmi.instruments.thorlabs.k10cr1")
    table = k._apt_message_type_table
    layouts = []
    for mid, cls in table.items():
        l = _layout_of(cls)
        if l["msgId"] != int(mid):
            raise TranslatorError(f"k10cr1 table key {mid:#x} != {cls.__name__}.MESSAGE_ID")
        layouts.append(l)
    tree = ast.parse((core.REPO / K10_SRC).read_text())
    rd = _func(tree, "_read_message", "Thorlabs_K10CR1")
    cr = _func(tree, "create", "_AptMessage")
    nb = [_const_int(kw.value) for n in ast.walk(rd) if isinstance(n, ast.Call) for kw in n.keywords
          if kw.arg == "nbytes" and _const_int(kw.value) is not None]
    hdr_len = _one(nb, "read(nbytes=K) in _read_message")
    flags = [_const_int(n.right) for n in ast.walk(rd) if isinstance(n, ast.BinOp) and isinstance(n.op, ast.BitAnd)
             and _const_int(n.right) is not None]
    flag = _one(flags, "hdr.dest & K")
    cflags = [_const_int(n.right) for n in ast.walk(cr) if isinstance(n, ast.BinOp) and isinstance(n.op, ast.BitOr)
              and _const_int(n.right) is not None]
    if _one(cflags, "_APT_DEVICE_ADDRESS | K in create") != flag:
        raise TranslatorError("create() and _read_message() use different long-message flags")
    csz = sorted(_const_int(n.comparators[0]) for n in ast.walk(cr) if isinstance(n, ast.Compare)
                 and _const_int(n.comparators[0]) is not None) + \
        sorted(_const_int(n.right) for n in ast.walk(cr) if isinstance(n, ast.BinOp) and isinstance(n.op, ast.Sub)
               and _const_int(n.right) is not None)
    if csz != [hdr_len, hdr_len]:
        raise TranslatorError(f"create(): header size constants {csz} differ from read(nbytes={hdr_len})")
    return {"table": layouts, "hdr": _layout_of(k._AptMessageHeader), "hdrLen": hdr_len, "longFlag": flag,
            "devAddr": int(k._APT_DEVICE_ADDRESS), "hostAddr": int(k._APT_HOST_ADDRESS)}


def _lean_bytes(vs) -> str:
    return "[" + ", ".join(f"0x{v:02x}" for v in vs) + "]"


def _lean_layout(l: dict) -> str:
    fs = ",\n      ".join(
        '{ name := "%s", off := %d, cell := { size := %d, signed := %s }, count := %d, isChar := %s }'
        % (f["name"], f["off"], f["size"], str(f["signed"]).lower(), f["count"], str(f["isChar"]).lower())
        for f in l["fields"])
    return ('{ name := "%s", msgId := %d, headerOnly := %s, size := %d,\n    fields := [\n      %s] }'
            % (l["name"], l["msgId"], str(l["headerOnly"]).lower(), l["size"], fs))


def render_gen(ib: dict, t2: dict, apt: dict, k10: dict, t3: dict) -> str:
    pk = ",\n  ".join(_lean_layout(l) for l in apt["packets"])
    kt = ",\n  ".join(_lean_layout(l) for l in k10["table"])
    return f"""import QmiModel.Model.Interbus
import QmiModel.Model.Apt
import QmiModel.Model.T2
/-!
GENERATED by harness/props/c15b.py (`translate`) from the current QMI sources — do not edit.

* Interbus: AST of `_encode_interbus_message`, `_decode_interbus_message`, `_crc_ccitt`, `_read_message`;
  live `NKTPhotonicsInterbusProtocol.HOST_BASE_ADDRESS`, `MAX_RETRY_COUNT`, `MessageType`.
* APT: live ctypes introspection (`_fields_`, descriptor offsets, `sizeof`, `MESSAGE_ID`, `HEADER_ONLY`) of the two
  headers and every `AptMessage` subclass of `apt_packets`; `HEADER_SIZE_BYTES`; the `| K` of `write_data_command`.
* T2: AST of `_T2EventDecoder.process_data`.
-/
namespace QmiModel.Gen.Layouts

def interbus : QmiModel.Interbus.Params :=
  {{ escOrder := {_lean_bytes(ib['escOrder'])}, unescOrder := {_lean_bytes(ib['unescOrder'])},
    encEsc := 0x{ib['encEsc']:02x}, encOff := 0x{ib['encOff']:02x}, decEsc := 0x{ib['decEsc']:02x}, decOff := 0x{ib['decOff']:02x},
    encSot := {ib['encSot']}, encEot := {ib['encEot']}, decSot := {ib['decSot']}, decEot := {ib['decEot']}, readTerm := {ib['readTerm']},
    dstLo := {ib['dstLo']}, dstHi := {ib['dstHi']}, srcLo := {ib['srcLo']}, srcHi := {ib['srcHi']}, maxData := {ib['maxData']},
    minFrame := {ib['minFrame']}, minBody := {ib['minBody']}, crcPoly := 0x{ib['crcPoly']:04x},
    hostBase := {ib['hostBase']}, maxRetry := {ib['maxRetry']}, msgTypes := {ib['msgTypes']},
    tNack := {ib['tNack']}, tAck := {ib['tAck']}, tRead := {ib['tRead']}, tWrite := {ib['tWrite']}, tDatagram := {ib['tDatagram']} }}

def t2 : QmiModel.T2.Params :=
  {{ typeShift := {t2['typeShift']}, tagMask := {t2['tagMask']}, overflowType := {t2['overflowType']}, period := {t2['period']} }}

def t3 : QmiModel.T2.Params3 :=
  {{ typeShift := {t3['typeShift']}, dShift := {t3['dShift']}, dMask := {t3['dMask']}, nMask := {t3['nMask']},
    overflowType := {t3['overflowType']}, wrap := {t3['wrap']}, syncType := {t3['syncType']} }}

def aptHeaderSize : Nat := {apt['headerSize']}
def aptDataFlag : Nat := {apt['dataFlag']}

def aptHdrParams : QmiModel.Apt.Layout :=
  {_lean_layout(apt['hdrParams'])}

def aptHdrData : QmiModel.Apt.Layout :=
  {_lean_layout(apt['hdrData'])}

def aptPackets : List QmiModel.Apt.Layout := [
  {pk}]

/-- `qmi/instruments/thorlabs/k10cr1.py`: `_AptMessageHeader` -/
def k10Hdr : QmiModel.Apt.Layout :=
  {_lean_layout(k10['hdr'])}

/-- `_apt_message_type_table` (live, in insertion order; classes with the inherited header fields) -/
def k10Table : List QmiModel.Apt.Layout := [
  {kt}]

/-- the literals of `_read_message` / `_AptMessage.create` and the two module-level addresses -/
def k10 : QmiModel.Apt.K10 :=
  {{ hdrLen := {k10['hdrLen']}, longFlag := {k10['longFlag']}, devAddr := {k10['devAddr']}, hostAddr := {k10['hostAddr']},
    hdr := k10Hdr, table := k10Table }}

end QmiModel.Gen.Layouts
"""


def translate_all() -> dict:
    return {"ib": _interbus_params(), "t2": _t2_params(), "apt": _apt_params(), "k10": _k10_params(), "t3": _t3_params()}



# =====================================================================================================
# 2. fakes (never loop: every fake has an I/O budget)
# =====================================================================================================

class IoBudgetExceeded(BaseException):
    pass


class ScriptedLineTransport:
    """Fake QMI_Transport for the Interbus layer.

    `script` = list of segments: bytes that arrive, or None = the read times out.  `read_until` returns up to and
    including the first terminator; data read but not returned stays in the buffer (also over a timeout)."""

    def __init__(self, script, budget: int = 200):
        self.buf = bytearray()
        self.script = list(script)
        self.written: list = []
        self.reads = 0
        self.budget = budget

    def _tick(self):
        self.budget -= 1
        if self.budget < 0:
            raise IoBudgetExceeded()

    def write(self, data):
        self._tick()
        self.written.append(bytes(data))

    def read_until(self, message_terminator, timeout=None):
        from qmi.core.exceptions import QMI_TimeoutException
        self._tick()
        self.reads += 1
        while True:
            i = self.buf.find(message_terminator)
            if i >= 0:
                n = i + len(message_terminator)
                out = bytes(self.buf[:n])
                del self.buf[:n]
                return out
            if not self.script:
                raise QMI_TimeoutException("fake: no more data")
            seg = self.script.pop(0)
            if seg is None:
                raise QMI_TimeoutException("fake: scripted timeout")
            self.buf += seg

    def all_reads(self, term: bytes = b"\n") -> list:
        """(harness side) the sequence of read outcomes this script produces: bytes or None (timeout)."""
        t = ScriptedLineTransport(self.script, budget=10 ** 9)
        t.buf = bytearray(self.buf)
        out = []
        from qmi.core.exceptions import QMI_TimeoutException
        while t.script or t.buf.find(term) >= 0:
            try:
                out.append(t.read_until(term))
            except QMI_TimeoutException:
                out.append(None)
        return out


class BufferTransport:
    """Fake QMI_Transport for the APT layer: `read(nbytes)` returns exactly nbytes or times out (buffer kept)."""

    def __init__(self, data: bytes = b"", budget: int = 50):
        self.buf = bytearray(data)
        self.written: list = []
        self.reads: list = []          # (nbytes, timeout) of every read call
        self.budget = budget

    def discard_read(self):
        self._tick()
        self.buf.clear()

    def _tick(self):
        self.budget -= 1
        if self.budget < 0:
            raise IoBudgetExceeded()

    def write(self, data):
        self._tick()
        self.written.append(bytes(data))

    def read(self, nbytes, timeout=None):
        from qmi.core.exceptions import QMI_TimeoutException
        self._tick()
        self.reads.append((nbytes, timeout))
        if len(self.buf) < nbytes:
            raise QMI_TimeoutException("fake: not enough data")
        out = bytes(self.buf[:nbytes])
        del self.buf[:nbytes]
        return out


def hx(b: bytes) -> str:
    return b.hex() if len(b) else "-"


def _exc(e: BaseException) -> str:
    return f"exc:{type(e).__name__}"


# =====================================================================================================
# 3. independent reference device (from the protocol documents, not from QMI)
# =====================================================================================================

# --- NKT Photonics SDK manual, ch. 2: [SOT=0x0D] dest src type reg data… CRC_hi CRC_lo [EOT=0x0A];
#     CRC-CCITT (XModem: poly 0x1021, init 0) over dest…data; 0x0A, 0x0D, 0x5E inside the telegram are sent as
#     0x5E followed by the value + 0x40.
IB_SPECIAL = (0x0A, 0x0D, 0x5E)


def ref_ib_encode(dest: int, src: int, mtype: int, reg: int, data: bytes) -> bytes:
    tele = bytes([dest, src, mtype, reg]) + bytes(data)
    tele += binascii.crc_hqx(tele, 0).to_bytes(2, "big")
    out = bytearray([0x0D])
    for b in tele:
        if b in IB_SPECIAL:
            out += bytes([0x5E, b + 0x40])
        else:
            out.append(b)
    out.append(0x0A)
    return bytes(out)


def ref_ib_decode(frame: bytes) -> Optional[tuple]:
    """Strict device-side telegram parser; None = not a valid telegram."""
    if len(frame) < 2 or frame[0] != 0x0D or frame[-1] != 0x0A:
        return None
    tele = bytearray()
    it = iter(frame[1:-1])
    for b in it:
        if b in (0x0A, 0x0D):
            return None
        if b == 0x5E:
            n = next(it, None)
            if n is None or (n - 0x40) not in IB_SPECIAL:
                return None
            tele.append(n - 0x40)
        else:
            tele.append(b)
    if len(tele) < 6:
        return None
    if binascii.crc_hqx(bytes(tele[:-2]), 0) != int.from_bytes(tele[-2:], "big"):
        return None
    return tele[0], tele[1], tele[2], tele[3], bytes(tele[4:-2])


# --- Thorlabs APT communications protocol: 6-byte header, little endian.
#     header only:  id(word) param1(byte) param2(byte) dest(byte) source(byte)
#     with data:    id(word) length(word) dest|0x80(byte) source(byte), then `length` data bytes
#     data formats as listed per message in the document (word=H, short=h, dword=I, long=l, char[N]=Ns)
APT_DOC = {
    "HW_GET_INFO": (0x0006, "<l8sHI60sHHH", False),
    "MOD_GET_CHANENABLESTATE": (0x0212, "<HBBBB", True),
    "MOT_MOVE_HOMED": (0x0444, "<HBBBB", True),
    "MOT_MOVE_COMPLETED": (0x0464, "<HBBBB", True),
    "MOT_MOVE_ABSOLUTE": (0x0453, "<Hl", False),
    "MOT_GET_USTATUSUPDATE": (0x0491, "<HlHhI", False),
    "MOT_SET_EEPROMPARAMS": (0x04B9, "<HH", False),
    "POL_GET_SET_PARAMS": (0x0532, "<HHHHHH", False),
}


# messages of the K10CR1 (same document): id -> format of the data part, None = header-only message with two parameter bytes.
# (HW_GET_INFO's serial number is a "long" in the document; serial numbers are positive, 'L' is used for the field check.)
K10_DOC = {
    0x0223: None, 0x0210: None, 0x0211: None, 0x0212: None, 0x0005: None, 0x0411: None, 0x0414: None, 0x043B: None,
    0x0441: None, 0x0443: None, 0x0444: None, 0x0465: None, 0x0429: None,
    0x0006: "<L8s" + "H" + "4s" + "60s" + "HHH", 0x0412: "<Hl", 0x0413: "<Hlll", 0x0415: "<Hlll", 0x043A: "<Hl", 0x043C: "<Hl",
    0x0440: "<HHHll", 0x0442: "<HHHll", 0x0448: "<Hl", 0x0453: "<Hl", 0x0464: "<HlHHL", 0x0466: "<HlHHL", 0x042A: "<HL",
}


def ref_k10_message(rng, mid: int, dest: int = 0x01, source: int = 0x50) -> tuple:
    """(wire bytes, data values) of one device→host message with id `mid`, per the document."""
    fmt = K10_DOC[mid]
    if fmt is None:
        p1, p2 = rng.choice([0, 1, 2, 255, rng.randrange(256)]), rng.choice([0, 1, 2, 255, rng.randrange(256)])
        return struct.pack("<HBBBB", mid, p1, p2, dest, source), [p1, p2]
    dv = gen_doc_values(rng, fmt)
    data = doc_pack(fmt, dv)
    return ref_apt_header_data(mid, len(data), dest, source) + data, dv


def ref_apt_parse(wire: bytes) -> Optional[dict]:
    """Device-side parser of one host→device message; None = not exactly one well-formed message."""
    if len(wire) < 6:
        return None
    mid, = struct.unpack_from("<H", wire, 0)
    dest, source = wire[4], wire[5]
    if dest & 0x80:
        length, = struct.unpack_from("<H", wire, 2)
        if len(wire) != 6 + length:
            return None
        return {"id": mid, "dest": dest & 0x7F, "source": source, "data": wire[6:]}
    if len(wire) != 6:
        return None
    return {"id": mid, "p1": wire[2], "p2": wire[3], "dest": dest, "source": source, "data": None}


def ref_apt_header_data(mid: int, length: int, dest: int, source: int) -> bytes:
    return struct.pack("<HHBB", mid, length, dest | 0x80, source)


# --- PicoQuant TTTR T2 record (HydraHarp V2 / MultiHarp / TimeHarp260): bit31 special, bits30..25 channel,
#     bits24..0 timetag.  special=1: channel 0x3F = overflow (timetag = number of wrap-arounds, T2WRAPAROUND = 2^25),
#     channel 0 = sync, channels 1..15 = markers.  true time = oflcorrection + timetag.
T2_WRAP = 33554432


def ref_t2_decode(records, ofl: int = 0):
    """Returns (events, ofl): events = [(kind, channel, truetime)], kind ∈ photon/sync/marker."""
    ev = []
    for r in records:
        special = (r >> 31) & 1
        channel = (r >> 25) & 0x3F
        tag = r & (T2_WRAP - 1)
        if special:
            if channel == 0x3F:
                ofl += T2_WRAP * tag
            elif channel == 0:
                ev.append(("sync", 0, ofl + tag))
            else:
                ev.append(("marker", channel, ofl + tag))
        else:
            ev.append(("photon", channel, ofl + tag))
    return ev, ofl


# --- PicoQuant TTTR T3 record: bit31 special, bits30..25 channel, bits24..10 dtime, bits9..0 nsync.  special & channel 0x3F:
#     sync-counter overflow, nsync = number of wrap-arounds of the 10-bit counter (T3WRAPAROUND = 1024); channels 1..15 markers.
#     true sync number = oflcorrection + nsync; time = truensync * sync period + dtime * resolution.
T3_WRAP = 1024


def ref_t3_decode(records, period_ps: int, res_ps: int, ofl: int = 0):
    """Returns ([(kind, channel, time_ps, truensync)], ofl)."""
    ev = []
    for r in records:
        special, channel = (r >> 31) & 1, (r >> 25) & 0x3F
        dtime, nsync = (r >> 10) & 0x7FFF, r & 0x3FF
        if special and channel == 0x3F:
            ofl += T3_WRAP * nsync
            continue
        true = ofl + nsync
        ev.append(("marker" if special else "photon", channel, true * period_ps + dtime * res_ps, true))
    return ev, ofl


def t2_expected_type(kind: str, channel: int) -> int:
    """QMI's documented event type: 0.. = channel, 64 = SYNC, 65..79 = markers."""
    return channel if kind == "photon" else 64 if kind == "sync" else 64 + channel


# =====================================================================================================
# 4. running the real code
# =====================================================================================================

def _ib_mod():
    import importlib
    import logging
    mod = importlib.import_module("qmi.instruments.nkt_photonics.nkt_photonics_interbus_protocol")
    logging.getLogger(mod.__name__).disabled = True
    return mod


def script_str(script) -> str:
    return "." if not script else ",".join("T" if s is None else hx(s) for s in script)


def _show_msg(m) -> str:
    t = m.message_type.value if hasattr(m.message_type, "value") else m.message_type
    return f"ok {m.destination} {m.source} {t} {m.register_number} {hx(bytes(m.data))}"


def _show_tr(proto, tr) -> str:
    w = "." if not tr.written else ";".join(hx(x) for x in tr.written)
    return f"|tg={proto._source_toggle}|w={w}|reads={tr.reads}|buf={hx(bytes(tr.buf))}|left={len(tr.script)}"


def impl_ib_enc(d, s, t, r, data):
    mod = _ib_mod()
    try:
        return "ok " + hx(mod._encode_interbus_message(mod.InterbusMessage(d, s, mod.MessageType(t), r, data)))
    except Exception as e:  # noqa
        return _exc(e)


def impl_ib_dec(w: bytes):
    mod = _ib_mod()
    try:
        return _show_msg(mod._decode_interbus_message(w))
    except Exception as e:  # noqa
        return _exc(e)


def impl_ib_crc(bs: bytes) -> str:
    mod = _ib_mod()
    c = 0
    for b in bs:
        c = mod._crc_ccitt(c, b)
    return str(c)


def impl_ib_rr(kind, tg, dest, mtype, reg, data, script):
    """kind ∈ rr/get/set.  Returns (output line, result object or exception, transport)."""
    mod = _ib_mod()
    tr = ScriptedLineTransport(script)
    proto = mod.NKTPhotonicsInterbusProtocol(tr, timeout=0.01)
    proto._source_toggle = tg
    try:
        if kind == "rr":
            res = proto._request_response(dest, mod.MessageType(mtype), reg, data)
            line = _show_msg(res)
        elif kind == "get":
            res = proto.get_register(dest, reg)
            line = "ok " + hx(bytes(res))
        else:
            res = proto.set_register(dest, reg, data)
            line = "ok" if res is None else f"ok? {res!r}"
    except Exception as e:  # noqa
        res = e
        line = _exc(e)
    return line + _show_tr(proto, tr), res, tr


def _apt_mods():
    import importlib
    return (importlib.import_module("qmi.instruments.thorlabs.apt_protocol"),
            importlib.import_module("qmi.instruments.thorlabs.apt_packets"))


def apt_flat_fields(cls) -> list:
    """[(name, count, is_char, offset, elem_size)] from the live class."""
    import ctypes
    out = []
    for fname, ftype, *_ in all_fields(cls):
        d = getattr(cls, fname)
        count, elem = 1, ftype
        if hasattr(ftype, "_length_"):
            count, elem = ftype._length_, ftype._type_
        out.append((fname, count, getattr(elem, "_type_", None) == "c", d.offset, ctypes.sizeof(elem)))
    return out


def apt_obj_values(obj) -> list:
    """Flattened field values as the driver sees them (char arrays: raw bytes of the field)."""
    vals = []
    raw = bytes(obj)
    for name, count, is_char, off, esz in apt_flat_fields(type(obj)):
        v = getattr(obj, name)
        if is_char:
            vals += list(raw[off:off + count])
        elif hasattr(v, "__len__"):
            vals += [int(x) for x in v]
        else:
            vals.append(int(v))
    return vals


def apt_make_obj(cls, vals: list):
    """Build a packet the way a driver does: by assigning field values."""
    obj = cls()
    i = 0
    for (name, count, is_char, off, esz), (_, ftype, *_) in zip(apt_flat_fields(cls), all_fields(cls)):
        if is_char:
            setattr(obj, name, bytes(vals[i:i + count]))
        elif hasattr(ftype, "_length_"):
            setattr(obj, name, ftype(*vals[i:i + count]))
        else:
            setattr(obj, name, vals[i])
        i += count
    return obj


def ints_str(vs) -> str:
    return "." if not vs else ",".join(str(int(v)) for v in vs)


def impl_apt_wp(dev, host, mid, p1, p2) -> str:
    ap, _ = _apt_mods()
    tr = BufferTransport()
    try:
        ap.AptProtocol(tr, apt_device_address=dev, host_address=host, default_timeout=0.01).write_param_command(mid, p1, p2)
        return hx(b"".join(tr.written))
    except Exception as e:  # noqa
        return _exc(e)


def impl_apt_wd(dev, host, mid, name, vals) -> str:
    ap, pk = _apt_mods()
    tr = BufferTransport()
    try:
        obj = apt_make_obj(getattr(pk, name), vals)
        ap.AptProtocol(tr, apt_device_address=dev, host_address=host, default_timeout=0.01).write_data_command(mid, obj)
        return hx(b"".join(tr.written))
    except Exception as e:  # noqa
        return _exc(e)


def impl_apt_ask(dev, host, name, buf: bytes):
    ap, pk = _apt_mods()
    tr = BufferTransport(buf)
    try:
        obj = ap.AptProtocol(tr, apt_device_address=dev, host_address=host, default_timeout=0.01).ask(getattr(pk, name))
        return f"ok {ints_str(apt_obj_values(obj))}|buf={hx(bytes(tr.buf))}", obj
    except Exception as e:  # noqa
        return _exc(e) + f"|buf={hx(bytes(tr.buf))}", e


def impl_apt_askt(dev, host, name, dflt, t, buf: bytes):
    ap, pk = _apt_mods()
    tr = BufferTransport(buf)

    def rd():
        return ",".join(f"{n}:{'N' if tm is None else int(tm)}" for n, tm in tr.reads)
    try:
        proto = ap.AptProtocol(tr, apt_device_address=dev, host_address=host, default_timeout=dflt)
        obj = proto.ask(getattr(pk, name)) if t is None else proto.ask(getattr(pk, name), t)
        return f"ok {ints_str(apt_obj_values(obj))}|buf={hx(bytes(tr.buf))}|rd={rd()}", obj, tr
    except Exception as e:  # noqa
        return _exc(e) + f"|buf={hx(bytes(tr.buf))}|rd={rd()}", e, tr


def _k10(tr):
    import importlib
    k = importlib.import_module("qmi.instruments.thorlabs.k10cr1")
    obj = k.Thorlabs_K10CR1.__new__(k.Thorlabs_K10CR1)
    obj._transport = tr
    obj._name = "k10"
    return k, obj


def k10_classes() -> dict:
    import importlib
    k = importlib.import_module("qmi.instruments.thorlabs.k10cr1")
    return {c.__name__: c for c in k._apt_message_type_table.values()}


def impl_k10_read(buf: bytes):
    tr = BufferTransport(buf)
    k, obj = _k10(tr)
    try:
        m = obj._read_message(timeout=1.0)
        return f"ok {type(m).__name__} {ints_str(apt_obj_values(m))}|buf={hx(bytes(tr.buf))}", m
    except Exception as e:  # noqa
        return _exc(e) + f"|buf={hx(bytes(tr.buf))}", e


class _FakeTime:
    """`time` seen by k10cr1 during `_wait_message`: the n-th monotonic() call returns t0 + n*step (exact floats)."""

    def __init__(self, t0, step):
        self.t0, self.step, self.n = t0, step, 0

    def monotonic(self):
        v = float(self.t0 + self.n * self.step)
        self.n += 1
        if self.n > 10000:
            raise IoBudgetExceeded()
        return v

    def sleep(self, dt):
        pass


def impl_k10_wait(name: str, t0: int, step: int, timeout: int, buf: bytes):
    tr = BufferTransport(buf, budget=2000)
    k, obj = _k10(tr)
    tmos = []
    orig = obj._read_message

    def rec(timeout):
        tmos.append(timeout)
        return orig(timeout=timeout)
    obj._read_message = rec
    real_time = k.time
    k.time = _FakeTime(t0, step)
    try:
        m = obj._wait_message(k10_classes()[name], float(timeout))
        line, res = f"ok {type(m).__name__} {ints_str(apt_obj_values(m))}", m
    except Exception as e:  # noqa
        line, res = _exc(e), e
    finally:
        k.time = real_time
    ts = "." if not tmos else ",".join(str(int(x)) if float(x).is_integer() else repr(x) for x in tmos)
    return line + f"|buf={hx(bytes(tr.buf))}|tmo={ts}", res


def impl_k10_send(msg: bytes, buf: bytes):
    tr = BufferTransport(buf)
    k, obj = _k10(tr)
    try:
        obj._send_message(msg)
        return f"ok|w={hx(b''.join(tr.written)) if tr.written else '.'}|buf={hx(bytes(tr.buf))}", tr
    except Exception as e:  # noqa
        return _exc(e) + f"|w={hx(b''.join(tr.written)) if tr.written else '.'}|buf={hx(bytes(tr.buf))}", tr


K10_HEADER_FIELDS = ("message_id", "data_length", "dest", "source", "_dummy")


def impl_k10_create(name: str, kw_vals: list):
    cls = k10_classes()[name]
    try:
        kwargs, i = {}, 0
        for (fname, count, is_char, off, esz), (_, ftype, *_) in zip(apt_flat_fields(cls), all_fields(cls)):
            if fname in K10_HEADER_FIELDS:
                continue
            vals = kw_vals[i:i + count]
            i += count
            kwargs[fname] = bytes(vals) if is_char else ftype(*vals) if hasattr(ftype, "_length_") else vals[0]
        return hx(bytes(cls.create(**kwargs)))
    except Exception as e:  # noqa
        return _exc(e)


def impl_t3(batches, period_ps: int, res_ps: int, counter0: int = 0):
    """One real T3 decoder fed batch after batch: [(counter before, counter after, [(type, ts)] or exception name)]."""
    import importlib
    import numpy as np
    dec_mod = importlib.import_module("qmi.instruments.picoquant.support._decoders")
    dec = dec_mod._T3EventDecoder(sync_frequency_hz=1E12 / period_ps, resolution_ps=float(res_ps))
    if dec._sync_period_ps != float(period_ps):       # 1e12 / (1e12 / P) is not always P in float64
        dec._sync_period_ps = float(period_ps)
    dec._overflow_counter = counter0
    out = []
    for b in batches:
        c_before = int(dec._overflow_counter)
        try:
            ev = [(int(e["type"]), int(e["timestamp"])) for e in dec.process_data(np.array(b, dtype=np.uint32))]
            out.append((c_before, int(dec._overflow_counter), ev))
        except Exception as e:  # noqa
            out.append((c_before, int(dec._overflow_counter), _exc(e)))
    return out


def impl_t2(batches, counter0: int = 0):
    """Feed the batches to one real decoder.  Returns ([line per batch], [(type, ts)] concatenated, final counter)."""
    import importlib
    import numpy as np
    dec_mod = importlib.import_module("qmi.instruments.picoquant.support._decoders")
    dec = dec_mod._T2EventDecoder()
    dec._overflow_counter = counter0
    lines, events = [], []
    for b in batches:
        try:
            out = dec.process_data(np.array(b, dtype=np.uint32))
            ev = [(int(e["type"]), int(e["timestamp"])) for e in out]
            events += ev
            lines.append(f"c={int(dec._overflow_counter)} ev=" + ("." if not ev else ",".join(f"{t}:{ts}" for t, ts in ev)))
        except Exception as e:  # noqa
            lines.append(_exc(e))
    return lines, events, int(dec._overflow_counter)


# =====================================================================================================
# 5. generators
# =====================================================================================================

IB_HOT = [0x0A, 0x0D, 0x5E, 0x4A, 0x4D, 0x9E, 0x1E, 0x00, 0xFF, 0x5D, 0x5F, 0x40]


def gen_payload(rng, max_len: int = 240) -> bytes:
    r = rng.random()
    if r < 0.30:
        n = rng.choice([0, 1, 2, 3, max_len - 1, max_len])
    elif r < 0.85:
        n = rng.randint(0, 24)
    else:
        n = rng.randint(0, max_len)
    mode = rng.random()
    if mode < 0.45:      # biased to the reserved / escape-related bytes
        return bytes(rng.choice(IB_HOT) if rng.random() < 0.7 else rng.randrange(256) for _ in range(n))
    if mode < 0.55:
        return bytes([rng.choice(IB_SPECIAL)]) * n
    return bytes(rng.randrange(256) for _ in range(n))


def payload_with_reserved_crc(rng, want: int, tries: int = 4000) -> Optional[tuple]:
    """A valid message whose CRC contains the reserved byte `want` (found by search)."""
    for _ in range(tries):
        d, s, t, r = rng.randint(1, 160), rng.randint(161, 255), rng.randint(0, 9), rng.randrange(256)
        data = bytes(rng.randrange(256) for _ in range(rng.randint(0, 6)))
        c = binascii.crc_hqx(bytes([d, s, t, r]) + data, 0)
        if want in (c >> 8, c & 0xFF):
            return d, s, t, r, data
    return None


def split_bytes(rng, b: bytes, max_parts: int = 4) -> list:
    if len(b) < 2 or rng.random() < 0.4:
        return [b]
    k = rng.randint(1, min(max_parts, len(b)) - 1) if min(max_parts, len(b)) > 1 else 0
    cuts = sorted(rng.sample(range(1, len(b)), k)) if k else []
    return [b[i:j] for i, j in zip([0] + cuts, cuts + [len(b)])]


def ib_class(d, s, t, r, data: bytes) -> str:
    n = len(data)
    ln = "0" if n == 0 else "1" if n == 1 else "239" if n == 239 else "240" if n == 240 else ">240" if n > 240 else "mid"
    tele = bytes([d & 255, s & 255, t & 255, r & 255]) + data
    c = binascii.crc_hqx(tele, 0)
    res = sorted({f"{b:02x}" for b in tele if b in IB_SPECIAL})
    crcres = sorted({f"{b:02x}" for b in (c >> 8, c & 0xFF) if b in IB_SPECIAL})
    return f"len={ln}" + (f",reserved={'+'.join(res)}" if res else "") + (f",crc-reserved={'+'.join(crcres)}" if crcres else "")


T2_SPECIAL = 1 << 31


def t2_rec(kind: str, channel: int, tag: int) -> int:
    if kind == "photon":
        return (channel << 25) | tag
    if kind == "sync":
        return T2_SPECIAL | tag
    if kind == "marker":
        return T2_SPECIAL | (channel << 25) | tag
    return T2_SPECIAL | (0x3F << 25) | tag      # overflow, tag = count


def gen_t2_stream(rng, n: int) -> list:
    out = []
    for _ in range(n):
        k = rng.random()
        tag = rng.choice([0, 1, T2_WRAP - 1, T2_WRAP - 2]) if rng.random() < 0.4 else rng.randrange(T2_WRAP)
        if k < 0.45:
            out.append(t2_rec("photon", rng.choice([0, 1, 7, 62, 63, rng.randrange(64)]), tag))
        elif k < 0.55:
            out.append(t2_rec("sync", 0, tag))
        elif k < 0.65:
            out.append(t2_rec("marker", rng.randint(1, 15), tag))
        else:
            out.append(t2_rec("overflow", 0x3F, rng.choice([1, 1, 1, 2, 3, 255, T2_WRAP - 1, rng.randint(1, 1000)])))
    return out


def all_splits(seq: list):
    """Every way of cutting `seq` into consecutive non-empty batches."""
    n = len(seq)
    if n == 0:
        yield []
        return
    for mask in range(1 << (n - 1)):
        cuts = [i + 1 for i in range(n - 1) if mask >> i & 1]
        yield [seq[i:j] for i, j in zip([0] + cuts, cuts + [n])]


_FMT_RANGE = {"B": (0, 255), "b": (-128, 127), "H": (0, 65535), "h": (-32768, 32767), "I": (0, 2 ** 32 - 1),
              "i": (-2 ** 31, 2 ** 31 - 1), "l": (-2 ** 31, 2 ** 31 - 1), "L": (0, 2 ** 32 - 1)}


def fmt_cells(fmt: str) -> list:
    """struct format -> [(code, count)] (Ns = N chars)"""
    out, num = [], ""
    for ch in fmt.lstrip("<"):
        if ch.isdigit():
            num += ch
        else:
            out.append((ch, int(num) if num else 1))
            num = ""
    return out


def gen_doc_values(rng, fmt: str, nul_free_chars: bool = False) -> list:
    """Values for one packet per the document's format: flattened ints (chars and raw blobs as byte values)."""
    vals = []
    for code, count in fmt_cells(fmt):
        if code == "s":
            if nul_free_chars:
                k = rng.randint(0, count)
                vals += [rng.randint(1, 255) for _ in range(k)] + [0] * (count - k)
            else:
                vals += [rng.choice([0, 0x41, 0xFF, rng.randrange(256)]) for _ in range(count)]
        else:
            lo, hi = _FMT_RANGE[code]
            for _ in range(count):
                vals.append(rng.choice([lo, hi, 0, 1, -1 if lo < 0 else hi - 1, rng.randint(lo, hi), rng.randint(lo, hi)]))
    return vals


def doc_pack(fmt: str, vals: list) -> bytes:
    args, i = [], 0
    for code, count in fmt_cells(fmt):
        if code == "s":
            args.append(bytes(vals[i:i + count]))
            i += count
        else:
            args += vals[i:i + count]
            i += count
    return struct.pack(fmt, *args)


def doc_to_cell_values(fmt: str, cls, vals: list) -> list:
    """Re-group the document's flattened values (blobs as bytes) into the live class's cells (e.g. 60s -> 15 dwords)."""
    raw = doc_pack(fmt, vals)
    obj = cls.from_buffer_copy(raw) if len(raw) >= __import__("ctypes").sizeof(cls) else None
    return apt_obj_values(obj) if obj is not None else vals


# =====================================================================================================
# 6. cases: one function per case kind -> (op lines, implementation outputs, oracle failures)
#    A failure is (clause, input class, summary).  Cases are JSON-able dicts (bytes as hex) so they replay.
# =====================================================================================================

def ref_ib_decode_lenient(frame: bytes) -> Optional[tuple]:
    """Like ref_ib_decode, but an unknown escape pair / a raw CR inside is taken literally.  Only used to tell a
    genuine 16-bit checksum collision of a damaged telegram from an accepted bad checksum."""
    if len(frame) < 2 or frame[0] != 0x0D or frame[-1] != 0x0A:
        return None
    inner, tele, i = frame[1:-1], bytearray(), 0
    while i < len(inner):
        if inner[i] == 0x5E and i + 1 < len(inner) and (inner[i + 1] - 0x40) in IB_SPECIAL:
            tele.append(inner[i + 1] - 0x40)
            i += 2
        else:
            tele.append(inner[i])
            i += 1
    if len(tele) < 6 or binascii.crc_hqx(bytes(tele[:-2]), 0) != int.from_bytes(tele[-2:], "big"):
        return None
    return tele[0], tele[1], tele[2], tele[3], bytes(tele[4:-2])


def ib_valid_request(d, s, t, r, data) -> bool:
    return 1 <= d <= 160 and 161 <= s <= 255 and 0 <= t <= 9 and 0 <= r <= 255 and len(data) <= 240


def _msg_tuple(line: str) -> Optional[tuple]:
    """parse an `ok d s t r hex…` output line back into a tuple"""
    f = line.split("|")[0].split(" ")
    if f[0] != "ok" or len(f) != 6:
        return None
    return int(f[1]), int(f[2]), int(f[3]), int(f[4]), (b"" if f[5] == "-" else bytes.fromhex(f[5]))


def case_ib_codec(c: dict):
    d, s, t, r, data = c["d"], c["s"], c["t"], c["r"], bytes.fromhex(c["data"])
    lines, outs, fails = [], [], []
    cls = ib_class(d, s, t, r, data)
    valid = ib_valid_request(d, s, t, r, data)
    # QMI encodes, the reference device decodes
    lines.append(f"ib.enc {d} {s} {t} {r} {hx(data)}")
    o = impl_ib_enc(d, s, t, r, data)
    outs.append(o)
    if o.startswith("ok "):
        w = bytes.fromhex(o[3:])
        got = ref_ib_decode(w)
        if valid and got != (d, s, t, r, data):
            fails.append(("encode-roundtrip", cls, f"QMI encoded {(d, s, t, r, data.hex())} as {w.hex()}; a conforming device "
                          f"decodes {got if got is None else got[:4] + (got[4].hex(),)}"))
        lines.append(f"ib.dec {hx(w)}")
        outs.append(impl_ib_dec(w))
    elif valid:
        fails.append(("encode-rejects-valid", cls, f"QMI refused to encode the valid message {(d, s, t, r, data.hex())}: {o}"))
    # the reference device encodes, QMI decodes
    if all(0 <= x <= 255 for x in (d, s, t, r)):
        rf = ref_ib_encode(d, s, t, r, data)
        lines.append(f"ib.dec {hx(rf)}")
        o2 = impl_ib_dec(rf)
        outs.append(o2)
        if 0 <= t <= 9 and _msg_tuple(o2) != (d, s, t, r, data):
            fails.append(("decode-roundtrip", cls, f"device sent {(d, s, t, r, data.hex())} as {rf.hex()}; QMI decoded: {o2}"))
        tele = bytes([d, s, t, r]) + data
        lines.append(f"ib.crc {hx(tele)}")
        o3 = impl_ib_crc(tele)
        outs.append(o3)
        if o3 != str(binascii.crc_hqx(tele, 0)):
            fails.append(("crc-value", cls, f"CRC-CCITT of {tele.hex()} is {binascii.crc_hqx(tele, 0)}, QMI computes {o3}"))
    return lines, outs, fails


def case_ib_wire(c: dict):
    """An arbitrary (usually damaged) frame handed to the decoder."""
    w = bytes.fromhex(c["wire"])
    lines = [f"ib.dec {hx(w)}"]
    o = impl_ib_dec(w)
    fails = []
    strict, lenient = ref_ib_decode(w), ref_ib_decode_lenient(w)
    got = _msg_tuple(o)
    if got is None and o != "exc:ValueError":
        fails.append(("unexpected-exception", c.get("cls", "wire"), f"decoding {w.hex()}: {o} (only ValueError is caught by the retry loop)"))
    if c.get("oracle", True):
        if got is not None and strict is None and lenient is None:
            fails.append(("corrupt-accepted", c.get("cls", "wire"), f"frame {w.hex()} breaks the framing/checksum rules but QMI returned {o}"))
        elif got is not None and strict is None and got != lenient:
            fails.append(("noncanonical-misread", c.get("cls", "wire"), f"frame {w.hex()} read literally is {lenient}; QMI returned {o}"))
        elif got is not None and strict is not None and got != strict:
            fails.append(("decode-roundtrip", c.get("cls", "wire"), f"frame {w.hex()} carries {strict}; QMI returned {o}"))
        elif got is None and strict is not None and 0 <= strict[2] <= 9:
            fails.append(("decode-rejects-valid", c.get("cls", "wire"), f"frame {w.hex()} is a valid telegram {strict}; QMI: {o}"))
    return lines, [o], fails


def _unhex_script(sc) -> list:
    return [None if x is None else bytes.fromhex(x) for x in sc]


def case_ib_rr(c: dict):
    kind, tg, dest, t, reg = c["op"], c["tg"], c["dest"], c["t"], c["reg"]
    data = bytes.fromhex(c["data"])
    script = _unhex_script(c["script"])
    if kind == "rr":
        line = f"ib.rr {tg} {dest} {t} {reg} {hx(data)} {script_str(script)}"
    elif kind == "get":
        line = f"ib.get {tg} {dest} {reg} {script_str(script)}"
    else:
        line = f"ib.set {tg} {dest} {reg} {hx(data)} {script_str(script)}"
    o, res, tr = impl_ib_rr(kind, tg, dest, t, reg, (None if (kind == "set" and c.get("none")) else data), script)
    fails = []
    cls = c.get("cls", "script")
    req_t = t if kind == "rr" else 4 if kind == "get" else 5
    valid_req = ib_valid_request(dest, 161, req_t, reg, data)
    # (a) everything QMI wrote is the request, readable by a conforming device
    req_src = None
    for w in tr.written:
        got = ref_ib_decode(w)
        if got is None or got[0] != dest or got[2:] != (req_t, reg, data) or not 161 <= got[1] <= 255:
            if valid_req:
                fails.append(("encode-roundtrip", ib_class(dest, 161, req_t, reg, data),
                              f"request {(dest, req_t, reg, data.hex())} was written as {w.hex()}; a conforming device decodes {got}"))
                break
        elif req_src is None:
            req_src = got[1]
        elif got[1] != req_src:
            fails.append(("retry-changes-source", cls, f"retries of one request used sources {req_src} and {got[1]}"))
            break
    if valid_req and not tr.written:
        fails.append(("request-not-sent", cls, f"nothing was written for the valid request {(dest, req_t, reg, data.hex())}"))
    # (b) what QMI returned, against the device's telegrams in arrival order
    if req_src is not None and not fails:
        reads = ScriptedLineTransport(script).all_reads()
        first = None       # first intact telegram addressed to this request
        for i, fr in enumerate(reads):
            if fr is None:
                continue
            g = ref_ib_decode(fr)
            if g is not None and 0 <= g[2] <= 9 and g[1] == dest and g[0] == req_src:
                first = (i, g, fr)
                break
        returned = not isinstance(res, BaseException)
        if kind == "rr":
            got = _msg_tuple(o)
            if returned and first is None:
                # tolerated only for a genuine checksum collision of a damaged telegram (lenient reading)
                ok_l = [ref_ib_decode_lenient(fr) for fr in reads if fr is not None]
                if got not in [g for g in ok_l if g is not None and g[1] == dest and g[0] == req_src]:
                    fails.append(("corrupt-accepted", cls, f"no intact telegram for (dest={dest}, src={req_src}) arrived "
                                  f"({[None if f is None else f.hex() for f in reads]}) but QMI returned {o.split('|')[0]}"))
            elif returned and got != first[1]:
                fails.append(("wrong-reply-returned", cls, f"first intact matching telegram is {first[1]} (read #{first[0]}); "
                              f"QMI returned {o.split('|')[0]}"))
            elif not returned and first is not None and first[0] == 0:
                fails.append(("valid-reply-rejected", cls, f"the first telegram {first[2].hex()} is intact and matches; QMI raised {o.split('|')[0]}"))
        else:
            want_t = 8 if kind == "get" else 3
            good = first is not None and first[1][2] == want_t and first[1][3] == reg
            if returned and not good:
                fails.append(("corrupt-accepted" if first is None else "wrong-reply-returned", cls,
                              f"{kind}_register(dest={dest}, reg={reg}) returned {o.split('|')[0]} although the first intact "
                              f"matching telegram is {None if first is None else first[1]}"))
            elif returned and kind == "get" and bytes(res) != first[1][4]:
                fails.append(("payload-altered", cls, f"device sent register data {first[1][4].hex()}; get_register returned {bytes(res).hex()}"))
            elif not returned and good and first[0] == 0:
                fails.append(("valid-reply-rejected", cls, f"the first telegram {first[2].hex()} answers the request; QMI raised {o.split('|')[0]}"))
    if isinstance(res, BaseException) and type(res).__name__ not in ("QMI_InstrumentException", "QMI_TimeoutException", "ValueError"):
        fails.append(("unexpected-exception", cls, f"{line}: {res!r}"))
    return [line], [o], fails


def case_apt_wp(c: dict):
    dev, host, mid, p1, p2 = c["dev"], c["host"], c["id"], c["p1"], c["p2"]
    line = f"apt.wp {dev} {host} {mid} {p1} {p2}"
    o = impl_apt_wp(dev, host, mid, p1, p2)
    fails = []
    if 0 <= dev <= 0x7F and 0 <= host <= 255 and 0 <= mid <= 65535 and 0 <= p1 <= 255 and 0 <= p2 <= 255:
        got = None if o.startswith("exc") else ref_apt_parse(b"" if o == "-" else bytes.fromhex(o))
        want = {"id": mid, "p1": p1, "p2": p2, "dest": dev, "source": host, "data": None}
        if got != want:
            fails.append(("write-param", "header", f"write_param_command({mid:#x}, {p1}, {p2}) dev={dev:#x} host={host:#x} wrote {o}; "
                          f"a conforming device reads {got}"))
    return [line], [o], fails


def case_apt_wd(c: dict):
    dev, host, mid, name, vals = c["dev"], c["host"], c["id"], c["packet"], c["vals"]
    line = f"apt.wd {dev} {host} {mid} {name} {ints_str(vals)}"
    o = impl_apt_wd(dev, host, mid, name, vals)
    fails = []
    doc = APT_DOC.get(name)
    if doc is not None and c.get("in_range", True) and 0 <= dev <= 0x7F and 0 <= host <= 255 and 0 <= mid <= 65535:
        got = None if o.startswith("exc") else ref_apt_parse(b"" if o == "-" else bytes.fromhex(o))
        want = {"id": mid, "dest": dev, "source": host, "data": doc_pack(doc[1], c["doc_vals"])}
        if got != want:
            fails.append(("write-data", name, f"write_data_command({mid:#x}, {name}{c['doc_vals']}) dev={dev:#x} wrote {o}; a conforming "
                          f"device reads {None if got is None else {**got, 'data': got['data'].hex() if got['data'] is not None else None}}, "
                          f"expected data {want['data'].hex()}"))
    return [line], [o], fails


def case_apt_ask(c: dict):
    dev, host, name, buf = c["dev"], c["host"], c["packet"], bytes.fromhex(c["buf"])
    line = f"apt.ask {dev} {host} {name} {hx(buf)}"
    o, res = impl_apt_ask(dev, host, name, buf)
    fails = []
    exp = c.get("expect")
    returned = not isinstance(res, BaseException)
    if exp == "roundtrip":
        want = bytes.fromhex(c["data"])
        if not returned:
            fails.append(("ask-roundtrip", name, f"device sent a well-formed {name} ({buf.hex()}); ask raised {o.split('|')[0]}"))
        elif bytes(res) != want:
            fails.append(("ask-roundtrip", name, f"device sent {name} data {want.hex()}; ask returned {bytes(res).hex()}"))
        else:
            # field access, as a driver does it, against the document's layout
            doc = APT_DOC[name]
            dv, i, fields = c["doc_vals"], 0, apt_flat_fields(type(res))
            docc = fmt_cells(doc[1])
            if len(docc) == len(fields):
                for (code, count), (fname, fcount, is_char, off, esz) in zip(docc, fields):
                    wantv = dv[i:i + count]
                    i += count
                    v = getattr(res, fname)
                    if code == "s" and is_char:
                        okv = bytes(v) == bytes(wantv).split(b"\0")[0]
                    elif code == "s":
                        okv = bytes(memoryview(v)) == bytes(wantv)
                    else:
                        okv = [int(v)] == wantv
                    if not okv:
                        fails.append(("ask-field", f"{name}.{fname}", f"device sent {fname}={wantv}; driver reads {v!r}"))
                        break
    elif exp == "reject":
        if returned:
            fails.append(("ask-wrong-id", name, f"device sent a data message with id {c['sent_id']:#x} while {name} "
                          f"(id {c['want_id']:#x}) was expected; ask returned {bytes(res).hex()}"))
    elif exp == "data-or-raise":
        if returned and bytes(res) != bytes.fromhex(c["data"]):
            fails.append(("ask-wrong-data", name, f"device sent {name} data {c['data']}; ask returned {bytes(res).hex()}"))
    if isinstance(res, BaseException) and type(res).__name__ not in ("QMI_InstrumentException", "QMI_TimeoutException", "ValueError"):
        fails.append(("unexpected-exception", name, f"{line}: {res!r}"))
    return [line], [o], fails


def case_ib_seq(c: dict):
    """Several requests through ONE protocol object over ONE transport (source toggle, stale replies of retried requests)."""
    mod = _ib_mod()
    tr = ScriptedLineTransport(_unhex_script(c["script"]), budget=400)
    proto = mod.NKTPhotonicsInterbusProtocol(tr, timeout=0.01)
    proto._source_toggle = c["tg"]
    lines, outs, fails = [], [], []
    for (dest, t, reg, datahex) in c["ops"]:
        data = bytes.fromhex(datahex)
        tg0, reads0, nw0 = proto._source_toggle, tr.reads, len(tr.written)
        state = ([bytes(tr.buf)] if tr.buf else []) + list(tr.script)
        lines.append(f"ib.rr {tg0} {dest} {t} {reg} {hx(data)} {script_str(state)}")
        try:
            res = proto._request_response(dest, mod.MessageType(t), reg, data)
            line = _show_msg(res)
        except Exception as e:  # noqa
            res, line = e, _exc(e)
        w = tr.written[nw0:]
        outs.append(line + f"|tg={proto._source_toggle}|w={'.' if not w else ';'.join(hx(x) for x in w)}|reads={tr.reads - reads0}"
                    f"|buf={hx(bytes(tr.buf))}|left={len(tr.script)}")
        # per call: what came back is the first intact telegram addressed to this call's source, or an exception
        srcs = {g[1] for g in (ref_ib_decode(x) for x in w) if g is not None}
        if not isinstance(res, BaseException) and len(srcs) == 1:
            src = srcs.pop()
            reads = ScriptedLineTransport(state).all_reads()
            first, used = None, 0
            for fr in reads:
                if fr is None:
                    continue
                used += len(fr)
                g = ref_ib_decode(fr)
                if g is not None and 0 <= g[2] <= 9 and g[1] == dest and g[0] == src:
                    first = g
                    break
            if _msg_tuple(line) != first:
                fails.append(("wrong-reply-returned", "sequence", f"call {len(lines)} of {c['ops']} on one protocol object: first intact "
                              f"telegram for (dest={dest}, src={src}) is {first}; QMI returned {line}"))
            elif first is not None:
                # stray-byte accounting: exactly the telegrams up to the returned one are gone, nothing of the following ones
                flat = b"".join(x for x in state if x is not None)
                left = bytes(tr.buf) + b"".join(x for x in tr.script if x is not None)
                if left != flat[used:]:
                    fails.append(("session-misframed", "sequence", f"call {len(lines)} of {c['ops']}: the returned telegram ends at stream "
                                  f"offset {used}; {len(flat) - len(left)} bytes are gone — the next exchange starts in the middle of a telegram"))
        if proto._source_toggle == tg0 and not isinstance(res, ValueError):
            fails.append(("source-not-alternated", "sequence", f"two consecutive requests used the same source address (toggle {tg0})"))
    return lines, outs, fails


def case_apt_seq(c: dict):
    """A session: several `ask` calls through ONE AptProtocol over ONE receive stream.

    `asks` = [(class asked for, wire bytes of the device's next message or None, expectation)], expectation =
    `data:<hex>` (this ask must return exactly these bytes), `reject` (a data message with another id: must raise) or
    None (no demand).  Framing: every ask that meets a complete *data* message must consume header + announced length,
    whether it returns or raises, so that the following asks still receive exactly what the device sent; at the end the
    unread rest of the stream must be exactly the device's unread messages."""
    ap, pk = _apt_mods()
    stream = bytes.fromhex(c["buf"])
    tr = BufferTransport(stream, budget=400)
    proto = ap.AptProtocol(tr, apt_device_address=c["dev"], host_address=c["host"], default_timeout=0.01)
    lines, outs, fails = [], [], []
    pos, framed = 0, True        # reference position in the stream; False once the reference itself cannot tell
    for step, (name, wire_hex, expect) in enumerate(c["asks"]):
        lines.append(f"apt.ask {c['dev']} {c['host']} {name} {hx(bytes(tr.buf))}")
        wire = None if wire_hex is None else bytes.fromhex(wire_hex)
        try:
            obj = proto.ask(getattr(pk, name))
            res = bytes(obj)
            outs.append(f"ok {ints_str(apt_obj_values(obj))}|buf={hx(bytes(tr.buf))}")
        except Exception as e:  # noqa
            res = e
            outs.append(_exc(e) + f"|buf={hx(bytes(tr.buf))}")
        if fails:
            continue
        what = f"ask #{step + 1} ({name}) of the session {[(a, w) for a, w, _ in c['asks']]} on one AptProtocol"
        if expect is not None and expect.startswith("data:"):
            if isinstance(res, BaseException):
                fails.append(("session-reply-lost", f"{name}:after-{c.get('cls', 'session')}",
                              f"{what}: the device sent {wire.hex()}; ask raised {_exc(res)}"))
            elif res.hex() != expect[5:]:
                fails.append(("session-wrong-data", f"{name}:after-{c.get('cls', 'session')}",
                              f"{what}: the device sent {wire.hex()} (data {expect[5:]}); ask returned {res.hex()}"))
        elif expect == "reject" and not isinstance(res, BaseException):
            fails.append(("ask-wrong-id", f"{name}:session", f"{what}: the device sent {wire.hex()} (another id); ask returned {res.hex()}"))
        if wire is not None and framed and c.get("framing", True):
            pos += len(wire)
            if not fails and bytes(tr.buf) != stream[pos:]:
                fails.append(("session-misframed", f"{name}:{c.get('cls', 'session')}",
                              f"{what}: the device's message {wire.hex()} ends at offset {pos}; afterwards {len(stream) - len(tr.buf)} bytes "
                              f"had been consumed — the following replies are cut at the wrong place"))
        else:
            framed = False
    return lines, outs, fails


def case_apt_askt(c: dict):
    dev, host, name, buf, dflt, t = c["dev"], c["host"], c["packet"], bytes.fromhex(c["buf"]), c["dflt"], c["t"]
    sh = lambda x: "N" if x is None else str(x)   # noqa
    line = f"apt.askt {dev} {host} {name} {sh(dflt)} {sh(t)} {hx(buf)}"
    o, res, tr = impl_apt_askt(dev, host, name, dflt, t, buf)
    fails = []
    want = t if t is not None else dflt
    if any(tm != want for _, tm in tr.reads):
        fails.append(("ask-timeout-not-passed", name, f"ask(timeout={t}) with default {dflt} read with {tr.reads}"))
    return [line], [o], fails


def _k10_ids(buf: bytes) -> list:
    """(reference view) split a stream of well-formed messages: [(id, wire bytes)], stops at the first malformed one."""
    out, i = [], 0
    while i + 6 <= len(buf):
        mid, = struct.unpack_from("<H", buf, i)
        if buf[i + 4] & 0x80:
            ln, = struct.unpack_from("<H", buf, i + 2)
            fmt = K10_DOC.get(mid)
            if mid in K10_DOC and fmt is None and ln == 0:      # long flag, no data: the six bytes of a header-only message
                out.append((mid, buf[i:i + 6]))
                i += 6
                continue
            if fmt is None or struct.calcsize(fmt) != ln or i + 6 + ln > len(buf):
                break
            out.append((mid, buf[i:i + 6 + ln]))
            i += 6 + ln
        else:
            if mid not in K10_DOC or K10_DOC[mid] is not None:
                break
            out.append((mid, buf[i:i + 6]))
            i += 6
    return out


def _k10_check_obj(obj, wire: bytes, mid: int, what: str) -> Optional[tuple]:
    cls = type(obj).__name__
    if int(type(obj).MESSAGE_ID) != mid:
        return ("k10-wrong-class", cls, f"{what}: device sent id {mid:#06x} ({wire.hex()}); driver got {cls} (id {int(type(obj).MESSAGE_ID):#06x})")
    if bytes(obj) != wire:
        return ("k10-payload-altered", cls, f"{what}: device sent {wire.hex()}; driver got {bytes(obj).hex()}")
    fmt = K10_DOC[mid]
    if fmt is not None:
        vals = struct.unpack(fmt, wire[6:])
        names = [f for f in apt_flat_fields(type(obj)) if f[0] not in ("message_id", "data_length", "dest", "source")]
        if len(names) == len(vals):
            for (fname, count, is_char, off, esz), v in zip(names, vals):
                got = getattr(obj, fname)
                okv = (bytes(got) == v.split(b"\0")[0]) if is_char else (bytes(memoryview(got)) == v) if hasattr(got, "__len__") else (int(got) == v)
                if not okv:
                    return ("k10-field", f"{cls}.{fname}", f"{what}: device sent {fname}={v!r}; driver reads {got!r}")
    return None


def case_k10_read(c: dict):
    buf = bytes.fromhex(c["buf"])
    line = f"k10.read {hx(buf)}"
    o, res = impl_k10_read(buf)
    fails = []
    returned = not isinstance(res, BaseException)
    msgs = _k10_ids(buf)
    exp = c.get("expect")
    if exp == "roundtrip":
        if not returned:
            fails.append(("k10-read-roundtrip", c.get("cls", "?"), f"device sent the well-formed message {msgs[0][1].hex()}; _read_message raised {o.split('|')[0]}"))
        else:
            f = _k10_check_obj(res, msgs[0][1], msgs[0][0], "_read_message")
            if f:
                fails.append(f)
    elif exp == "reject" and returned:
        fails.append(("k10-malformed-accepted", c.get("cls", "?"), f"stream {buf.hex()} does not start with a well-formed message ({c.get('why')}); "
                      f"_read_message returned {type(res).__name__} {bytes(res).hex()}"))
    if isinstance(res, BaseException) and type(res).__name__ not in ("QMI_InstrumentException", "QMI_TimeoutException"):
        fails.append(("unexpected-exception", "k10_read", f"{line}: {res!r}"))
    return [line], [o], fails


def case_k10_wait(c: dict):
    buf = bytes.fromhex(c["buf"])
    name, t0, step, tmo = c["want"], c["t0"], c["step"], c["timeout"]
    line = f"k10.wait {name} {t0} {step} {tmo} {hx(buf)}"
    o, res = impl_k10_wait(name, t0, step, tmo, buf)
    fails = []
    returned = not isinstance(res, BaseException)
    want_id = int(k10_classes()[name].MESSAGE_ID)
    msgs = _k10_ids(buf)
    first = next(((i, m) for i, m in enumerate(msgs) if m[0] == want_id), None)
    if returned:
        if first is None:
            fails.append(("k10-wait-wrong-message", name, f"no well-formed {name} (id {want_id:#06x}) in the stream {buf.hex()}; "
                          f"_wait_message returned {type(res).__name__} {bytes(res).hex()}"))
        else:
            f = _k10_check_obj(res, first[1][1], want_id, "_wait_message")
            if f:
                fails.append(f)
    elif first is not None and first[0] == 0:
        fails.append(("k10-wait-rejects-expected", name, f"the first message {first[1][1].hex()} is the awaited {name}; _wait_message raised {o.split('|')[0]}"))
    if isinstance(res, BaseException) and type(res).__name__ not in ("QMI_InstrumentException", "QMI_TimeoutException"):
        fails.append(("unexpected-exception", "k10_wait", f"{line}: {res!r}"))
    return [line], [o], fails


def case_k10_seq(c: dict):
    """Several calls on ONE Thorlabs_K10CR1 over ONE transport; one device message (or junk) arrives before each call."""
    tr = BufferTransport(b"", budget=600)
    k, obj = _k10(tr)
    real_time = k.time
    k.time = _FakeTime(0, 0)
    lines, outs, fails = [], [], []
    tmos: list = []
    orig = obj._read_message

    def rec(timeout):
        tmos.append(timeout)
        return orig(timeout=timeout)
    try:
        for step, st in enumerate(c["steps"]):
            obj._read_message = rec if st["op"] == "wait" else orig
            del tmos[:]
            left_before = bytes(tr.buf)
            tr.buf += bytes.fromhex(st["feed"])
            buf0 = bytes(tr.buf)
            try:
                if st["op"] == "wait":
                    lines.append(f"k10.wait {st['want']} 0 0 5 {hx(buf0)}")
                    m = obj._wait_message(k10_classes()[st["want"]], 5.0)
                else:
                    lines.append(f"k10.read {hx(buf0)}")
                    m = obj._read_message(timeout=1.0)
                res = m
                line = f"ok {type(m).__name__} {ints_str(apt_obj_values(m))}|buf={hx(bytes(tr.buf))}"
            except Exception as e:  # noqa
                res, line = e, _exc(e) + f"|buf={hx(bytes(tr.buf))}"
            if st["op"] == "wait":
                line += "|tmo=" + (",".join(str(int(x)) for x in tmos) or ".")
            outs.append(line)
            if fails:
                continue
            what = f"call #{step + 1} of the session {[(x['op'], x['feed']) for x in c['steps']]} on one K10CR1"
            exp = st.get("expect")
            if exp is not None and exp.startswith("msg:") and not left_before:
                if isinstance(res, BaseException):
                    fails.append(("k10-session-reply-lost", st["op"], f"{what}: the device sent {exp[4:]}; the driver raised {_exc(res)}"))
                elif bytes(res).hex() != exp[4:]:
                    fails.append(("k10-session-wrong-data", st["op"], f"{what}: the device sent {exp[4:]}; the driver got {bytes(res).hex()}"))
                elif tr.buf:
                    fails.append(("k10-session-misframed", st["op"], f"{what}: {bytes(tr.buf).hex()} left in the input after the message was read"))
            elif exp == "reject" and not isinstance(res, BaseException) and not left_before:
                fails.append(("k10-malformed-accepted", "session", f"{what}: malformed input ({st.get('why')}); the driver returned {bytes(res).hex()}"))
    finally:
        k.time = real_time
    return lines, outs, fails


def case_k10_send(c: dict):
    msg, buf = bytes.fromhex(c["msg"]), bytes.fromhex(c["buf"])
    line = f"k10.send {hx(msg)} {hx(buf)}"
    o, tr = impl_k10_send(msg, buf)
    fails = []
    if tr.written and b"".join(tr.written) != msg:
        fails.append(("k10-send-altered", "send", f"_send_message({msg.hex()}) wrote {b''.join(tr.written).hex()}"))
    if o.startswith("ok") and not tr.written:
        fails.append(("k10-send-lost", "send", f"_send_message({msg.hex()}) returned without writing"))
    return [line], [o], fails


def case_k10_create(c: dict):
    name, kw = c["cls"], c["kw"]
    line = f"k10.create {name} {ints_str(kw)}"
    o = impl_k10_create(name, kw)
    fails = []
    mid = int(k10_classes()[name].MESSAGE_ID)
    if c.get("in_range", True) and mid in K10_DOC:
        got = None if o.startswith("exc") else ref_apt_parse(bytes.fromhex(o))
        fmt = K10_DOC[mid]
        if fmt is None:
            want = {"id": mid, "p1": (kw + [0, 0])[0], "p2": (kw + [0, 0])[1], "dest": 0x50, "source": 0x01, "data": None}
        else:
            want = {"id": mid, "dest": 0x50, "source": 0x01, "data": doc_pack(fmt, c["doc_vals"])}
        if got != want:
            fails.append(("k10-create", name, f"{name}.create({kw}) = {o}; a conforming device reads {got}, expected {want}"))
    return [line], [o], fails


def case_t2(c: dict):
    batches, c0 = c["batches"], c.get("counter0", 0)
    lines, outs = ["t2.reset"], ["ok"]
    blines, events, cfin = impl_t2(batches, c0)
    if c0:
        lines.append(f"t2.set {c0}")
        outs.append("ok")
    for b, bl in zip(batches, blines):
        lines.append("t2.proc " + (",".join(map(str, b)) if b else "."))
        outs.append(bl)
    fails = []
    stream = [r for b in batches for r in b]
    # the reference is unbounded; numpy's uint64 arithmetic wraps once the counter reaches 2^39 (out of the statement)
    in_range = c0 + sum(r & (T2_WRAP - 1) for r in stream if (r >> 25) == 0x7F) < (1 << 39)
    if c.get("oracle", True) and in_range:
        ref, ofl = ref_t2_decode(stream, c0 * T2_WRAP)
        want = [(t2_expected_type(k, ch), tt) for k, ch, tt in ref]
        split = "split" if len(batches) > 1 else "single"
        if any(l.startswith("exc") for l in blines):
            fails.append(("decode-raises", split, f"T2 batches {batches}: {blines}"))
        elif events != want:
            # the same stream in one batch tells a batching fault from a per-record fault
            one = impl_t2([stream], c0)[1]
            kind = "batch-split-changes-output" if one == want else "timestamp-or-type"
            j = next((i for i, (a, b) in enumerate(zip(events, want)) if a != b), min(len(events), len(want)))
            fails.append((kind, split, f"T2 stream {stream} in batches of {[len(b) for b in batches]} (carried counter {c0}): "
                          f"event #{j} is {events[j] if j < len(events) else None}, expected {want[j] if j < len(want) else None} "
                          f"({len(events)} events, expected {len(want)})"))
        elif cfin * T2_WRAP != ofl:
            fails.append(("carried-counter", split, f"T2 stream {stream}: carried overflow counter {cfin}, expected {ofl // T2_WRAP}"))
    return lines, outs, fails


def case_t3(c: dict):
    batches, P, R, c0 = c["batches"], c["P"], c["R"], c.get("counter0", 0)
    runs = impl_t3(batches, P, R, c0)
    lines, outs, fails = [], [], []
    for b, (cb, ca, ev) in zip(batches, runs):
        lines.append(f"t3.proc {P} {R} {cb} " + (",".join(map(str, b)) if b else "."))
        outs.append(ev if isinstance(ev, str) else f"c={ca} ev=" + ("." if not ev else ",".join(f"{t}:{ts}" for t, ts in ev)))
    if c.get("oracle", True):
        ofl = c0 * T3_WRAP
        data_all, want_all = [], []
        for bi, (b, (cb, ca, ev)) in enumerate(zip(batches, runs)):
            if isinstance(ev, str):
                fails.append(("t3-decode-raises", "t3", f"T3 batch {b}: {ev}"))
                break
            ref, ofl2 = ref_t3_decode(b, P, R, ofl)
            want = sorted([(t2_expected_type(k, ch), tt) for k, ch, tt, _ in ref] + [(64, s * P) for s in sorted({x[3] for x in ref})])
            if sorted(ev) != want:
                fails.append(("t3-events", "single" if len(batches) == 1 else "split",
                              f"T3 batch #{bi} {b} (P={P}, R={R}, carried counter {cb}): got {ev}, expected (as a set) {want}"))
                break
            if any(a[1] > b2[1] for a, b2 in zip(ev, ev[1:])):
                fails.append(("t3-not-time-ordered", "t3", f"T3 batch {b}: {ev}"))
                break
            if ca * T3_WRAP != ofl2:
                fails.append(("t3-carried-counter", "t3", f"T3 batch #{bi} {b}: carried counter {ca}, expected {ofl2 // T3_WRAP}"))
                break
            ofl = ofl2
    return lines, outs, fails


CASE_FUNCS = {"ib_codec": case_ib_codec, "ib_wire": case_ib_wire, "ib_rr": case_ib_rr,
              "apt_wp": case_apt_wp, "apt_wd": case_apt_wd, "apt_ask": case_apt_ask, "apt_askt": case_apt_askt,
              "k10_read": case_k10_read, "k10_wait": case_k10_wait, "k10_send": case_k10_send, "k10_create": case_k10_create,
              "t2": case_t2, "t3": case_t3, "ib_seq": case_ib_seq, "apt_seq": case_apt_seq, "k10_seq": case_k10_seq}


def run_case(c: dict):
    return CASE_FUNCS[c["kind"]](c)


def _family(kind: str) -> str:
    return "interbus" if kind.startswith("ib_") else "apt" if kind.startswith(("apt_", "k10_")) else "t2"   # t2, t3


def _fail_of(c: dict, f: tuple) -> Failure:
    clause, cls, summary = f
    return Failure(signature=f"{_family(c['kind'])}:{clause}:{cls}", summary=summary, replay=c)


# --- shrinking: greedy deletion on the part of the case that carries the payload

def _still_fails(c: dict, clause: str) -> bool:
    try:
        return any(f[0] == clause for f in run_case(c)[2])
    except Exception:  # noqa
        return False


def shrink_case(c: dict, clause: str) -> dict:
    c = dict(c)
    if c["kind"] in ("ib_codec", "ib_rr") and c.get("data"):
        data = bytes.fromhex(c["data"])
        i = 0
        while i < len(data) and len(data) > 0:
            cand = {**c, "data": (data[:i] + data[i + 1:]).hex()}
            if _still_fails(cand, clause):
                data = data[:i] + data[i + 1:]
                c = cand
            else:
                i += 1
    if c["kind"] == "ib_rr":
        sc = list(c["script"])
        i = 0
        while i < len(sc):
            cand = {**c, "script": sc[:i] + sc[i + 1:]}
            if _still_fails(cand, clause):
                sc = sc[:i] + sc[i + 1:]
                c = cand
            else:
                i += 1
    if c["kind"] == "apt_seq":
        asks = list(c["asks"])
        i = 0
        while i < len(asks) and len(asks) > 1:
            cand_asks = asks[:i] + asks[i + 1:]
            cand = {**c, "asks": cand_asks, "buf": "".join(w for _, w, _ in cand_asks if w)}
            if _still_fails(cand, clause):
                asks, c = cand_asks, cand
            else:
                i += 1
    if c["kind"] == "k10_seq":
        steps = list(c["steps"])
        i = 0
        while i < len(steps) and len(steps) > 1:
            cand = {**c, "steps": steps[:i] + steps[i + 1:]}
            if _still_fails(cand, clause):
                steps, c = cand["steps"], cand
            else:
                i += 1
    if c["kind"] == "t2":
        bs = [list(b) for b in c["batches"]]
        changed = True
        while changed:
            changed = False
            for bi in range(len(bs)):
                for ri in range(len(bs[bi])):
                    cand_b = [list(b) for b in bs]
                    del cand_b[bi][ri]
                    cand = {**c, "batches": cand_b}
                    if _still_fails(cand, clause):
                        bs, c, changed = cand_b, cand, True
                        break
                if changed:
                    break
        bs = [b for b in bs if b] or [[]]
        cand = {**c, "batches": bs}
        if _still_fails(cand, clause):
            c = cand
        if c.get("counter0") and _still_fails({**c, "counter0": 0}, clause):
            c = {**c, "counter0": 0}
    return c


# =====================================================================================================
# 7. case generators
# =====================================================================================================

def gen_ib_codec(rng) -> dict:
    r = rng.random()
    d, s, t, reg = rng.randint(1, 160), rng.randint(161, 255), rng.randint(0, 9), rng.randrange(256)
    if rng.random() < 0.3:
        d = rng.choice([1, 10, 13, 94, 160, 0x4A, 0x4D, 0x9E])
    if rng.random() < 0.3:
        s = rng.choice([161, 162, 255, 0xCA, 0xCD])
    if rng.random() < 0.3:
        reg = rng.choice(IB_HOT)
    data = gen_payload(rng)
    if r < 0.06:
        data = bytes(rng.randrange(256) for _ in range(rng.choice([241, 242, 300])))
    elif r < 0.10:
        d = rng.choice([0, 161, 200, 255, 256])
    elif r < 0.14:
        s = rng.choice([0, 1, 160, 256, 300])
    elif r < 0.16:
        reg = rng.choice([256, 300, 1000])
    elif r < 0.28:
        got = payload_with_reserved_crc(rng, rng.choice(IB_SPECIAL))
        if got:
            d, s, t, reg, data = got
    return {"kind": "ib_codec", "d": d, "s": s, "t": t, "r": reg, "data": data.hex()}


def gen_ib_wire(rng) -> dict:
    d, s, t, reg = rng.randint(1, 160), rng.randint(161, 255), rng.randint(0, 9), rng.choice(IB_HOT + [rng.randrange(256)])
    data = gen_payload(rng, 24)
    tele = bytearray(bytes([d, s, t, reg]) + data)
    tele += binascii.crc_hqx(bytes(tele), 0).to_bytes(2, "big")
    how = rng.choice(["wire-flip", "wire-flip", "crc-byte", "crc-byte", "field-no-crc", "delete", "insert", "truncate",
                      "type-unknown", "garbage", "short", "intact", "noncanonical", "noncanonical"])

    def esc(tl):
        out = bytearray([0x0D])
        for b in tl:
            out += bytes([0x5E, b + 0x40]) if b in IB_SPECIAL else bytes([b])
        return bytes(out) + b"\n"
    w = esc(tele)
    if how == "wire-flip":
        i = rng.randrange(len(w))
        nb = rng.choice(IB_HOT + [w[i] ^ 1, w[i] ^ 0x80, rng.randrange(256)])
        w = w[:i] + bytes([nb]) + w[i + 1:]
    elif how == "crc-byte":
        i = len(tele) - rng.choice([1, 2])
        tele[i] = rng.choice([tele[i] ^ 1, tele[i] ^ 0xFF, (tele[i] + 1) & 255, rng.choice(IB_SPECIAL)])
        w = esc(tele)
    elif how == "field-no-crc":
        i = rng.randrange(4)
        tele[i] = (tele[i] + rng.randint(1, 255)) & 255
        w = esc(tele)
    elif how == "delete":
        i = rng.randrange(len(w))
        w = w[:i] + w[i + 1:]
    elif how == "insert":
        i = rng.randrange(len(w) + 1)
        w = w[:i] + bytes([rng.choice(IB_HOT + [rng.randrange(256)])]) + w[i:]
    elif how == "truncate":
        w = w[:rng.randrange(len(w))]
    elif how == "type-unknown":
        tele = bytearray(bytes([d, s, rng.randint(10, 255), reg]) + data)
        tele += binascii.crc_hqx(bytes(tele), 0).to_bytes(2, "big")
        w = esc(tele)
    elif how == "garbage":
        w = bytes(rng.choice(IB_HOT + [rng.randrange(256)]) for _ in range(rng.randint(0, 14)))
        if rng.random() < 0.6:
            w = b"\r" + w + b"\n"
    elif how == "short":
        w = b"\r" + bytes(rng.randrange(256) for _ in range(rng.randint(0, 7))) + b"\n"
    elif how == "noncanonical":
        # a correctly check-summed telegram spelled as no conforming device spells it: reserved bytes left raw
        # (never a raw LF, which would end the frame), escape bytes followed by arbitrary bytes
        data = bytes(rng.choice([0x0D, 0x5E, 0x5E, 0x41, 0x4A, 0x4D, 0x9E, 0x00, rng.randrange(256)]) for _ in range(rng.randint(1, 12)))
        tele = bytearray(bytes([d, s, t, reg]) + data)
        if rng.random() < 0.15:     # sometimes with a wrong checksum on top
            tele += ((binascii.crc_hqx(bytes(tele), 0) + rng.randint(1, 65535)) & 0xFFFF).to_bytes(2, "big")
        else:
            tele += binascii.crc_hqx(bytes(tele), 0).to_bytes(2, "big")
        out = bytearray([0x0D])
        for b in tele:
            if b == 0x0A or (b in IB_SPECIAL and rng.random() < 0.4):
                out += bytes([0x5E, b + 0x40])
            else:
                out.append(b)
        w = bytes(out) + b"\n"
    return {"kind": "ib_wire", "wire": w.hex(), "cls": how}


def gen_ib_rr(rng) -> dict:
    op = rng.choice(["rr", "rr", "rr", "get", "set"])
    tg = rng.choice([0, 1])
    dest = rng.choice([1, 10, 13, 94, 128, 160, rng.randint(1, 160)])
    t = rng.randint(0, 9)
    reg = rng.choice(IB_HOT + [rng.randrange(256)])
    data = gen_payload(rng, 240) if (op != "get" and rng.random() < 0.7) else b""
    if op == "get":
        data = b""
    if rng.random() < 0.04:
        dest = rng.choice([0, 161, 255])
    src_now = 161 + ((tg + 1) & 1)
    script, tags = [], []
    n = rng.choice([1, 1, 1, 2, 2, 3, 4, 6, 11, 12, 13])
    good_t = 8 if op == "get" else 3 if op == "set" else rng.randint(0, 9)
    for j in range(n):
        k = rng.random()
        last = (j == n - 1)
        rdata = gen_payload(rng, 240 if rng.random() < 0.2 else 16)
        if k < (0.75 if last else 0.12):
            what, fr = "good", ref_ib_encode(src_now, dest & 255, good_t, reg & 255, rdata)
            if op != "rr" and rng.random() < 0.2:
                what = "good-other"
                fr = ref_ib_encode(src_now, dest & 255, rng.choice([0, 3, 8, 2, 1]), rng.choice([reg & 255, (reg + 1) & 255]), rdata)
        elif k < 0.30:
            what, fr = "timeout", None
        elif k < 0.45:
            what = "wrong-src"
            fr = ref_ib_encode(src_now, rng.choice([(dest + 1) & 255 or 1, 1, 160, (dest ^ 0x80) & 255]), good_t, reg & 255, rdata)
        elif k < 0.60:
            what = "wrong-dst"
            fr = ref_ib_encode(rng.choice([src_now ^ 3, 163, 255, 161 + (tg & 1)]), dest & 255, good_t, reg & 255, rdata)
        elif k < 0.85:
            what = "bad-crc"
            g = gen_ib_wire(rng)
            base = bytearray(ref_ib_encode(src_now, dest & 255, good_t, reg & 255, rdata))
            i = rng.randrange(1, len(base) - 1)
            base[i] = rng.choice([base[i] ^ 1, base[i] ^ 0x55, (base[i] + 1) & 255])
            fr = bytes(base) if rng.random() < 0.7 else bytes.fromhex(g["wire"])
        else:
            what, fr = "garbage", bytes(rng.choice(IB_HOT + [rng.randrange(256)]) for _ in range(rng.randint(0, 12))) + b"\n"
        tags.append(what)
        if fr is None:
            script.append(None)
        else:
            script += split_bytes(rng, fr)
    # sometimes glue neighbouring data segments together (two telegrams in one transfer)
    if rng.random() < 0.3:
        glued = []
        for seg in script:
            if glued and seg is not None and glued[-1] is not None and rng.random() < 0.5:
                glued[-1] = glued[-1] + seg
            else:
                glued.append(seg)
        script = glued
    return {"kind": "ib_rr", "op": op, "tg": tg, "dest": dest, "t": t, "reg": reg, "data": data.hex(),
            "none": bool(op == "set" and not data and rng.random() < 0.5),
            "script": [None if x is None else x.hex() for x in script], "cls": "+".join(sorted(set(tags)))}


def retry_boundary_cases() -> list:
    """k bad items (each kind) before a good reply, k = 0..13 (across MAX_RETRY_COUNT); every split point of a reply."""
    cases = []
    good = ref_ib_encode(162, 7, 8, 0x20, b"\x5e\x0a")
    bads = {"timeout": None, "bad-crc": good[:-3] + bytes([good[-3] ^ 1]) + good[-2:], "wrong-src": ref_ib_encode(162, 8, 8, 0x20, b"x"),
            "wrong-dst": ref_ib_encode(161, 7, 8, 0x20, b"x"), "garbage": b"\r\x01\n"}
    for tag, bad in bads.items():
        for k in range(0, 14):
            sc = [None if bad is None else bad.hex()] * k + [good.hex()]
            for op in ("rr", "get"):
                cases.append({"kind": "ib_rr", "op": op, "tg": 0, "dest": 7, "t": 4, "reg": 0x20, "data": "", "none": False,
                              "script": sc, "cls": tag})
            cases.append({"kind": "ib_rr", "op": "rr", "tg": 0, "dest": 7, "t": 4, "reg": 0x20, "data": "", "none": False,
                          "script": sc[:-1], "cls": tag})
    for cut in range(1, len(good)):
        cases.append({"kind": "ib_rr", "op": "get", "tg": 0, "dest": 7, "t": 4, "reg": 0x20, "data": "", "none": False,
                      "script": [good[:cut].hex(), good[cut:].hex()], "cls": "good"})
    return cases


def gen_ib_seq(rng) -> dict:
    tg = rng.choice([0, 1])
    ops, script = [], []
    t_now = tg
    for i in range(rng.randint(2, 4)):
        t_now = (t_now + 1) & 1
        src = 161 + t_now
        dest = rng.choice([1, 10, 13, 94, 160])
        t, reg = rng.randint(0, 9), rng.choice(IB_HOT)
        ops.append((dest, t, reg, gen_payload(rng, 12).hex()))
        good = ref_ib_encode(src, dest, rng.randint(0, 9), reg, gen_payload(rng, 16))
        how = rng.random()
        if how < 0.35:                 # plain answer
            script += split_bytes(rng, good)
        elif how < 0.70:               # one time-out, the request is re-sent, the device answers BOTH: a stale reply stays behind
            script += [None] + split_bytes(rng, good) + [ref_ib_encode(src, dest, 3, reg, b"stale")]
        elif how < 0.85:               # a reply to the previous source address first
            script += [ref_ib_encode(161 + (t_now ^ 1), dest, 8, reg, b"old")] + split_bytes(rng, good)
        else:                          # damaged, then good
            script += [good[:-3] + bytes([good[-3] ^ 1]) + good[-2:]] + split_bytes(rng, good)
    return {"kind": "ib_seq", "tg": tg, "ops": ops, "script": [None if x is None else x.hex() for x in script]}


def _apt_device_message(rng, packets: dict, name: str, host: int) -> tuple:
    """(wire bytes, data bytes the driver should see) of a well-formed device→host message of class `name` (document format)."""
    cls, doc = packets[name], APT_DOC[name]
    dv = gen_doc_values(rng, doc[1])
    if cls.HEADER_ONLY:
        dv[0] = int(cls.MESSAGE_ID)
        raw = doc_pack(doc[1], dv)
        return raw, raw
    data = doc_pack(doc[1], dv)
    return ref_apt_header_data(int(cls.MESSAGE_ID), len(data), host & 0x7F, 0x50) + data, data


def gen_apt_seq(rng, packets: dict) -> dict:
    """Session over one stream: expected replies, and — in front of them — data messages nobody asked for (other id,
    same or other length; the 14-byte unsolicited status update), each met by an ask for another data packet."""
    import ctypes
    dev, host = _addr(rng)
    known = sorted(n for n in packets if n in APT_DOC and (packets[n].HEADER_ONLY or struct.calcsize(APT_DOC[n][1]) == ctypes.sizeof(packets[n])))
    data_names = [n for n in known if not packets[n].HEADER_ONLY]
    buf, asks, tags = b"", [], set()
    for _ in range(rng.randint(2, 6)):
        name = rng.choice(known)
        r = rng.random()
        if not packets[name].HEADER_ONLY and r < 0.45:
            # the device volunteers another data message first; the ask for `name` meets it and must raise — and consume it whole
            other = rng.choice([n for n in data_names if packets[n].MESSAGE_ID != packets[name].MESSAGE_ID] or data_names)
            if rng.random() < 0.4 and "MOT_GET_USTATUSUPDATE" in data_names and name != "MOT_GET_USTATUSUPDATE":
                other = "MOT_GET_USTATUSUPDATE"
            wire, _ = _apt_device_message(rng, packets, other, host)
            if packets[other].MESSAGE_ID != packets[name].MESSAGE_ID:
                buf += wire
                asks.append((name, wire.hex(), "reject"))
                tags.add("rejected-same-length" if ctypes.sizeof(packets[other]) == ctypes.sizeof(packets[name]) else "rejected-other-length")
        wire, data = _apt_device_message(rng, packets, name, host)
        buf += wire
        asks.append((name, wire.hex(), "data:" + data.hex()))
    if rng.random() < 0.3:    # ask once more than there are messages
        asks.append((asks[-1][0], None, None))
    if rng.random() < 0.2:    # stray bytes behind the last message stay where they are
        buf += bytes(rng.randrange(256) for _ in range(rng.randint(1, 5)))
    return {"kind": "apt_seq", "dev": dev, "host": host, "buf": buf.hex(), "asks": asks, "cls": "+".join(sorted(tags)) or "replies-only"}


def gen_k10_seq(rng) -> dict:
    """Session on one Thorlabs_K10CR1: the device's messages arrive one per step (`feed`), then `_read_message` or
    `_wait_message(cls)` is called.  Malformed messages make the driver discard its input; the NEXT message must be read intact."""
    steps = []
    for _ in range(rng.randint(2, 6)):
        r = rng.random()
        if r < 0.3:
            wire, why = _k10_bad_message(rng)
            steps.append({"feed": wire.hex(), "op": "read", "expect": None if why in ("partial", "short-stream", "long-flag-zero-length") else "reject",
                          "why": why})
        else:
            mid = rng.choice(sorted(K10_DOC))
            wire, _ = ref_k10_message(rng, mid)
            if rng.random() < 0.35:
                want = next(n for n, cl in sorted(k10_classes().items()) if int(cl.MESSAGE_ID) == mid)
                pre = ref_k10_message(rng, rng.choice(sorted(K10_DOC)))[0] if rng.random() < 0.5 else b""
                if pre and struct.unpack_from("<H", pre)[0] == mid:
                    pre = b""
                steps.append({"feed": (pre + wire).hex(), "op": "wait", "want": want, "expect": "msg:" + wire.hex()})
            else:
                steps.append({"feed": wire.hex(), "op": "read", "expect": "msg:" + wire.hex()})
    return {"kind": "k10_seq", "steps": steps}


def fixed_corpus() -> list:
    """Boundary cases that run first on every seed (no randomness)."""
    cases = []
    # Interbus: every address boundary, register boundary, every message type, both toggles
    for d in (0, 1, 2, 159, 160, 161, 255, 256):
        for reg in (0, 255, 256):
            cases.append({"kind": "ib_codec", "d": d, "s": 161, "t": 4, "r": reg, "data": "5e0a0d"})
    for sa in (0, 160, 161, 162, 254, 255, 256):
        cases.append({"kind": "ib_codec", "d": 1, "s": sa, "t": 4, "r": 0x10, "data": ""})
    for t in range(10):
        cases.append({"kind": "ib_codec", "d": 13, "s": 162, "t": t, "r": 0x0A, "data": "0a"})
    good = ref_ib_encode(162, 7, 8, 0x20, b"\x5e\x0a")
    for t in (0, 1, 2, 3, 8, 9):             # NACK, CRC_ERROR, BUSY, ACK, DATAGRAM, other as the reply to get / set
        for reg in (0x20, 0x21):
            rep = ref_ib_encode(162, 7, t, reg, b"\x01")
            for op in ("get", "set"):
                cases.append({"kind": "ib_rr", "op": op, "tg": 0, "dest": 7, "t": 4, "reg": 0x20, "data": "", "none": op == "set",
                              "script": [rep.hex()], "cls": f"reply-type-{t}"})
    # the same reply twice, a reply glued to the next one, an empty segment, a lone terminator
    for sc in ([good.hex(), good.hex()], [(good + good).hex()], ["", good.hex()], ["0a", good.hex()], [good[:-1].hex(), None, "0a"]):
        cases.append({"kind": "ib_rr", "op": "rr", "tg": 0, "dest": 7, "t": 4, "reg": 0x20, "data": "", "none": False,
                      "script": sc, "cls": "fixed"})
    # contents shorter / just as long as the minimum, each with a *valid* checksum (the decoder's second length test)
    for n in range(0, 7):
        # reserved bytes, so that the escaped frame passes the first length test even when the content is too short
        tele = bytes([0x0A, 0xA2, 0x08, 0x0D, 0x5E, 0x0A, 0x0D][:n])
        tele += binascii.crc_hqx(tele, 0).to_bytes(2, "big")
        inner = b"".join(bytes([0x5E, b + 0x40]) if b in IB_SPECIAL else bytes([b]) for b in tele)
        cases.append({"kind": "ib_wire", "wire": (b"\r" + inner + b"\n").hex(), "cls": f"content-{n}-bytes"})
        cases.append({"kind": "ib_rr", "op": "rr", "tg": 1, "dest": 7, "t": 4, "reg": 0x20, "data": "", "none": False,
                      "script": [(b"\r" + inner + b"\n").hex()], "cls": f"content-{n}-bytes"})
    # a stale reply of a retried request must not be taken for the answer to the next request
    cases.append({"kind": "ib_seq", "tg": 0, "ops": [(7, 4, 0x20, ""), (7, 4, 0x21, "")],
                  "script": [None, ref_ib_encode(162, 7, 8, 0x20, b"A").hex(), ref_ib_encode(162, 7, 8, 0x20, b"B").hex(),
                             ref_ib_encode(161, 7, 8, 0x21, b"C").hex()]})
    # APT: length-field boundaries for every data packet, id boundaries
    import ctypes
    for name, cls in sorted(live_packets().items()):
        if cls.HEADER_ONLY or name not in APT_DOC:
            continue
        size, mid = ctypes.sizeof(cls), int(cls.MESSAGE_ID)
        data = bytes(range(1, size + 1))
        for ln in (0, 1, size - 1, size, size + 1, 65535):
            cases.append({"kind": "apt_ask", "dev": 0x50, "host": 1, "packet": name, "expect": "data-or-raise", "data": data.hex(),
                          "buf": (ref_apt_header_data(mid, ln, 1, 0x50) + data + bytes(8)).hex()})
        for bad in (0, mid - 1, mid + 1, mid ^ 0x8000, 0xFFFF):
            cases.append({"kind": "apt_ask", "dev": 0x50, "host": 1, "packet": name, "expect": "reject", "sent_id": bad, "want_id": mid,
                          "buf": (ref_apt_header_data(bad, size, 1, 0x50) + data).hex()})
    # T2: record types next to the overflow code, tag boundaries, the same batch twice, an empty batch between two batches
    ov1, ovmax = t2_rec("overflow", 0x3F, 1), t2_rec("overflow", 0x3F, T2_WRAP - 1)
    ph = [t2_rec("photon", 63, 0), t2_rec("photon", 63, T2_WRAP - 1), t2_rec("photon", 62, 1), t2_rec("marker", 15, 7), t2_rec("sync", 0, 0)]
    for b in ([ph[0], ov1, ph[1]], [ovmax, ovmax, ph[1]], ph):
        cases.append({"kind": "t2", "batches": [b, b], "counter0": 0})
        cases.append({"kind": "t2", "batches": [b, [], b, []], "counter0": 1})
    cases.append({"kind": "t2", "batches": [[T2_SPECIAL | (62 << 25) | 5, T2_SPECIAL | (16 << 25) | 5, ov1, 0x7E << 25 | 1]], "counter0": 0, "oracle": False})
    return cases


def live_packets() -> dict:
    ap, pk = _apt_mods()
    import inspect
    return {n: c for n, c in inspect.getmembers(pk, inspect.isclass)
            if c.__module__ == pk.__name__ and issubclass(c, ap.AptMessage) and c is not ap.AptMessage}


def _addr(rng):
    return rng.choice([0x50, 0x50, 0x11, 0x21, 0x22, 0x7F, 0x00, rng.randint(0, 0x7F)]), rng.choice([0x01, 0x01, 0x00, 0xFF, rng.randrange(256)])


def gen_apt_wp(rng) -> dict:
    dev, host = _addr(rng)
    mid = rng.choice([0x0005, 0x0223, 0x0443, 0x0490, 0xFFFF, 0, 0x00FF, 0x0100, rng.randrange(65536)])
    p1, p2 = rng.choice([0, 1, 255, 0x80, rng.randrange(256)]), rng.choice([0, 1, 2, 255, rng.randrange(256)])
    r = rng.random()
    if r < 0.05:
        mid = rng.choice([65536, 70000, -1])
    elif r < 0.10:
        p1 = rng.choice([256, 300, -1])
    elif r < 0.13:
        dev = rng.choice([0x80, 0xD0, 0xFF, 256, 300])
    return {"kind": "apt_wp", "dev": dev, "host": host, "id": mid, "p1": p1, "p2": p2}


def gen_apt_wd(rng, packets: dict) -> dict:
    import ctypes
    name = rng.choice(sorted(packets))
    cls = packets[name]
    dev, host = _addr(rng)
    doc = APT_DOC.get(name)
    mid = rng.choice([doc[0] if doc else 0x0453, 0x0530, 0x04B9, rng.randrange(65536)])
    c = {"kind": "apt_wd", "dev": dev, "host": host, "id": mid, "packet": name}
    if doc is not None and struct.calcsize(doc[1]) == ctypes.sizeof(cls) and rng.random() < 0.9:
        dv = gen_doc_values(rng, doc[1], nul_free_chars=True)
        c.update(doc_vals=dv, vals=doc_to_cell_values(doc[1], cls, dv), in_range=True)
    else:   # no reference for this packet / out-of-range ints (ctypes stores them modulo 2^bits): model diff only
        vals = []
        for fname, count, is_char, off, esz in apt_flat_fields(cls):
            for _ in range(count):
                vals.append(rng.randint(1, 255) if is_char else rng.choice([0, 1, -1, 2 ** (8 * esz), 2 ** (8 * esz) + 5,
                                                                       -2 ** (8 * esz - 1) - 1, rng.randrange(2 ** (8 * esz))]))
        c.update(doc_vals=None, vals=vals, in_range=False)
    return c


def gen_apt_ask(rng, packets: dict) -> dict:
    import ctypes
    name = rng.choice(sorted(packets))
    cls = packets[name]
    dev, host = _addr(rng)
    doc = APT_DOC.get(name)
    size = ctypes.sizeof(cls)
    header_only = bool(cls.HEADER_ONLY)
    want_id = int(cls.MESSAGE_ID)
    c = {"kind": "apt_ask", "dev": dev, "host": host, "packet": name}
    if doc is not None and struct.calcsize(doc[1]) == size:
        dv = gen_doc_values(rng, doc[1])
    else:
        doc, dv = None, None
    tail = bytes(rng.randrange(256) for _ in range(rng.choice([0, 0, 0, 1, 6, 7])))
    how = rng.choice(["roundtrip", "roundtrip", "roundtrip", "wrong-id", "wrong-id", "length", "truncated", "short-header"])
    if header_only:
        if doc is not None:
            dv[0] = want_id if how != "wrong-id" else rng.choice([want_id ^ 1, want_id + 0x100, rng.randrange(65536)])
            raw = doc_pack(doc[1], dv)
        else:
            raw = bytes(rng.randrange(256) for _ in range(size))
        if how in ("truncated", "short-header"):
            c.update(buf=raw[:rng.randrange(6)].hex(), expect=None)
        elif how == "wrong-id" or doc is None:
            c.update(buf=(raw + tail).hex(), expect=None)      # header-only replies are not id-checked by `ask`; the statement is about data messages
        else:
            c.update(buf=(raw + tail).hex(), expect="roundtrip", data=raw.hex(), doc_vals=dv)
        return c
    data = doc_pack(doc[1], dv) if doc is not None else bytes(rng.randrange(256) for _ in range(size))
    src = rng.choice([0x50, dev & 0x7F])
    if how == "roundtrip":
        c.update(buf=(ref_apt_header_data(want_id, len(data), host & 0x7F, src) + data + tail).hex(),
                 expect="roundtrip" if doc is not None else "data-or-raise", data=data.hex(), doc_vals=dv)
    elif how == "wrong-id":
        bad = rng.choice([want_id ^ 1, want_id ^ 0x100, want_id + 1, 0x0006, 0x0491, 0, 0xFFFF, rng.randrange(65536)])
        if bad == want_id:
            bad ^= 2
        c.update(buf=(ref_apt_header_data(bad, len(data), host & 0x7F, src) + data + tail).hex(), expect="reject",
                 sent_id=bad, want_id=want_id)
    elif how == "length":
        ln = rng.choice([0, 1, size - 1, size + 1, size + 6, rng.randrange(0, size + 20)])
        extra = bytes(rng.randrange(256) for _ in range(rng.choice([0, 20, 100])))
        c.update(buf=(ref_apt_header_data(want_id, ln, host & 0x7F, src) + data + extra).hex(),
                 expect="data-or-raise", data=data.hex())
    elif how == "truncated":
        full = ref_apt_header_data(want_id, len(data), host & 0x7F, src) + data
        c.update(buf=full[:rng.randrange(6, len(full))].hex(), expect=None)
    else:
        c.update(buf=bytes(rng.randrange(256) for _ in range(rng.randrange(6))).hex(), expect=None)
    return c


def gen_apt_askt(rng, packets: dict) -> dict:
    c = gen_apt_ask(rng, packets)
    return {"kind": "apt_askt", "dev": c["dev"], "host": c["host"], "packet": c["packet"], "buf": c["buf"],
            "dflt": rng.choice([None, 0, 1, 5, 30]), "t": rng.choice([None, None, 0, 2, 7, 3600])}


def _k10_bad_message(rng) -> tuple:
    """(wire, why): one message that breaks the format rules."""
    how = rng.choice(["unknown-id", "length-field", "short-with-long-flag", "long-without-flag", "partial", "short-stream"])
    long_ids = [m for m, f in K10_DOC.items() if f is not None]
    short_ids = [m for m, f in K10_DOC.items() if f is None]
    if how == "unknown-id":
        mid = rng.choice([0x0000, 0x0213, 0x0491, 0x0530, 0xFFFF, rng.randrange(65536)])
        while mid in K10_DOC:
            mid += 1
        if rng.random() < 0.5:
            return struct.pack("<HBBBB", mid, 1, 0, 0x01, 0x50), how
        return ref_apt_header_data(mid, 6, 0x01, 0x50) + bytes(6), how
    if how == "length-field":
        mid = rng.choice(long_ids)
        w, _ = ref_k10_message(rng, mid)
        n = len(w) - 6
        ln = rng.choice([n - 1, n + 1, n + 6, 0, 1, rng.randrange(0, n + 10)])
        if ln == n:
            ln += 1
        data = w[6:] + bytes(rng.randrange(256) for _ in range(12))
        return ref_apt_header_data(mid, ln, 0x01, 0x50) + data, how
    if how == "short-with-long-flag":
        mid = rng.choice(short_ids)
        ln = rng.choice([0, 1, 2])
        # length 0 with the long flag is six bytes in all: the code reads it as the header-only message (no rule of the
        # statement is at stake: same id, same bytes) — model diff only
        return ref_apt_header_data(mid, ln, 0x01, 0x50) + bytes(2), how if ln else "long-flag-zero-length"
    if how == "long-without-flag":
        mid = rng.choice(long_ids)
        w, _ = ref_k10_message(rng, mid)
        return w[:4] + bytes([w[4] & 0x7F]) + w[5:], how
    if how == "partial":
        mid = rng.choice(long_ids)
        w, _ = ref_k10_message(rng, mid)
        return w[:rng.randrange(6, len(w))], how
    return bytes(rng.randrange(256) for _ in range(rng.randrange(6))), how


def gen_k10_read(rng) -> dict:
    if rng.random() < 0.55:
        mid = rng.choice(sorted(K10_DOC))
        w, _ = ref_k10_message(rng, mid, dest=rng.choice([0x01, 0x01, 0x00, 0x7F]), source=rng.choice([0x50, 0x50, 0x21, 0xFF]))
        tail = bytes(rng.randrange(256) for _ in range(rng.choice([0, 0, 1, 6, 20])))
        return {"kind": "k10_read", "buf": (w + tail).hex(), "expect": "roundtrip", "cls": f"{mid:#06x}"}
    w, why = _k10_bad_message(rng)
    return {"kind": "k10_read", "buf": w.hex(), "expect": None if why in ("partial", "short-stream", "long-flag-zero-length") else "reject",
            "why": why, "cls": why}


def gen_k10_wait(rng) -> dict:
    names = sorted(k10_classes())
    want = rng.choice(names)
    want_id = int(k10_classes()[want].MESSAGE_ID)
    parts = []
    for _ in range(rng.choice([0, 0, 1, 1, 2, 3, 6])):
        parts.append(ref_k10_message(rng, rng.choice(sorted(K10_DOC)))[0])
    r = rng.random()
    if r < 0.6 and want_id in K10_DOC:
        parts.append(ref_k10_message(rng, want_id)[0])
    elif r < 0.75:
        parts.append(_k10_bad_message(rng)[0])
    if rng.random() < 0.3:
        parts.append(ref_k10_message(rng, rng.choice(sorted(K10_DOC)))[0])
    t0 = rng.choice([0, 1000, 123456])
    step, timeout = rng.choice([(0, 5), (1, 10), (1, 3), (2, 4), (5, 4), (3, 0), (1, 1), (1, 2), (0, 0)])
    return {"kind": "k10_wait", "want": want, "t0": t0, "step": step, "timeout": timeout, "buf": b"".join(parts).hex()}


def gen_k10_send(rng) -> dict:
    msg = ref_k10_message(rng, rng.choice(sorted(K10_DOC)), dest=0x50, source=0x01)[0]
    r = rng.random()
    if r < 0.4:
        buf = b""
    elif r < 0.75:
        buf = b"".join(ref_k10_message(rng, rng.choice(sorted(K10_DOC)))[0] for _ in range(rng.randint(1, 3)))
    else:
        buf = _k10_bad_message(rng)[0] + bytes(rng.randrange(256) for _ in range(rng.choice([0, 7])))
    return {"kind": "k10_send", "msg": msg.hex(), "buf": buf.hex()}


def gen_k10_create(rng) -> dict:
    import ctypes
    classes = k10_classes()
    name = rng.choice(sorted(classes))
    cls = classes[name]
    mid = int(cls.MESSAGE_ID)
    fmt = K10_DOC.get(mid)
    c = {"kind": "k10_create", "cls": name}
    nonhdr = [f for f in apt_flat_fields(cls) if f[0] not in K10_HEADER_FIELDS]
    if mid in K10_DOC and rng.random() < 0.9:
        if fmt is None:
            kw = [rng.choice([0, 1, 2, 255, rng.randrange(256)]) for _ in nonhdr]
            c.update(kw=kw, in_range=True)
        else:
            dv = gen_doc_values(rng, fmt, nul_free_chars=True)
            raw = ref_apt_header_data(mid, struct.calcsize(fmt), 0x50, 0x01) + doc_pack(fmt, dv)
            if len(raw) != ctypes.sizeof(cls):
                c.update(kw=[0] * sum(f[1] for f in nonhdr), in_range=False)
            else:
                vals = apt_obj_values(cls.from_buffer_copy(raw))
                skip = sum(f[1] for f in apt_flat_fields(cls) if f[0] in K10_HEADER_FIELDS)
                c.update(kw=vals[skip:], doc_vals=dv, in_range=True)
    else:
        kw = []
        for fname, count, is_char, off, esz in nonhdr:
            for _ in range(count):
                kw.append(rng.randint(1, 255) if is_char else rng.choice([0, -1, 2 ** (8 * esz), 2 ** (8 * esz) + 3, rng.randrange(2 ** (8 * esz))]))
        c.update(kw=kw, in_range=False)
    return c


def gen_t3_case(rng) -> dict:
    n = rng.choice([0, 1, 2, 3, 5, 8, 20, 60])
    recs = []
    for _ in range(n):
        k = rng.random()
        nsync = rng.choice([0, 1, 5, 5, 5, 1023, rng.randrange(1024)])
        dtime = rng.choice([0, 1, 32767, rng.randrange(32768)])
        if k < 0.55:
            recs.append((rng.choice([0, 1, 7, 63, rng.randrange(64)]) << 25) | (dtime << 10) | nsync)
        elif k < 0.65:
            recs.append(T2_SPECIAL | (rng.randint(1, 15) << 25) | nsync)
        else:
            recs.append(T2_SPECIAL | (0x3F << 25) | rng.choice([1, 1, 2, 1023, rng.randint(1, 1023)]))
    k = rng.randint(0, 3)
    cuts = sorted(rng.choice(range(len(recs) + 1)) for _ in range(k))
    batches = [recs[i:j] for i, j in zip([0] + cuts, cuts + [len(recs)])]
    P, R = rng.choice([(200000, 1), (100000, 4), (12500, 25), (1000000, 80), (25000, 1)])
    return {"kind": "t3", "batches": batches, "P": P, "R": R, "counter0": rng.choice([0, 0, 3, 1000, 40000])}


def gen_t2_cases(rng, n_exh: int, max_exh_len: int, n_long: int) -> list:
    cases = []
    for _ in range(n_exh):
        stream = gen_t2_stream(rng, rng.randint(0, max_exh_len))
        c0 = rng.choice([0, 0, 0, 1, 5, (1 << 30) + 3])
        for sp in all_splits(stream):
            cases.append({"kind": "t2", "batches": sp, "counter0": c0})
    for _ in range(n_long):
        stream = gen_t2_stream(rng, rng.choice([11, 16, 40, 100, 300]))
        k = rng.randint(0, 6)
        cuts = sorted(rng.choice(range(len(stream) + 1)) for _ in range(k))     # repeated cut = empty batch
        batches = [stream[i:j] for i, j in zip([0] + cuts, cuts + [len(stream)])]
        cases.append({"kind": "t2", "batches": batches, "counter0": rng.choice([0, 0, 7, 1 << 20])})
    for _ in range(max(6, n_long // 4)):     # carried counter at the uint64 bound (2^39 overflows) and at 2^64: numpy wraps
        stream = gen_t2_stream(rng, rng.randint(1, 10))
        c0 = rng.choice([(1 << 39) - 1, (1 << 39) - 2, (1 << 39), (1 << 39) - (1 << 25), (1 << 64) - 1, (1 << 64) - 3, (1 << 63)])
        k = rng.randint(0, len(stream))
        cases.append({"kind": "t2", "batches": [stream[:k], stream[k:]], "counter0": c0})
    for _ in range(max(4, n_long // 4)):     # records outside the documented format: model diff only
        stream = [rng.choice([rng.randrange(1 << 32), t2_rec("overflow", 0x3F, 0), T2_SPECIAL | (rng.randint(16, 62) << 25) | 5,
                              (1 << 32) - 1, 0]) for _ in range(rng.randint(1, 12))]
        cases.append({"kind": "t2", "batches": [stream[:len(stream) // 2], stream[len(stream) // 2:]], "counter0": 0, "oracle": False})
    return cases


# =====================================================================================================
# 8. the check
# =====================================================================================================

class C15B(Prop):
    id = "C15B"
    lean_modules = ["QmiModel.Props.C15B"]
    props_files = ["QmiModel/Props/C15B.lean"]
    driver = "drv_c15b"
    modelled_not_verified = [
        "Python `bytes.replace` for 1- and 2-byte patterns (model: replace1/replace2, left to right, non-overlapping; differentially checked)",
        "ctypes packed LittleEndianStructure = concatenated little-endian cells, out-of-range ints stored modulo 2^bits "
        "(layouts of apt_packets and of the k10cr1 message table regenerated from the live classes, contiguity closed by `decide`; behaviour differentially checked)",
        "numpy vectorised shift/mask/cumsum/boolean-index of _T2EventDecoder as a sequential fold with uint64 wrap-around "
        "(differentially checked on real numpy arrays, also at carried counters 2^39 and 2^64)",
        "_T3EventDecoder (outside the statement, modelled for the shared carried counter): float64 arithmetic modelled as exact integer "
        "arithmetic — valid for integer sync period / resolution and timestamps < 2^53; np.unique / np.lexsort as insertion sorts",
        "the transports below the codecs (read_until / read / discard_read semantics) are the harness's scripted fakes; the real transports are C13's subject",
        "time.monotonic in Thorlabs_K10CR1._wait_message is a linear virtual clock (n-th call = t0 + n*step); the 50 ms payload timeout is not modelled",
    ]
    extra_trusted = [
        "harness/props/c15b.py: translator (AST patterns + live ctypes/enum introspection) and the independent reference device "
        "(NKT SDK manual ch.2, Thorlabs APT protocol document, PicoQuant TTTR T2 record format; CRC via binascii.crc_hqx, packing via struct)",
    ]

    # -- translator -----------------------------------------------------------------------------------
    def translate(self, ctx: Ctx) -> list:
        g = translate_all()
        core.write_if_changed(GEN_FILE, render_gen(g["ib"], g["t2"], g["apt"], g["k10"], g["t3"]))
        return [GEN_FILE]

    # -- correspondence + oracle ----------------------------------------------------------------------
    def _run(self, ctx: Ctx, cases: list, res: Result, max_fail_per_sig: int = 1, shrink: bool = True, diff: bool = True) -> None:
        lines, outs, spans = [], [], []
        seen_clause: dict = {}
        for c in cases:
            try:
                l, o, fails = run_case(c)
            except IoBudgetExceeded:
                l, o, fails = [], [], [("io-budget-exceeded", c["kind"], f"the real code did not stop talking to the fake transport: {c}")]
            spans.append((len(lines), len(l), c))
            lines += l
            outs += o
            fam = _family(c["kind"])
            res.count(f"{fam}.{c['kind']}")
            self._distribution(c, o, res)
            res.note_case((c["kind"], tuple(l)), nontrivial=self._nontrivial(c, o))
            for f in fails:
                key = (fam, f[0])
                if seen_clause.get(key, 0) >= 3:
                    continue
                seen_clause[key] = seen_clause.get(key, 0) + 1
                small = shrink_case(c, f[0]) if shrink else c
                f2 = next((x for x in run_case(small)[2] if x[0] == f[0]), f)
                res.failures.append(_fail_of(small, f2))
        res.traces_validated += len(cases)
        if not diff or not lines:
            return
        model = LeanDriver(self.driver).run(lines)
        reported: dict = {}
        for start, ln, c in spans:
            for k in range(start, start + ln):
                if outs[k] != model[k]:
                    fam = _family(c["kind"])
                    reported[fam] = reported.get(fam, 0) + 1
                    if reported[fam] <= 3:
                        res.broken.append(Broken("correspondence", f"{fam} model vs implementation ({c['kind']})",
                                                 f"op={lines[k][:300]!r} impl={outs[k][:300]!r} model={model[k][:300]!r}", case=c))
                    break
        if reported:
            res.extra["model_vs_impl_disagreements"] = reported

    @staticmethod
    def _nontrivial(c: dict, outs: list) -> bool:
        k = c["kind"]
        if k == "ib_codec":
            return len(c["data"]) > 0
        if k == "ib_rr":
            return len(c["script"]) > 0
        if k == "t2":
            return sum(len(b) for b in c["batches"]) > 0
        return True

    @staticmethod
    def _distribution(c: dict, outs: list, res: Result) -> None:
        k = c["kind"]
        if k == "ib_codec":
            n = len(c["data"]) // 2
            res.count("interbus.len." + ("0" if n == 0 else "1" if n == 1 else "2-238" if n < 239 else str(n) if n <= 241 else ">241"))
            if any(b in IB_SPECIAL for b in bytes.fromhex(c["data"])):
                res.count("interbus.payload_with_reserved_byte")
            tele = bytes([c["d"] & 255, c["s"] & 255, c["t"] & 255, c["r"] & 255]) + bytes.fromhex(c["data"])
            crc = binascii.crc_hqx(tele, 0)
            if (crc >> 8) in IB_SPECIAL or (crc & 255) in IB_SPECIAL:
                res.count("interbus.crc_with_reserved_byte")
            res.count("interbus.enc." + outs[0].split(" ")[0])
        elif k == "ib_wire":
            res.count("interbus.wire." + c["cls"])
            res.count("interbus.dec." + outs[0].split(" ")[0])
        elif k == "ib_rr":
            res.count("interbus.rr.op." + c["op"])
            res.count("interbus.rr.result." + outs[0].split("|")[0].split(" ")[0])
            res.count("interbus.rr.script_len." + str(min(len(c["script"]), 14)))
            for tag in c.get("cls", "").split("+"):
                res.count("interbus.rr.item." + tag)
        elif k == "apt_wd":
            res.count("apt.wd." + c["packet"])
        elif k == "apt_ask":
            res.count("apt.ask." + c["packet"])
            res.count("apt.ask.result." + outs[0].split("|")[0].split(" ")[0])
            res.count("apt.ask.expect." + str(c.get("expect")))
        elif k.startswith("k10_"):
            res.count("apt." + k)
            res.count("apt." + k + ".result." + outs[0].split("|")[0].split(" ")[0])
            if k == "k10_read":
                res.count("apt.k10_read." + str(c.get("cls")))
        elif k in ("ib_seq", "apt_seq", "k10_seq"):
            res.count("sequence_on_one_object." + k)
            if k == "apt_seq":
                for tag in c.get("cls", "").split("+"):
                    res.count("apt.session." + tag)
        elif k == "t3":
            res.count("t2.t3_batches", len(c["batches"]))
        elif k == "t2":
            res.count("t2.batches." + str(min(len(c["batches"]), 9)))
            res.count("t2.records", sum(len(b) for b in c["batches"]))
            res.count("t2.overflow_records", sum(1 for b in c["batches"] for r in b if (r >> 25) == 0x7F))
            if c.get("counter0"):
                res.count("t2.nonzero_carried_counter_at_start")
                if c["counter0"] >= (1 << 39) - (1 << 25):
                    res.count("t2.carried_counter_at_uint64_bound")

    def _cases(self, ctx: Ctx) -> list:
        rng = ctx.rng
        packets = live_packets()
        cases: list = fixed_corpus()
        cases += [gen_ib_seq(rng) for _ in range(ctx.scale(1000, 15000))]
        cases += [gen_apt_seq(rng, packets) for _ in range(ctx.scale(2000, 30000))]
        cases += [gen_k10_seq(rng) for _ in range(ctx.scale(1000, 15000))]
        # boundary lengths, every reserved byte at every position of a short payload
        for n in (0, 1, 2, 239, 240, 241):
            for fill in (0x00, 0x0A, 0x0D, 0x5E, 0x4A):
                cases.append({"kind": "ib_codec", "d": 1, "s": 161, "t": 5, "r": 0x31, "data": (bytes([fill]) * n).hex()})
        for a in IB_SPECIAL + (0x4A, 0x4D, 0x9E, 0x41):
            for b in IB_SPECIAL + (0x4A, 0x4D, 0x9E, 0x41):
                cases.append({"kind": "ib_codec", "d": 13, "s": 162, "t": 8, "r": 0x5E, "data": bytes([a, b]).hex()})
        cases += retry_boundary_cases()
        cases += [gen_ib_codec(rng) for _ in range(ctx.scale(8000, 150000))]
        cases += [gen_ib_wire(rng) for _ in range(ctx.scale(12000, 300000))]
        cases += [gen_ib_rr(rng) for _ in range(ctx.scale(8000, 150000))]
        cases += [gen_apt_wp(rng) for _ in range(ctx.scale(2500, 40000))]
        cases += [gen_apt_wd(rng, packets) for _ in range(ctx.scale(5000, 100000))]
        cases += [gen_apt_ask(rng, packets) for _ in range(ctx.scale(10000, 200000))]
        cases += [gen_apt_askt(rng, packets) for _ in range(ctx.scale(1000, 20000))]
        cases += [gen_k10_read(rng) for _ in range(ctx.scale(4000, 80000))]
        cases += [gen_k10_wait(rng) for _ in range(ctx.scale(3500, 60000))]
        cases += [gen_k10_send(rng) for _ in range(ctx.scale(1500, 20000))]
        cases += [gen_k10_create(rng) for _ in range(ctx.scale(2000, 30000))]
        cases += gen_t2_cases(rng, ctx.scale(160, 1500), ctx.scale(6, 9), ctx.scale(400, 8000))
        cases += [gen_t3_case(rng) for _ in range(ctx.scale(1800, 30000))]
        return cases

    def correspondence(self, ctx: Ctx) -> Result:
        res = Result(rule=(
            "case = one call (or one decoder fed batch after batch) on the real code with generated input; Interbus: messages with "
            "payloads biased to 0x0A/0x0D/0x5E and the escape codes, lengths 0/1/239/240/241, CRCs containing reserved bytes, damaged "
            "frames (one wire byte, CRC byte, address, deletion, insertion, truncation), request/response scripts of good / "
            "mis-addressed / damaged / missing replies split into transfers; APT: every packet class with boundary field values, "
            "wrong ids, wrong lengths, truncated streams; T2: conforming record streams with every split into batches (short) and "
            "random splits incl. empty batches (long), carried counters at the uint64 bound; K10CR1 layer: every table class well-formed, unknown id, "
            "wrong length field, long flag on/off, partial messages, wait behind other messages with a stepping clock, create, send with "
            "pending data; several requests / asks through ONE protocol object over one transport; a fixed boundary corpus runs first on "
            "every seed; non-trivial = non-empty payload/script/stream; distinct by the op lines"))
        cases = self._cases(ctx)
        ctx.log(f"{len(cases)} cases generated")
        self._run(ctx, cases, res)
        for c in cases[:2] + [c for c in cases if c["kind"] == "ib_rr"][:2] + [c for c in cases if c["kind"] == "apt_ask"][:1] + \
                [c for c in cases if c["kind"] == "t2" and len(c["batches"]) > 1][:1]:
            l, o, _ = run_case(c)
            res.sample({"ops": [x[:200] for x in l], "impl": [x[:200] for x in o]}, limit=8)
        try:
            res.extra["generated_constants"] = {k: v for k, v in translate_all().items() if k not in ("apt", "k10")}
        except Exception as e:  # noqa  (the translator stage reports this itself)
            res.extra["generated_constants"] = f"translator failed: {e}"
        return res

    # -- failing-input search (a link broke, nothing failed yet) ---------------------------------------
    def search(self, ctx: Ctx, broken: list) -> Result:
        res = Result()
        for b in broken:
            if b.case and "kind" in b.case:
                self._run(ctx, [b.case], res, diff=False)
        if res.failures:
            return res
        cases: list = []
        alpha = [0x0A, 0x0D, 0x5E, 0x4A, 0x4D, 0x9E, 0x1E, 0x00]
        # Interbus: all payloads over the escape alphabet up to length 3, every single byte, boundary lengths
        for n in range(0, 4):
            for tup in itertools.product(alpha, repeat=n):
                cases.append({"kind": "ib_codec", "d": 10, "s": 161, "t": 5, "r": 13, "data": bytes(tup).hex()})
        for v in range(256):
            cases.append({"kind": "ib_codec", "d": 1 + v % 160, "s": 161 + v % 95, "t": v % 10, "r": v, "data": bytes([v, 255 - v]).hex()})
        for n in (238, 239, 240):
            cases.append({"kind": "ib_codec", "d": 160, "s": 255, "t": 9, "r": 255, "data": (bytes(range(256)) * 2)[:n].hex()})
        # every single-byte damage (three masks) of three frames
        for msg in ((5, 161, 8, 0x17, b"\x01\x02"), (13, 162, 3, 0x5E, b"\x0a\x0d\x5e"), (160, 255, 8, 0, b"")):
            w = ref_ib_encode(*msg)
            for i in range(len(w)):
                for mask in (0x01, 0x80, 0x54):
                    cases.append({"kind": "ib_wire", "wire": (w[:i] + bytes([w[i] ^ mask]) + w[i + 1:]).hex(), "cls": "wire-flip"})
        cases += retry_boundary_cases()
        # APT / T2: a denser random sweep plus all short T2 streams over a small record alphabet with all splits
        packets = live_packets()
        cases += [gen_apt_wp(ctx.rng) for _ in range(1500)]
        cases += [gen_apt_wd(ctx.rng, packets) for _ in range(3000)]
        cases += [gen_apt_ask(ctx.rng, packets) for _ in range(6000)]
        cases += [gen_apt_seq(ctx.rng, packets) for _ in range(4000)] + [gen_k10_seq(ctx.rng) for _ in range(2000)]
        cases += [gen_ib_seq(ctx.rng) for _ in range(3000)] + [gen_k10_read(ctx.rng) for _ in range(3000)] + \
                 [gen_k10_wait(ctx.rng) for _ in range(3000)]
        recs = [t2_rec("photon", 1, 5), t2_rec("photon", 63, T2_WRAP - 1), t2_rec("sync", 0, 0), t2_rec("marker", 15, 9),
                t2_rec("overflow", 0x3F, 1), t2_rec("overflow", 0x3F, 3)]
        for n in range(0, 5):
            for tup in itertools.product(recs, repeat=n):
                for sp in all_splits(list(tup)):
                    cases.append({"kind": "t2", "batches": sp, "counter0": 0})
        cases += fixed_corpus()
        cases += [gen_ib_codec(ctx.rng) for _ in range(4000)] + [gen_ib_wire(ctx.rng) for _ in range(6000)] + \
                 [gen_ib_rr(ctx.rng) for _ in range(4000)]
        self._run(ctx, cases, res, diff=False)
        return res

    def replay(self, ctx: Ctx, rp: dict) -> Optional[Failure]:
        try:
            fails = run_case(rp)[2]
        except IoBudgetExceeded:
            fails = [("io-budget-exceeded", rp["kind"], "the real code did not stop talking to the fake transport")]
        return _fail_of(rp, fails[0]) if fails else None


PROP = C15B()
