"""C15 part A — SCPI command/response + definite-length blocks, USBTMC bulk message framing.

Model: lean/QmiModel/Model/Scpi.lean, Model/Usbtmc.lean; theorems: Props/C15.lean; driver: drv_c15.

Tie: every case runs the *real* `ScpiProtocol` (on a recording fake transport that implements the
`QMI_Transport` contract) or the *real* `usbtmc.Instrument.write_raw/read_raw/pack_*/unpack_*` (on fake
bulk endpoints), writes what it did as one canonical line, and the same line is evaluated by the Lean model.

Oracle: the devices on the other side are **independent reference implementations written from the
protocol documents** (IEEE 488.2 §7.7.6/§8.7.9 for `#<k><len><data>`, SCPI-99 message terminators,
USBTMC 1.0 §3.2/§3.3 Tables 1–9), not from QMI:
  * the reference device must decode from QMI's output exactly the payload the driver asked to send and
    must not see a single protocol violation (alignment, EOM placement, bTag range/sequence/inverse, sizes);
  * the driver must receive exactly what the reference device sent, for every way the device splits a reply;
  * a reply the reference decoder calls malformed / incomplete must raise, never return data.
"""
from __future__ import annotations

import array
import itertools

from harness.core import Broken, Ctx, Failure, LeanDriver, Prop, Result, diff_streams


class _Budget(BaseException):
    """raised by a fake when the code under test performs more I/O than any terminating run could"""


# ---------------------------------------------------------------------------
# canonical text
# ---------------------------------------------------------------------------

def hx(b) -> str:
    b = bytes(b)
    return b.hex() if b else "-"


def hxi(b) -> str:
    b = bytes(b)
    return b.hex() if b else "z"


def items(l) -> str:
    return ",".join(hxi(x) for x in l) if l else "-"


def nats(l) -> str:
    return ",".join(str(x) for x in l) if l else "-"


def cps(s: str) -> str:
    return ",".join(str(ord(c)) for c in s) if s else "-"


def on(x) -> str:
    return "-" if x is None else str(x)


def unhx(s: str) -> bytes:
    return b"" if s in ("-", "z") else bytes.fromhex(s)


def exc_name(e: BaseException) -> str:
    import struct
    import usb.core
    if isinstance(e, _Budget):
        return "hang"
    if isinstance(e, usb.core.USBError):
        return f"exc:USBError:{e.errno}"
    if isinstance(e, struct.error):
        return "exc:struct.error"
    return f"exc:{type(e).__name__}"


# ---------------------------------------------------------------------------
# SCPI: recording transport (QMI_Transport contract) and reference device
# ---------------------------------------------------------------------------

_TR_CLS = None


def _transport_cls():
    global _TR_CLS
    if _TR_CLS is not None:
        return _TR_CLS
    from qmi.core.transport import QMI_Transport
    from qmi.core.exceptions import QMI_TimeoutException

    class RecTransport(QMI_Transport):
        def __init__(self, rx: bytes, pending: bytes, sloppy: int, budget: int = 40):
            # sloppy: 0 = strict byte stream, 1 = byte stream that hands out unterminated bytes, 2 = MESSAGE based transport
            # (USBTMC / GPIB / VXI-11 style: read_until ignores the terminator and returns the whole device message)
            super().__init__()
            self._is_open = True
            self.rx = bytearray(rx)          # already received, not consumed
            self.pending = bytes(pending)    # what the device sends once it sees the next command
            self.sloppy = sloppy
            self.log: list[str] = []
            self.tx = bytearray()
            self.budget = budget

        def _tick(self):
            self.budget -= 1
            if self.budget < 0:
                raise _Budget()

        def write(self, data):
            self._tick()
            data = bytes(data)
            self.log.append("w:" + hx(data))
            self.tx += data
            self.rx += self.pending
            self.pending = b""

        def read(self, nbytes, timeout=None):
            self._tick()
            self.log.append(f"r:{nbytes}:{on(timeout)}")
            if nbytes <= len(self.rx):
                out = bytes(self.rx[:nbytes])
                del self.rx[:nbytes]
                return out
            raise QMI_TimeoutException("fake transport: not enough bytes")

        def read_until(self, message_terminator, timeout=None):
            self._tick()
            term = bytes(message_terminator)
            self.log.append(f"u:{hx(term)}:{on(timeout)}")
            if self.sloppy == 2:
                if not self.rx:
                    raise QMI_TimeoutException("fake message transport: no message")
                out = bytes(self.rx)
                self.rx.clear()
                return out
            i = self.rx.find(term)
            if i >= 0:
                out = bytes(self.rx[:i + len(term)])
                del self.rx[:i + len(term)]
                return out
            if self.sloppy == 1 and self.rx:
                out = bytes(self.rx)
                self.rx.clear()
                return out
            raise QMI_TimeoutException("fake transport: no terminator")

        def discard_read(self):
            self._tick()
            self.log.append("d")
            self.rx.clear()

        def showlog(self) -> str:
            return ";".join(self.log) if self.log else "-"

    _TR_CLS = RecTransport
    return RecTransport


# --- reference device side, from the standards (independent of QMI) ----------

def ref_split_program_messages(stream: bytes, term: bytes):
    """Device input: program messages are delimited by the program message terminator."""
    msgs = []
    if not term:
        return msgs, stream
    while True:
        i = stream.find(term)
        if i < 0:
            return msgs, stream
        msgs.append(stream[:i])
        stream = stream[i + len(term):]


def ref_first_response(stream: bytes, term: bytes):
    """Controller input: a response message ends at the first response message terminator."""
    i = stream.find(term)
    if i < 0:
        return None
    return stream[:i], stream[i + len(term):]


def ref_block_encode(d: bytes, digits=None) -> bytes:
    """IEEE 488.2 8.7.9 <DEFINITE LENGTH ARBITRARY BLOCK RESPONSE DATA>: '#' <nonzero digit> <digits> <data>."""
    n = str(len(d))
    if digits is not None and digits > len(n):
        n = "0" * (digits - len(n)) + n
    assert 1 <= len(n) <= 9
    return b"#" + str(len(n)).encode() + n.encode() + d


def ref_block_decode(stream: bytes, term: bytes, want_term: bool):
    """-> ('ok', data, rest) | ('malformed', why) | ('incomplete', why).  '#0' (indefinite) counts as malformed here:
    it is not a definite-length block."""
    D = b"0123456789"
    if len(stream) >= 1 and stream[0:1] != b"#":
        return ("malformed", "no-hash")
    if len(stream) < 2:
        return ("incomplete", "header")
    if stream[1] not in D:
        return ("malformed", "digit-count")
    k = stream[1] - 48
    if k == 0:
        return ("malformed", "indefinite")
    ld = stream[2:2 + k]
    if any(c not in D for c in ld):
        return ("malformed", "length-field")
    if len(ld) < k:
        return ("incomplete", "length-field")
    n = 0
    for c in ld:
        n = n * 10 + (c - 48)
    body = stream[2 + k:2 + k + n]
    if len(body) < n:
        return ("incomplete", "data")
    rest = stream[2 + k + n:]
    if want_term:
        t = rest[:len(term)]
        if t != term[:len(t)]:
            return ("malformed", "terminator")
        if len(t) < len(term):
            return ("incomplete", "terminator")
        rest = rest[len(term):]
    return ("ok", body, rest)


def _str_of(cp_list) -> str:
    return "".join(chr(c) for c in cp_list)


def run_scpi(c: dict):
    """Run one SCPI case on the real ScpiProtocol.  -> (line, impl_out, clause, info)"""
    from qmi.core.scpi_protocol import ScpiProtocol
    T = _transport_cls()
    kind = c["kind"]
    ct, rt = _str_of(c.get("ct", [10])), _str_of(c.get("rt", [10]))
    dflt, to = c.get("dflt"), c.get("to")
    info = {}
    if kind == "s.init":
        line = f"s.init {cps(ct)} {cps(rt)}"
        try:
            ScpiProtocol(T(b"", b"", False), ct, rt)
            out = "ok"
        except BaseException as e:  # noqa
            out = exc_name(e)
        ascii_ok = all(ord(x) < 128 for x in ct + rt)
        clause = None if (out == "ok") == ascii_ok else "constructor-outcome"
        return line, out, clause, info

    tr = T(unhx(c.get("rx", "-")), unhx(c.get("pending", "-")), int(c.get("sloppy", 0)))
    try:
        proto = ScpiProtocol(tr, ct, rt, dflt)
    except BaseException as e:  # noqa
        proto, ctor_exc = None, exc_name(e)
    bct = ct.encode("ascii", "replace")
    brt = rt.encode("ascii", "replace")

    if kind == "s.write":
        cmd = _str_of(c["cmd"])
        line = f"s.write {cps(ct)} {cps(rt)} {cps(cmd)}"
        if proto is None:
            return line, ctor_exc, None, info
        try:
            proto.write(cmd)
            out = f"ok log={tr.showlog()}"
            raised = False
        except BaseException as e:  # noqa
            out = f"{exc_name(e)} log={tr.showlog()}"
            raised = True
        clause = None
        if all(ord(x) < 128 for x in cmd):
            want = cmd.encode("ascii")
            if raised:
                clause = "write-raised"
            elif bytes(tr.tx) != want + bct:
                clause = "device-sees-different-bytes"
            elif bct and (want + bct).find(bct) == len(want):   # a command the terminator can delimit
                msgs, left = ref_split_program_messages(bytes(tr.tx), bct)
                if msgs != [want] or left:
                    clause = "device-decodes-different-command"
        elif not raised:
            clause = "non-ascii-command-sent"
        info["nontrivial"] = len(cmd) > 0
        return line, out, clause, info

    if kind == "s.writeraw":
        cmd = unhx(c["cmd"])
        line = f"s.writeraw {cps(ct)} {cps(rt)} {hx(cmd)}"
        if proto is None:
            return line, ctor_exc, None, info
        try:
            proto.write_raw(cmd)
            out = f"ok log={tr.showlog()}"
            clause = None if bytes(tr.tx) == cmd + bct else "device-sees-different-bytes"
        except BaseException as e:  # noqa
            out = f"{exc_name(e)} log={tr.showlog()}"
            clause = "write-raised"
        info["nontrivial"] = len(cmd) > 0
        return line, out, clause, info

    if kind == "s.ask":
        cmd = _str_of(c["cmd"])
        discard = bool(c.get("discard", 0))
        line = (f"s.ask {cps(ct)} {cps(rt)} {on(dflt)} {on(to)} {int(discard)} {int(tr.sloppy)} {cps(cmd)} "
                f"{hx(tr.rx)} {hx(tr.pending)}")
        if proto is None:
            return line, ctor_exc, None, info
        stale, pending = bytes(tr.rx), tr.pending
        try:
            r = proto.ask(cmd, timeout=to, discard=discard)
            raised = None
            shown = hx(r.encode("utf8", "surrogatepass")) if isinstance(r, str) else "notstr"
            out = f"ok {shown} log={tr.showlog()} rx={hx(tr.rx)}"
        except BaseException as e:  # noqa
            raised, r = e, None
            out = f"{exc_name(e)} log={tr.showlog()} rx={hx(tr.rx)}"
        clause = None
        if all(ord(x) < 128 for x in cmd) and brt:
            # what the controller sees after the command went out
            stream = (b"" if discard else stale) + pending
            want_cmd = cmd.encode("ascii")
            if tr.sloppy == 2:
                # message based: the reply is the whole device message; it must end in the terminator, which is taken off once
                first = (stream[:-len(brt)], b"") if stream.endswith(brt) else None
                info["inner_terminators"] = min(stream[:-len(brt)].count(brt), 3) if first else 0
            else:
                first = ref_first_response(stream, brt)
            if bytes(tr.tx) != want_cmd + bct:
                clause = "device-sees-different-command"
            elif first is None:
                info["class"] = "unterminated"
                if raised is None:
                    clause = "unterminated-reply-accepted"
            else:
                msg, rest = first
                if all(b < 128 for b in msg):
                    info["class"] = "valid"
                    if raised is not None:
                        clause = "valid-reply-rejected"
                    elif r != msg.decode("ascii"):
                        clause = "driver-receives-different-reply"
                    elif bytes(tr.rx) != rest:
                        clause = "following-bytes-disturbed"
                else:
                    info["class"] = "non-ascii"
                    if raised is None:
                        clause = "non-ascii-reply-mangled"
        info["nontrivial"] = len(pending) > 0
        return line, out, clause, info

    if kind == "s.bin":
        flag = bool(c.get("flag", 1))
        line = f"s.bin {cps(ct)} {cps(rt)} {on(dflt)} {on(to)} {int(flag)} {hx(tr.rx)}"
        if proto is None:
            return line, ctor_exc, None, info
        stream = bytes(tr.rx)
        try:
            d = proto.read_binary_data(read_terminator_flag=flag, timeout=to)
            raised = None
            out = f"ok {hx(d)} log={tr.showlog()} rx={hx(tr.rx)}"
        except BaseException as e:  # noqa
            raised, d = e, None
            out = f"{exc_name(e)} log={tr.showlog()} rx={hx(tr.rx)}"
        ref = ref_block_decode(stream, brt, flag)
        info["class"] = ref[0] + (":" + ref[1] if ref[0] != "ok" else "")
        clause = None
        if ref[0] == "ok":
            if raised is not None:
                clause = "valid-block-rejected"
            elif d != ref[1]:
                clause = "driver-receives-different-block"
            elif bytes(tr.rx) != ref[2]:
                clause = "following-bytes-disturbed"
        elif raised is None:
            clause = f"{ref[0]}-block-accepted:{ref[1]}"
        elif isinstance(raised, _Budget):
            clause = f"{ref[0]}-block-hangs:{ref[1]}"
        info["nontrivial"] = len(stream) > 2
        return line, out, clause, info

    raise ValueError(f"unknown scpi case kind {kind}")


# ---------------------------------------------------------------------------
# USBTMC: fake endpoints, reference device (USBTMC 1.0 / USB488), reference host reassembly
# ---------------------------------------------------------------------------

IOERR = "!"
TIMEOUT = "~"


class RefDevice:
    """A conforming USBTMC device, written from the USBTMC 1.0 specification.

    Bulk-OUT (§3.2): Table 1 header = MsgID, bTag (1..255, must differ from the previous Bulk-OUT header's bTag),
    bTagInverse (one's complement), Reserved 0x00; Table 3 DEV_DEP_MSG_OUT = TransferSize (LE32, > 0),
    bmTransferAttributes (D0 = EOM, D7..D1 = 0), 3 reserved 0x00, TransferSize data bytes, 0..3 alignment bytes so
    the transfer is a multiple of 4 bytes; Table 4 REQUEST_DEV_DEP_MSG_IN = TransferSize (> 0),
    bmTransferAttributes (D1 = TermCharEnabled, others 0), TermChar, 2 reserved 0x00, no data.
    Bulk-IN (§3.3): Table 8/9 header = MsgID 2, bTag and bTagInverse of the request, Reserved, TransferSize
    (≤ requested), bmTransferAttributes (D0 = EOM: last byte of the message is in this transfer), 3 reserved,
    the data, optional alignment bytes.
    Every deviation seen on Bulk-OUT is recorded in `violations`.
    """

    def __init__(self, reply: bytes | None = None, chunks=(), pads=()):
        self.violations: list[str] = []
        self.prev_tag = None
        self.acc = bytearray()
        self.messages: list[bytes] = []
        self.request = None
        self.reply = reply                  # remaining bytes of the response message (None: nothing to say)
        self.chunks = list(chunks)          # the device's own choice of how much to put into each transfer
        self.pads = list(pads)              # alignment bytes it appends to each transfer
        self.responses: list[bytes] = []
        self.requests: list[tuple] = []

    def _v(self, what: str):
        self.violations.append(what)

    def bulk_out(self, t: bytes):
        if len(t) < 12:
            self._v("short-header")
            return
        if len(t) % 4:
            self._v("transfer-not-multiple-of-4")
        msgid, tag, inv, rsv = t[0], t[1], t[2], t[3]
        if tag == 0:
            self._v("btag-zero")
        if inv != (tag ^ 0xFF):
            self._v("btag-inverse")
        if rsv != 0:
            self._v("reserved-nonzero")
        if tag == self.prev_tag:
            self._v("btag-repeated")
        self.prev_tag = tag
        size = t[4] | t[5] << 8 | t[6] << 16 | t[7] << 24
        if msgid == 1:
            attr = t[8]
            if attr & 0xFE:
                self._v("out-attributes-reserved-bits")
            if t[9:12] != b"\0\0\0":
                self._v("reserved-nonzero")
            if size == 0:
                self._v("transfer-size-zero")
            if len(t) < 12 + size:
                self._v("data-shorter-than-transfer-size")
            elif len(t) != 12 + size + (-size % 4):
                self._v("alignment-bytes")
            self.acc += t[12:12 + size]
            if attr & 1:
                self.messages.append(bytes(self.acc))
                self.acc.clear()
        elif msgid == 2:
            attr = t[8]
            if len(t) != 12:
                self._v("request-carries-data")
            if attr & 0xFD:
                self._v("in-attributes-reserved-bits")
            if t[10:12] != b"\0\0":
                self._v("reserved-nonzero")
            if size == 0:
                self._v("request-size-zero")
            if self.acc:
                self._v("request-inside-unfinished-message")
            self.request = (tag, size, attr, t[9])
            self.requests.append(self.request)
        else:
            self._v("unknown-msgid")

    def bulk_in(self):
        """-> bytes of one Bulk-IN transfer, or None (nothing to send: the host will time out)"""
        if self.request is None or self.reply is None:
            return None
        tag, size, _attr, _tc = self.request
        self.request = None
        n = min(size, len(self.reply))
        if self.chunks:
            n = min(n, max(self.chunks.pop(0), 0))
        data, self.reply = self.reply[:n], self.reply[n:]
        eom = len(self.reply) == 0
        if eom:
            self.reply = None
        pad = self.pads.pop(0) if self.pads else b""
        t = bytes([2, tag, tag ^ 0xFF, 0, n & 255, n >> 8 & 255, n >> 16 & 255, n >> 24 & 255,
                   1 if eom else 0, 0, 0, 0]) + data + pad[:3]
        self.responses.append(t)
        return t


def ref_host_reassemble(script, check=False, last=0):
    """Host side of §3.3, written from the specification: concatenate the data of the transfers; the data of a
    transfer are the bytes after the 12-byte header, at most TransferSize of them; EOM counts only if the
    transfer really carried TransferSize bytes (§3.3.1.1).  With `check` the header of every transfer must answer the
    request it follows (Table 8: MsgID = DEV_DEP_MSG_IN, bTag = the request's bTag, bTagInverse = its complement);
    request i carries the i-th tag after `last`.  -> ('ok', data) | ('error', why)"""
    out = b""
    tag = last
    for t in script:
        tag = tag % 255 + 1
        if t == IOERR:
            return ("error", "ioerr")
        if t == TIMEOUT:
            return ("error", "timeout")
        if len(t) < 12:
            return ("error", "short")
        if check:
            if t[0] != 2:
                return ("error", "msgid")
            if t[1] != tag:
                return ("error", "btag")
            if t[2] != (t[1] ^ 0xFF):
                return ("error", "btaginv")
        size = t[4] | t[5] << 8 | t[6] << 16 | t[7] << 24
        data = t[12:12 + size]
        out += data
        if len(data) >= size and (t[8] & 1):
            return ("ok", out)
    return ("error", "exhausted")


class FakeOut:
    bEndpointAddress = 0x02

    def __init__(self, dev: RefDevice | None, fault=None, budget=4000):
        self.dev, self.fault, self.budget = dev, fault, budget
        self.writes: list[bytes] = []
        self.cleared = 0

    def write(self, data, timeout=None):
        import usb.core
        self.budget -= 1
        if self.budget < 0:
            raise _Budget()
        data = bytes(data)
        k = len(self.writes)
        self.writes.append(data)
        if self.fault is not None and self.fault[0] == k:
            raise usb.core.USBError("fake", errno=110 if self.fault[1] else 5)
        if self.dev is not None:
            self.dev.bulk_out(data)
        return len(data)

    def clear_halt(self):
        self.cleared += 1


class FakeIn:
    bEndpointAddress = 0x81

    def __init__(self, dev: RefDevice | None, script=None, budget=4000, usb=None):
        self.dev, self.script, self.budget = dev, (list(script) if script is not None else None), budget
        self.sizes: list[int] = []
        self.usb = usb
        self.abort_read = None          # size asked by the read inside _abort_bulk_in

    def read(self, size, timeout=None):
        import usb.core
        self.budget -= 1
        if self.budget < 0:
            raise _Budget()
        if self.usb is not None and self.usb.expect_abort_read:
            self.usb.expect_abort_read = False
            self.abort_read = size
        else:
            self.sizes.append(size)
        if self.script is not None:
            if not self.script:
                raise usb.core.USBError("fake timeout", errno=110)
            t = self.script.pop(0)
            if t == IOERR:
                raise usb.core.USBError("fake io error", errno=5)
            if t == TIMEOUT:
                raise usb.core.USBError("fake timeout (late device)", errno=110)
            return array.array("B", t)
        t = self.dev.bulk_in()
        if t is None:
            raise usb.core.USBError("fake timeout", errno=110)
        return array.array("B", t)

    def clear_halt(self):
        pass


class FakeUsb:
    """the `usb.core.Device` of the instrument: control transfers only.  The USBTMC abort / status requests (bRequest 1..4)
    are answered from a script of status bytes; an exhausted script answers STATUS_TRANSFER_NOT_IN_PROGRESS (0x81)."""

    def __init__(self, statuses=()):
        self.ctrl: list[tuple] = []          # (bRequest, wValue) of the USBTMC requests 1..4
        self.vendor: list[tuple] = []        # everything else (Advantest lock/unlock, …)
        self.statuses = list(statuses)
        self.expect_abort_read = False
        self.calls = 0

    def ctrl_transfer(self, bmRequestType=None, bRequest=None, wValue=0, wIndex=0, data_or_wLength=None, timeout=None):
        self.calls += 1
        if self.calls > 200:
            raise _Budget()
        if bRequest in (1, 2, 3, 4):
            self.ctrl.append((bRequest, wValue))
            st = self.statuses.pop(0) if self.statuses else 0x81
            if bRequest == 3 and st == 1:
                self.expect_abort_read = True
            return array.array("B", [st, wValue & 0xFF, 0, 0, 0, 0, 0, 0])
        self.vendor.append((bRequest, wValue))
        return array.array("B", [1, 0, 0, 0, 0, 0, 0, 0])

    def abort_tag(self):
        for req, val in self.ctrl:
            if req in (1, 3):
                return val
        return None

    def show(self):
        return ",".join(f"{a}:{b}" for a, b in self.ctrl) if self.ctrl else "-"


class _NoSleep:
    """`time` as seen by qmi.core.usbtmc: the abort sequences poll with sleep(0.1)"""
    @staticmethod
    def sleep(_):
        return None


def _mk_inst(last, mts, term_char=None, rigol=False, adv=False, ieee=False, statuses=()):
    from qmi.core import usbtmc
    usbtmc.time = _NoSleep
    usb = FakeUsb(statuses)
    inst = usbtmc.Instrument(device=usb)
    inst.connected = True
    inst.max_transfer_size = mts
    inst.last_btag = last
    inst.term_char = term_char
    inst.rigol_quirk = rigol
    inst.rigol_quirk_ieee_block = ieee
    inst.advantest_quirk = adv
    return inst, usb


_CHECK_HDR = None


def checks_bulk_in_header() -> bool:
    """Does the tree under test validate MsgID / bTag / bTagInverse of a Bulk-IN header?  (probe: a well-formed reply with
    a foreign bTag; the pinned tree returns its payload.)  The model takes the answer as `Cfg.checkHdr`."""
    global _CHECK_HDR
    if _CHECK_HDR is None:
        from qmi.core import usbtmc
        inst, _ = _mk_inst(5, 64)
        inst.bulk_out_ep = FakeOut(None)
        inst.bulk_in_ep = FakeIn(None, [bytes([2, 77, 77 ^ 0xFF, 0, 1, 0, 0, 0, 1, 0, 0, 0, 65])])
        try:
            inst.read_raw()
            _CHECK_HDR = False
        except usbtmc.UsbtmcException:
            _CHECK_HDR = True
        finally:
            _drop(inst)
    return _CHECK_HDR


def _drop(inst):
    inst.connected = False     # keep __del__ from running close() on the fakes


def _script_items(script) -> str:
    return ",".join(t if t in (IOERR, TIMEOUT) else hxi(t) for t in script) if script else "-"


def _script_of(c):
    return [s if s in (IOERR, TIMEOUT) else unhx(s) for s in c["script"]]


def _fmt_w(head, inst, usb, ep) -> str:
    return (f"{head} tag={inst.last_btag} abort={on(usb.abort_tag())} ctrl={usb.show()} clr={min(ep.cleared, 1)} "
            f"sent={items(ep.writes)}")


def _fmt_r(head, inst, usb, ep, inep, left) -> str:
    return (f"{head} tag={inst.last_btag} abort={on(usb.abort_tag())} ctrl={usb.show()} ard={on(inep.abort_read)} "
            f"reqs={items(ep.writes)} sizes={nats(inep.sizes)} left={left}")


def run_usb(c: dict):
    """Run one USBTMC case on the real Instrument.  -> (line, impl_out, clause, info)"""
    from qmi.core import usbtmc
    kind = c["kind"]
    info = {}
    if kind == "u.consts":
        return ("u.consts", f"hdr={usbtmc.USBTMC_HEADER_SIZE} out={usbtmc.USBTMC_MSGID_DEV_DEP_MSG_OUT} "
                            f"in={usbtmc.USBTMC_MSGID_REQUEST_DEV_DEP_MSG_IN}", None, info)
    if kind in ("u.hdr", "u.packout", "u.packin"):
        inst, _ = _mk_inst(c["last"], 1024, c.get("tc"))
        try:
            if kind == "u.hdr":
                line = f"u.hdr {c['last']} {c['msgid']}"
                h = inst.pack_bulk_out_header(c["msgid"])
            elif kind == "u.packout":
                line = f"u.packout {c['last']} {c['size']} {int(c['eom'])}"
                h = inst.pack_dev_dep_msg_out_header(c["size"], bool(c["eom"]))
            else:
                line = f"u.packin {c['last']} {c['size']} {on(c.get('tc'))}"
                h = inst.pack_dev_dep_msg_in_header(c["size"], c.get("tc"))
            out = f"ok tag={inst.last_btag} {hx(h)}"
            tag = inst.last_btag
            clause = None
            # USBTMC 1.0 Table 1
            if not (1 <= h[1] <= 255) or h[1] != tag:
                clause = "btag-out-of-range"
            elif h[2] != (h[1] ^ 0xFF):
                clause = "btag-inverse"
            elif h[1] == c["last"]:
                clause = "btag-repeated"
            elif h[3] != 0 or (kind != "u.hdr" and len(h) != 12):
                clause = "header-layout"
            elif kind != "u.hdr" and (h[4] | h[5] << 8 | h[6] << 16 | h[7] << 24) != c["size"]:
                clause = "transfer-size-field"
            elif kind == "u.packout" and (h[8] != int(bool(c["eom"])) or h[9:12] != b"\0\0\0"):
                clause = "eom-field"
        except BaseException as e:  # noqa
            out = f"{exc_name(e)} tag={inst.last_btag}"
            clause = None if c.get("size", 0) >= 2 ** 32 else "header-pack-raised"
        _drop(inst)
        return line, out, clause, info
    if kind == "u.unpack":
        inst, _ = _mk_inst(0, 1024)
        resp = unhx(c["resp"])
        line = f"u.unpack {hx(resp)}"
        try:
            m, t, ti, ts, a, d = inst.unpack_dev_dep_resp_header(resp)
            out = f"ok {m} {t} {ti} {ts} {a} {hx(d)}"
            clause = None
            if len(resp) < 12:
                clause = "truncated-header-accepted"
            elif (m, t, ti, a) != (resp[0], resp[1], resp[2], resp[8]) or \
                    ts != (resp[4] | resp[5] << 8 | resp[6] << 16 | resp[7] << 24) or bytes(d) != resp[12:12 + ts]:
                clause = "header-fields-misread"
        except BaseException as e:  # noqa
            out = exc_name(e)
            clause = None if len(resp) < 12 else "valid-header-rejected"
        _drop(inst)
        return line, out, clause, info

    if kind == "u.write":
        # one write_raw against the reference device; optional endpoint fault
        last, mts, data = c["last"], c["mts"], unhx(c["data"])
        fault = c.get("fault")
        fl = "-" if fault is None else f"{fault[0]}:{'t' if fault[1] else 'e'}"
        ctrl = c.get("ctrl", [])
        line = f"u.write {last} {mts} {fl} {nats(ctrl)} {hx(data)}"
        dev = RefDevice()
        dev.prev_tag = c.get("devprev", last if last else None)
        inst, usb = _mk_inst(last, mts, statuses=ctrl)
        inst.bulk_out_ep = ep = FakeOut(dev, tuple(fault) if fault else None, budget=len(data) + 8)
        inst.bulk_in_ep = FakeIn(dev)
        try:
            inst.write_raw(data)
            raised = None
            head = "ok"
        except BaseException as e:  # noqa
            raised = e
            head = exc_name(e)
        if head == "hang":
            out = f"hang tag={last} abort=- ctrl=- clr=0 sent=-"
        else:
            out = _fmt_w(head, inst, usb, ep)
        inst_last = inst.last_btag
        _drop(inst)
        clause = None
        if mts >= 1 and fault is None:
            if raised is not None:
                clause = "write-raised"
            elif dev.violations:
                clause = "device-rejects:" + dev.violations[0]
            elif dev.acc:
                clause = "message-left-without-eom"
            elif dev.messages != ([data] if data else []):
                clause = "device-decodes-different-payload"
        elif fault is not None and fault[0] < max(1, -(-len(data) // max(mts, 1))) and data and mts >= 1 and raised is None:
            clause = "endpoint-error-swallowed"
        if clause is None and head != "hang" and usb.abort_tag() is not None and usb.abort_tag() != inst_last:
            clause = "abort-names-wrong-btag"        # USBTMC 4.2.1.2: wValue = bTag of the transfer to abort
        info["ntransfers"] = len(ep.writes)
        info["nontrivial"] = len(data) > 0
        return line, out, clause, info

    if kind == "u.read":
        # read_raw against the reference device (interactive) or against a script (corrupted / quirk cases)
        last, mts, tc, num = c["last"], c["mts"], c.get("tc"), c.get("num", -1)
        rigol, adv, ieee = bool(c.get("rigol", 0)), bool(c.get("adv", 0)), bool(c.get("ieee", 0))
        chk = checks_bulk_in_header()
        ctrl = c.get("ctrl", [])
        inst, usb = _mk_inst(last, mts, tc, rigol, adv, ieee, statuses=ctrl)
        if "script" in c:
            dev = None
            script = _script_of(c)
            inep = FakeIn(None, script, usb=usb)
        else:
            reply = unhx(c["reply"])
            dev = RefDevice(reply, c.get("chunks", ()), [unhx(p) for p in c.get("pads", ())])
            dev.prev_tag = last if last else None
            inep = FakeIn(dev, usb=usb)
        inst.bulk_out_ep = ep = FakeOut(dev)
        inst.bulk_in_ep = inep
        try:
            d = inst.read_raw(num)
            raised = None
            head = f"ok {hx(d)}"
        except BaseException as e:  # noqa
            raised, d = e, None
            head = exc_name(e)
        if dev is not None:
            script = list(dev.responses)
            left = 0
        else:
            left = len(inep.script)
        line = (f"u.read {last} {mts} {on(tc)} {int(rigol)} {int(adv)} {int(ieee)} {int(chk)} {num} {nats(ctrl)} "
                f"{_script_items(script)}")
        out = _fmt_r(head, inst, usb, ep, inep, left)
        inst_last = inst.last_btag
        _drop(inst)
        clause = None
        if usb.abort_tag() is not None and usb.abort_tag() != inst_last:
            clause = "abort-names-wrong-btag"        # USBTMC 4.2.1.4: wValue = bTag of the transfer to abort
        elif dev is not None:
            want = reply if num <= 0 else reply[:num]
            if dev.violations:
                clause = "device-rejects-request:" + dev.violations[0]
            elif raised is not None:
                clause = "read-raised"
            elif bytes(d) != want:
                clause = "driver-receives-different-data"
            elif (dev.reply or b"") != reply[len(want):]:
                clause = "rest-of-message-disturbed"
            info["ntransfers"] = len(script)
        elif not rigol and not adv and num <= 0 and mts < 2 ** 32:
            # the protocol's own rules, header integrity included (Table 8): a reply that does not answer the request
            # must raise, it is not the data the driver asked for (stale reply after a time-out, lost transfer, …)
            ref = ref_host_reassemble(script, True, last)
            cls = c.get("corrupt", "")
            info["class"] = cls or "scripted"
            if ref[0] == "ok":
                if raised is not None:
                    clause = "valid-reply-rejected"
                elif bytes(d) != ref[1]:
                    clause = "driver-receives-different-data"
            elif raised is None:
                why = ref[1]
                if why in ("msgid", "btag", "btaginv"):
                    clause = "bulk-in-header-mismatch-accepted:" + why
                    if "payload" in c and bytes(d) != unhx(c["payload"]):
                        info["wrong_data"] = 1
                elif why == "short":
                    clause = "truncated-header-accepted"
                else:
                    clause = "incomplete-reply-accepted"
        elif rigol and not adv and num <= 0 and "rig_expect" in c and not chk:
            info["class"] = "rigol-conforming"
            if raised is not None:
                clause = "rigol-valid-reply-rejected"
            elif bytes(d) != unhx(c["rig_expect"]):
                clause = "rigol-driver-receives-different-data"
            elif len(ep.writes) != 1:
                clause = "rigol-request-repeated"        # a second request makes these devices restart the transfer
        info["nontrivial"] = len(script) > 0
        return line, out, clause, info

    if kind == "u.trig":
        sup, mts, last = bool(c["sup"]), c["mts"], c["last"]
        line = f"u.trig {int(sup)} {mts} {last}"
        dev = RefDevice()
        dev.prev_tag = last if last else None
        inst, usb = _mk_inst(last, mts)
        inst.support_trigger = sup
        inst.bulk_out_ep = ep = FakeOut(dev if not sup else None, budget=20)
        try:
            inst.trigger()
            head, raised = "ok", None
        except BaseException as e:  # noqa
            head, raised = exc_name(e), e
        out = f"{head} tag={inst.last_btag} sent={items(ep.writes)}"
        _drop(inst)
        clause = None
        if raised is not None:
            clause = "trigger-raised"
        elif sup:
            # USB488 §3.2.1.1: MsgID 128, bTag, bTagInverse, 9 reserved zero bytes: a 12-byte Bulk-OUT message
            t = ep.writes[0] if len(ep.writes) == 1 else b""
            if len(t) != 12 or t[0] != 128 or not (1 <= t[1] <= 255) or t[1] == last or t[2] != (t[1] ^ 0xFF) or any(t[3:]):
                clause = "usb488-trigger-malformed"
        elif dev.violations or dev.messages != [b"*TRG"]:
            clause = "trigger-message-not-decoded"
        return line, out, clause, info

    if kind == "u.ask":
        # ask_raw = write_raw then read_raw on one instrument and one reference device
        last, mts, tc, num = c["last"], c["mts"], c.get("tc"), c.get("num", -1)
        adv = bool(c.get("adv", 0))
        chk = checks_bulk_in_header()
        fault, ctrl = c.get("fault"), c.get("ctrl", [])
        fl = "-" if fault is None else f"{fault[0]}:{'t' if fault[1] else 'e'}"
        data, reply = unhx(c["data"]), unhx(c["reply"])
        dev = RefDevice(None if c.get("late") else reply, c.get("chunks", ()), [unhx(p) for p in c.get("pads", ())])
        dev.prev_tag = last if last else None
        inst, usb = _mk_inst(last, mts, tc, False, adv, False, statuses=ctrl)
        inst.advantest_locked = bool(c.get("locked", 0))
        inst.bulk_out_ep = ep = FakeOut(dev, tuple(fault) if fault else None, budget=len(data) + 40)
        inst.bulk_in_ep = inep = FakeIn(dev, usb=usb)
        # observe the boundary between the two halves
        mark = {}
        real_read = inst.read_raw

        def read_raw(n=-1):
            mark["tag"], mark["nw"], mark["ctrl"], mark["clr"] = inst.last_btag, len(ep.writes), list(usb.ctrl), ep.cleared
            ep.fault = None           # the scripted endpoint fault belongs to the write half
            return real_read(n)
        inst.read_raw = read_raw
        try:
            d = inst.ask_raw(data, num)
            raised, head = None, f"ok {hx(d)}"
        except BaseException as e:  # noqa
            raised, d, head = e, None, exc_name(e)
        script = list(dev.responses)
        line = (f"u.ask {last} {mts} {on(tc)} 0 {int(adv)} 0 {int(chk)} {num} {fl} {nats(ctrl)} {hx(data)} "
                f"{_script_items(script)}")
        def show(l):
            return ",".join(f"{a}:{b}" for a, b in l) if l else "-"
        if "tag" in mark:
            wa = next((v for r, v in mark["ctrl"] if r == 1), None)
            w = f"ok tag={mark['tag']} abort={on(wa)} ctrl={show(mark['ctrl'])} clr={min(mark['clr'], 1)} sent={items(ep.writes[:mark['nw']])}"
            rc = usb.ctrl[len(mark["ctrl"]):]
            ra = next((v for r, v in rc if r == 3), None)
            r = (f"{head} tag={inst.last_btag} abort={on(ra)} ctrl={show(rc)} ard={on(inep.abort_read)} "
                 f"reqs={items(ep.writes[mark['nw']:])} sizes={nats(inep.sizes)} left=0")
            out = f"{w} | {r}"
        else:
            out = f"{_fmt_w(head, inst, usb, ep)} | -"
        locked_before = bool(c.get("locked", 0))
        _drop(inst)
        clause = None
        if adv and not locked_before and usb.vendor != [(0xA0, 1), (0xA0, 0)]:
            clause = "advantest-lock-not-paired"
        elif fault is None and not adv and not c.get("late"):
            want = reply if num <= 0 else reply[:num]
            if dev.violations:
                clause = "device-rejects:" + dev.violations[0]
            elif raised is not None:
                clause = "ask-raised"
            elif dev.messages != ([data] if data else []):
                clause = "device-decodes-different-payload"
            elif bytes(d) != want:
                clause = "driver-receives-different-data"
        elif fault is not None and data and fault[0] < -(-len(data) // mts) and raised is None:
            clause = "endpoint-error-swallowed"
        info["nontrivial"] = len(data) > 0 and len(reply) > 0
        return line, out, clause, info

    if kind == "u.session":
        # several calls on ONE instrument against ONE reference device: the bTag state is carried from call to call,
        # endpoint faults and abort sequences happen in between.  One model line per call (state explicit on each line).
        mts, tc = c["mts"], c.get("tc")
        chk = checks_bulk_in_header()
        dev = RefDevice()
        dev.prev_tag = c["last"] if c["last"] else None
        inst, usb0 = _mk_inst(c["last"], mts, tc)
        lines, outs, clause = [], [], None
        expect_msgs = []
        for op in c["ops"]:
            last = inst.last_btag
            usb = FakeUsb(op.get("ctrl", []))
            inst.device = usb
            fault = op.get("fault")
            fl = "-" if fault is None else f"{fault[0]}:{'t' if fault[1] else 'e'}"
            ep = FakeOut(dev, tuple(fault) if fault else None, budget=4000)
            inep = FakeIn(dev, usb=usb)
            inst.bulk_out_ep, inst.bulk_in_ep = ep, inep
            k = op["op"]
            try:
                if k == "w":
                    data = unhx(op["data"])
                    lines.append(f"u.write {last} {mts} {fl} {nats(op.get('ctrl', []))} {hx(data)}")
                    try:
                        inst.write_raw(data)
                        head = "ok"
                        if data:
                            expect_msgs.append(data)
                    except BaseException as e:  # noqa
                        head = exc_name(e)
                        dev.acc.clear()            # the device drops the unfinished message when the host aborts
                    outs.append(_fmt_w(head, inst, usb, ep))
                elif k == "t":
                    inst.support_trigger = bool(op["sup"])
                    lines.append(f"u.trig {int(op['sup'])} {mts} {last}")
                    pre = len(dev.violations)
                    inst.trigger()
                    if op["sup"]:
                        del dev.violations[pre:]      # MsgID 128 is USB488, which the USBTMC-only reference does not know
                    else:
                        expect_msgs.append(b"*TRG")
                    outs.append(f"ok tag={inst.last_btag} sent={items(ep.writes)}")
                elif k == "r":
                    reply = unhx(op["reply"])
                    dev.reply, dev.chunks, dev.pads = reply, list(op.get("chunks", ())), [unhx(x) for x in op.get("pads", ())]
                    if op.get("late"):
                        dev.reply = None               # the device has nothing to say yet: time-out, abort
                    n0 = len(dev.responses)
                    try:
                        d = inst.read_raw(op.get("num", -1))
                        head = f"ok {hx(d)}"
                        want = reply if op.get("num", -1) <= 0 else reply[:op["num"]]
                        if bytes(d) != want and clause is None:
                            clause = "driver-receives-different-data"
                    except BaseException as e:  # noqa
                        head = exc_name(e)
                        if not op.get("late") and clause is None:
                            clause = "read-raised"
                    dev.reply = None
                    script = dev.responses[n0:]
                    lines.append(f"u.read {last} {mts} {on(tc)} 0 0 0 {int(chk)} {op.get('num', -1)} {nats(op.get('ctrl', []))} "
                                 f"{_script_items(script)}")
                    outs.append(_fmt_r(head, inst, usb, ep, inep, 0))
            except BaseException as e:  # noqa
                outs.append(exc_name(e))
                if clause is None:
                    clause = "call-raised"
        _drop(inst)
        if clause is None:
            if dev.violations:
                clause = "device-rejects:" + dev.violations[0]
            elif dev.messages != expect_msgs:
                clause = "device-decodes-different-payloads"
        info["nontrivial"] = len(c["ops"]) > 1
        return lines, outs, clause, info

    if kind == "u.stb":
        # read_stb() on a USB488 interface: control request with its own tag cycle, optional interrupt-IN endpoint
        from qmi.core import usbtmc
        last, b, intr = c["last"], c["b"], c.get("intr")
        line = f"u.stb {last} {b[0]} {b[1]} {b[2]} {nats(intr) if intr else '-'}"
        inst, _ = _mk_inst(0, 64)
        inst.last_rstb_btag = last

        class _If:
            bInterfaceProtocol = usbtmc.USB488_bInterfaceProtocol
            index = 0
        inst.iface = _If()
        seen = {}

        class _Dev:
            def ctrl_transfer(self, bmRequestType=None, bRequest=None, wValue=0, wIndex=0, data_or_wLength=None, timeout=None):
                seen["req"], seen["wvalue"] = bRequest, wValue
                return array.array("B", b)
        inst.device = _Dev()

        class _Intr:
            def read(self, n, timeout=None):
                seen["intr"] = 1
                return array.array("B", intr)
        inst.interrupt_in_ep = _Intr() if intr else None
        try:
            v = inst.read_stb()
            head, raised = f"ok {v}", None
        except BaseException as e:  # noqa
            head, raised = exc_name(e), e
        out = f"{head} rstb={inst.last_rstb_btag} wvalue={seen.get('wvalue')} intr={seen.get('intr', 0)}"
        _drop(inst)
        # USB488 §4.3.1: bTag of READ_STATUS_BYTE is 2..127; the response repeats it; the interrupt packet carries 0x80|bTag
        t = seen.get("wvalue", 0)
        clause = None
        if seen.get("req") != 128:
            clause = "stb-wrong-request"
        elif raised is None and (b[0] != 1 or b[1] != t or (intr and intr[0] != (0x80 | t))):
            clause = "stb-mismatch-accepted"
        info["class"] = "tag-in-range" if 2 <= t <= 127 else "tag-out-of-range"
        return line, out, clause, info

    if kind == "u.clear":
        force, ctrl = bool(c["force"]), c.get("ctrl", [])
        line = f"u.clear {int(force)} {nats(ctrl)}"
        inst, usb = _mk_inst(c.get("last", 7), 64, statuses=())

        class _If:
            index = 0
        inst.iface = _If()
        inst.force_clear_bulk_in = force
        st = list(ctrl)
        calls = []

        class _Dev:
            def ctrl_transfer(self, bmRequestType=None, bRequest=None, wValue=0, wIndex=0, data_or_wLength=None, timeout=None):
                calls.append((bRequest, wValue))
                if len(calls) > 100:
                    raise _Budget()
                return array.array("B", [st.pop(0) if st else 0x81, 0])
        inst.device = _Dev()
        inst.bulk_out_ep = ep = FakeOut(None)
        inst.bulk_in_ep = inep = FakeOut(None)
        try:
            inst.clear()
            head = "ok"
        except BaseException as e:  # noqa
            head = exc_name(e)
        out = (f"{head} ctrl={','.join(f'{a}:{b_}' for a, b_ in calls) if calls else '-'} out={min(ep.cleared, 1)} "
               f"in={min(inep.cleared, 1)}")
        clause = None if inst.last_btag == c.get("last", 7) else "clear-moves-btag"
        _drop(inst)
        return line, out, clause, info

    if kind == "u.dev":
        # the model's device decoder against the Python reference device on the same transfers
        transfers = [unhx(t) for t in c["transfers"]]
        prev = c.get("prev")
        line = f"u.dev {on(prev)} {items(transfers)}"
        dev = RefDevice()
        dev.prev_tag = prev
        for t in transfers:
            dev.bulk_out(t)
        if dev.violations:
            out = "reject"
        else:
            out = f"ok prev={on(dev.prev_tag)} acc={hx(dev.acc)} msgs={items(dev.messages)}"
        info["nontrivial"] = len(transfers) > 0
        info["class"] = "reject" if dev.violations else "accept"
        return line, out, None, info

    if kind == "u.host":
        # the model's host-side reference (hostSpec) against the Python reference host on the same transfers
        script = _script_of(c)
        chk, last = bool(c.get("chk", 0)), c.get("last", 0)
        line = f"u.host {int(chk)} {last} {_script_items(script)}"
        ref = ref_host_reassemble(script, chk, last)
        out = f"ok {hx(ref[1])}" if ref[0] == "ok" else "error"
        info["nontrivial"] = len(script) > 0
        info["class"] = ref[0]
        return line, out, None, info

    raise ValueError(f"unknown usbtmc case kind {kind}")


# ---------------------------------------------------------------------------
# SCPI over the REAL transport classes (qmi/core/transport*.py), reply cut into recv results at chosen byte boundaries
# ---------------------------------------------------------------------------

_REAL = {}


def _real_env():
    """PieceDevice (a c19_endpoints.Device whose pending input is a queue of pieces: one recv / read / device_read hands
    out at most one piece) and the context manager that puts the real transports on it, with a virtual clock."""
    if _REAL:
        return _REAL
    from harness import c19_endpoints as E

    class PieceDevice(E.Device):
        def __init__(self):
            self.pieces = []             # list[bytearray], oldest first
            super().__init__(None)
            self.tx = bytearray()
            self.next_reply = []         # pieces the device sends once it has seen the next write
            self.budget = 20000

        @property
        def rx(self):
            while self.pieces and not self.pieces[0]:
                self.pieces.pop(0)
            if not self.pieces:
                self.pieces.append(bytearray())
            return self.pieces[0]

        @rx.setter
        def rx(self, v):
            self.pieces = [bytearray(v)] if v else []

        def connected(self, key):
            self.links.add(key)

        def written(self, data):
            self.tx += bytes(data)
            self.pieces += [bytearray(x) for x in self.next_reply]
            self.next_reply = []

        def take(self, n):
            head = self.rx
            out = bytes(head[:n])
            del head[:n]
            return out

        def pending(self):
            return b"".join(bytes(x) for x in self.pieces)

    class _Clock:
        """virtual `time` for qmi.core.transport: every look at the clock costs 1 ms, nobody sleeps"""
        def __init__(self):
            self.t = 1000.0

        def monotonic(self):
            self.t += 0.001
            return self.t

        def time(self):
            return self.monotonic()

        def sleep(self, dt):
            self.t += max(dt, 0)

    class Env(E.Patched):
        def __enter__(self):
            super().__enter__()
            import qmi.core.transport as T0
            self._set(T0, "time", _Clock())
            return self

    _REAL.update(E=E, PieceDevice=PieceDevice, Env=Env)
    return _REAL


def _cut(stream: bytes, cuts) -> list:
    """the stream as the pieces between the cut positions (every piece non-empty)"""
    pos = sorted({k for k in cuts if 0 < k < len(stream)})
    out, a = [], 0
    for k in pos + [len(stream)]:
        out.append(stream[a:k])
        a = k
    return [x for x in out if x]


def run_real(c: dict):
    """A session of SCPI exchanges through ScpiProtocol over a REAL transport object.  -> ([], [], clause, info)
    Oracle only (no model line: the Lean SCPI model sits on the transport contract, which is C13's theorem about these
    classes): the device decodes each command, the driver receives exactly each reply, whatever the recv boundaries."""
    env = _real_env()
    from qmi.core.scpi_protocol import ScpiProtocol
    from qmi.core.transport import create_transport
    kind = c["tr"]
    ct, rt = bytes(c["ct"]), bytes(c["rt"])
    dev = env["PieceDevice"]()
    info = {"nontrivial": True, "class": kind}
    clause = None
    with env["Env"](dev):
        tr = create_transport(env["E"].KINDS[kind])
        try:
            tr.open()
            proto = ScpiProtocol(tr, ct.decode("ascii"), rt.decode("ascii"))
            for i, ex in enumerate(c["ex"]):
                payload = unhx(ex["reply"])
                cmd = ex["cmd"]
                if ex["op"] == "ask":
                    stream = payload + rt
                else:
                    stream = ref_block_encode(payload, ex.get("digits")) + rt
                dev.next_reply = _cut(stream, ex.get("cuts", []))
                sent0 = len(dev.tx)
                try:
                    if ex["op"] == "ask":
                        got = proto.ask(cmd, timeout=ex.get("to", 1))
                        want = payload.decode("ascii")
                    else:
                        proto.write(cmd)
                        got = proto.read_binary_data(timeout=ex.get("to", 1))
                        want = payload
                except BaseException as e:  # noqa
                    clause = f"exchange-raised:{type(e).__name__}"
                    info["at"] = i
                    break
                if bytes(dev.tx[sent0:]) != cmd.encode("ascii") + ct:
                    clause = "device-sees-different-command"
                elif got != want:
                    # what came back instead: the previous reply (stale), a glued or a cut one?
                    prev = [unhx(e2["reply"]) for e2 in c["ex"][:i]]
                    g = got.encode("latin1") if isinstance(got, str) else bytes(got)
                    clause = "driver-receives-previous-reply" if (g and prev and g == prev[-1] and g != payload) \
                        else "driver-receives-different-reply"
                elif dev.pending() or getattr(tr, "_read_buffer", b""):
                    clause = "bytes-left-behind-after-reply"
                if clause:
                    info["at"] = i
                    break
        finally:
            try:
                if tr._is_open:
                    tr.close()
            except BaseException:  # noqa
                pass
    if clause:
        ex = c["ex"][info.get("at", 0)]
        info["desc"] = (f"ScpiProtocol over the real {kind} transport, response terminator {rt!r}: exchange #{info.get('at', 0)} "
                        f"({ex['op']} {ex['cmd']!r}, reply {unhx(ex['reply'])!r} delivered in pieces cut at {ex.get('cuts', [])}) "
                        f"of {len(c['ex'])}")
    return [], [], clause, info


def _real_sessions(level: int):
    """fixed corpus: every single cut of every reply stream, all 2-cut splittings of the short ones, all-single-byte
    delivery; 1-, 2- and 3-byte terminators; terminator bytes inside the payload; multi-ask sessions on one transport"""
    terms = [[10], [13, 10], [59, 13, 10]]
    kinds = ["tcp", "udp", "serial"]
    for kind in kinds:
        for rt in terms:
            brt = bytes(rt)
            # replies with parts of the terminator inside
            a = b"+1.25" + brt[:-1] * (len(brt) > 1) + b"E0"
            b = brt[1:] + b"OK" + brt[:1] * (len(brt) > 1) if len(brt) > 1 else b"OK"
            if (b + brt).find(brt) != len(b):
                b = b"OK" + brt[:1]
            blk = b"#" + brt + b"\x00\xff" + brt[:1]
            sa, sb = a + brt, b + brt
            sblk = ref_block_encode(blk) + brt
            def sess(cuts_a, cuts_b=(), cuts_blk=()):
                return {"kind": "t.sess", "tr": kind, "ct": [10], "rt": rt, "ex": [
                    {"op": "ask", "cmd": "A?", "reply": hx(a), "cuts": list(cuts_a)},
                    {"op": "ask", "cmd": "B?", "reply": hx(b), "cuts": list(cuts_b)},
                    {"op": "bin", "cmd": "C?", "reply": hx(blk), "cuts": list(cuts_blk)},
                    {"op": "ask", "cmd": "A?", "reply": hx(a), "cuts": list(cuts_a)}]}
            for k in range(1, len(sa)):
                yield sess([k])
            for k in range(1, len(sb)):
                yield sess([], [k])
            for k in range(1, len(sblk)):
                yield sess([], [], [k])
            yield sess(range(1, len(sa)), range(1, len(sb)), range(1, len(sblk)))
            pairs = list(itertools.combinations(range(1, len(sb)), 2))
            for k1, k2 in pairs if level >= 1 else pairs[::2]:
                yield sess([], [k1, k2])
            if level >= 1:
                for k1, k2 in itertools.combinations(range(1, len(sa)), 2):
                    yield sess([k1, k2])
    # message-based / single-byte-terminator transports: the real classes on the endpoints that exist
    # (block reads need byte-stream semantics of read(n); these two transports are message based, so `ask` only.  The
    # USBTMC endpoint delivers a message whole — its splitting into transfers is what the u.* cases are about.)
    yield {"kind": "t.sess", "tr": "usbtmc", "ct": [10], "rt": [10], "ex": [
        {"op": "ask", "cmd": "*IDN?", "reply": hx(b"QMI,fake,1"), "cuts": []},
        {"op": "ask", "cmd": "V?", "reply": hx(b"+1.5"), "cuts": []}]}
    # message based transport: one device message with the response terminator 0..3 times inside the payload and once at
    # the end (the real QMI_PyUsbTmcTransport.read_until ignores the terminator; the real read_raw gets EOM after the whole)
    for rt in ([10], [13, 10], [59, 13, 10]):
        brt = bytes(rt)
        for inner in range(0, 4):
            msg = brt.join([b"line%d" % i for i in range(inner + 1)])
            yield {"kind": "t.sess", "tr": "usbtmc", "ct": [10], "rt": rt, "ex": [
                {"op": "ask", "cmd": "LOG?", "reply": hx(msg), "cuts": []},
                {"op": "ask", "cmd": "V?", "reply": hx(brt * inner + b"+1.5"), "cuts": []},
                {"op": "ask", "cmd": "LOG?", "reply": hx(msg + brt[:1] * (len(brt) > 1)), "cuts": []}]}
    idn = b"QMI,fake\r,1"
    for k in range(0, len(idn) + 1):
        yield {"kind": "t.sess", "tr": "vxi11", "ct": [10], "rt": [10], "ex": [
            {"op": "ask", "cmd": "*IDN?", "reply": hx(idn), "cuts": [k] if k else []},
            {"op": "ask", "cmd": "V?", "reply": hx(b"+1.5"), "cuts": []},
            {"op": "ask", "cmd": "*IDN?", "reply": hx(idn), "cuts": list(range(1, k + 1))}]}


def gen_real(rng) -> dict:
    if rng.random() < 0.12:
        rt = rng.choice([[10], [13, 10], [59, 13, 10], [10, 10]])
        brt = bytes(rt)
        ex = []
        for _ in range(rng.randint(1, 4)):
            parts = [bytes(rng.choice(b"+-.0129Eab" + brt) & 0x7F for _ in range(rng.choice([0, 1, 4, 9])))
                     for _ in range(rng.choice([1, 1, 2, 3, 4]))]
            ex.append({"op": "ask", "cmd": rng.choice(["*IDN?", "LOG?"]), "reply": hx(brt.join(parts)), "cuts": []})
        return {"kind": "t.sess", "tr": "usbtmc", "ct": [10], "rt": rt, "ex": ex}
    kind = rng.choice(["tcp", "tcp", "udp", "serial"])
    rt = rng.choice([[10], [13, 10], [13, 10], [59, 13, 10], [13], [10, 10], [97, 98, 99]])
    brt = bytes(rt)
    ex = []
    for _ in range(rng.randint(1, 5)):
        if rng.random() < 0.7:
            n = rng.choice([0, 1, 2, 3, 5, 9, 20])
            r = bytes(rng.choice(b"+-.0123456789E" + brt * 2) & 0x7F for _ in range(n))
            while (r + brt).find(brt) != len(r):
                i = r.find(brt[:1])
                r = r[:i] + b"x" + r[i + 1:]
            op = {"op": "ask", "cmd": rng.choice(["*IDN?", "M?", "A:B 1;C?"]), "reply": hx(r)}
            total = len(r) + len(brt)
        else:
            n = rng.choice([0, 1, 2, 9, 10, 11, 30, 600])
            d = _bytes(rng, n, b"#\n\r0129\x00\xff" + brt)
            op = {"op": "bin", "cmd": "CURV?", "reply": hx(d)}
            if rng.random() < 0.3:
                op["digits"] = rng.randint(max(1, len(str(n))), 9)
            total = len(ref_block_encode(d, op.get("digits"))) + len(brt)
        m = rng.random()
        if m < 0.2:
            op["cuts"] = []
        elif m < 0.5:
            op["cuts"] = [max(1, total - rng.randint(0, len(brt) + 1))]          # in or next to the terminator
        elif m < 0.8:
            op["cuts"] = sorted({rng.randint(1, max(1, total - 1)) for _ in range(rng.randint(1, 3))})
        else:
            op["cuts"] = list(range(1, total)) if total < 40 else [511, 512, 513]
        ex.append(op)
    return {"kind": "t.sess", "tr": kind, "ct": rng.choice([[10], [13, 10]]), "rt": rt, "ex": ex}


def run_case(c: dict):
    if c["kind"] == "t.sess":
        return run_real(c)
    return run_scpi(c) if c["kind"].startswith("s.") else run_usb(c)


# ---------------------------------------------------------------------------
# generators
# ---------------------------------------------------------------------------

_SCPI_ALPHA = b"#\n\r0123456789;:*?AaBb \x00\x7f"
_TERMS = [[10], [10], [10], [13, 10], [13], [10, 10], [97, 98], [97, 97], [59, 10]]


def _bytes(rng, n, alpha=None, hi=0.0):
    if alpha is None:
        alpha = b"\x00\x01\x02\x0a\x0d\x23\x7f\x80\xfe\xff"
    out = bytearray()
    for _ in range(n):
        r = rng.random()
        if r < hi:
            out.append(rng.randrange(128, 256))
        elif r < 0.7:
            out.append(rng.choice(alpha))
        else:
            out.append(rng.randrange(256))
    return bytes(out)


def _ascii(rng, n, term=b""):
    pool = _SCPI_ALPHA + term * 3
    return bytes(rng.choice(pool) & 0x7F for _ in range(n))


def _cmd(rng):
    n = rng.choice([0, 1, 2, 5, 9, 14])
    s = [rng.choice(b"*IDN?:MEAS 012#;\n\rxyz") for _ in range(n)]
    if rng.random() < 0.04 and s:
        s[rng.randrange(len(s))] = rng.choice([128, 233, 255, 0x20AC, 0x1F600])
    return s


def _to(rng):
    return rng.choice([None, None, 0, 1, 3, 10])


def gen_scpi(rng, big: bool) -> dict:
    k = rng.random()
    ct = rng.choice(_TERMS + [[], [13]])
    rt = rng.choice(_TERMS)
    if rng.random() < 0.01:
        rt = rng.choice([[], [233], [10, 0x20AC]])
    if rng.random() < 0.01:
        ct = [200]
    base = {"ct": ct, "rt": rt, "dflt": _to(rng), "to": _to(rng)}
    brt = bytes(x for x in rt if x < 128)
    if k < 0.02:
        return {"kind": "s.init", **base}
    if k < 0.10:
        return {"kind": "s.write", **base, "cmd": _cmd(rng)}
    if k < 0.15:
        return {"kind": "s.writeraw", **base, "cmd": hx(_bytes(rng, rng.choice([0, 1, 4, 9])))}
    if k < 0.50:
        reply = _ascii(rng, rng.choice([0, 1, 2, 3, 6, 12, 30]), brt)
        if rng.random() < 0.05 and reply:
            i = rng.randrange(len(reply))
            reply = reply[:i] + bytes([rng.randrange(128, 256)]) + reply[i + 1:]
        shape = rng.random()
        if shape < 0.6:
            pending = reply + brt + (b"" if rng.random() < 0.6 else _ascii(rng, rng.randint(1, 6), brt))
        elif shape < 0.75:
            pending = reply + brt[:-1]             # terminator cut short
        elif shape < 0.9:
            pending = bytes(b for b in reply if b not in brt)   # no terminator at all
        else:
            pending = b""
        stale = b""
        if rng.random() < 0.2:
            stale = _ascii(rng, rng.randint(1, 5), brt)
        mode = rng.choice([0, 0, 1, 1, 2, 2])
        if mode == 2 and shape < 0.6:
            # one device message with the terminator 0, 1, 2, … times inside and once at the end
            parts = [_ascii(rng, rng.choice([0, 1, 3, 6])) for _ in range(rng.choice([1, 1, 2, 3, 4]))]
            pending = brt.join(parts) + brt
        return {"kind": "s.ask", **base, "cmd": _cmd(rng), "discard": int(rng.random() < 0.4),
                "sloppy": mode, "rx": hx(stale), "pending": hx(pending)}
    # binary blocks
    sizes = [0, 1, 2, 3, 8, 9, 10, 11, 12, 98, 99, 100, 101, 999, 1000, 1001]
    n = rng.choice(sizes) if rng.random() < 0.5 else rng.randint(0, 40)
    if big and rng.random() < 0.003:
        n = rng.choice([9999, 10000, 10001, 99999, 100000])
    d = _bytes(rng, n, b"#\n\r0123456789\x00\xff" + brt)
    digits = None if rng.random() < 0.7 else rng.randint(1, 9)
    blk = ref_block_encode(d, digits)
    flag = int(rng.random() < 0.85)
    stream = blk + (brt if (flag or rng.random() < 0.5) else b"") + \
        (b"" if rng.random() < 0.6 else _bytes(rng, rng.randint(1, 5), b"#1" + brt))
    m = rng.random()
    hdr_len = len(blk) - len(d)
    if m < 0.45:
        pass
    elif m < 0.75:
        # single-field corruption of the header / terminator
        f = rng.random()
        if f < 0.2:
            pos = 0
        elif f < 0.4:
            pos = 1
        elif f < 0.75:
            pos = rng.randrange(2, max(hdr_len, 3))
        else:
            pos = len(blk) + rng.randrange(max(len(brt), 1))
        if pos < len(stream):
            o = stream[pos]
            nb = rng.choice([rng.choice(b"#0123456789 -+_\n\ra\x00\xff"), o ^ (1 << rng.randrange(8)), (o + 1) % 256,
                             (o - 1) % 256, rng.randrange(256)])
            stream = stream[:pos] + bytes([nb]) + stream[pos + 1:]
    elif m < 0.9:
        stream = stream[:rng.randint(0, len(stream))]        # cut anywhere
    else:
        pos = rng.randint(0, min(len(stream), hdr_len + 1))   # one byte inserted / deleted in the header
        stream = stream[:pos] + (bytes([rng.choice(b"#01 9")]) if rng.random() < 0.5 else b"") + stream[pos + (rng.random() < 0.5):]
    return {"kind": "s.bin", **base, "flag": flag, "rx": hx(stream)}


_TAGS = [0, 1, 2, 127, 128, 253, 254, 255]


def _ctrl(rng):
    """status bytes the device gives to the abort / check-status control requests"""
    r = rng.random()
    if r < 0.3:
        return []
    return [rng.choice([1, 1, 2, 2, 0x80, 0x81, 0]) for _ in range(rng.randint(1, 5))]


def _last(rng):
    return rng.choice(_TAGS) if rng.random() < 0.7 else rng.randrange(256)


def _mts(rng):
    return rng.choice([1, 2, 3, 4, 5, 7, 8, 9, 12, 16, 31, 64])


def _payload_len(rng, mts):
    r = rng.random()
    if r < 0.25:
        return rng.choice([0, 1, 3, 4, 5])
    if r < 0.75:
        k = rng.choice([1, 1, 2, 3, 5])
        return max(0, k * mts + rng.choice([-1, 0, 1]))
    return rng.randint(0, 4 * mts + 3)


_USB_ALPHA = b"\x00\x01\x02\xfe\xfd\xff\x0a\x0c#"


def _chunks(rng, n, mts):
    """the device's split of an n-byte reply: a list of piece sizes (the last piece may be cut by the host's request)"""
    r = rng.random()
    if r < 0.3:
        return []                       # as much as the host asks for
    out, left = [], n
    while left > 0:
        k = rng.choice([1, 1, 2, 3, 4, 5, mts - 1, mts, mts + 1, left]) if r < 0.9 else rng.choice([0, 1, left])
        k = max(k, 0)
        out.append(k)
        left -= min(k, left, mts)
        if len(out) > 4 * n + 8:
            break
    return out


def _valid_script(rng, reply: bytes, tag0: int, mts: int):
    """transfers a conforming device would answer with (tags follow the host's requests)"""
    dev = RefDevice(reply, _chunks(rng, len(reply), mts), [_bytes(rng, rng.choice([0, 0, 1, 2, 3])) for _ in range(len(reply) + 2)])
    out, tag = [], tag0
    while dev.reply is not None and len(out) < len(reply) + 8:
        tag = tag % 255 + 1
        dev.request = (tag, mts, 0, 0)
        out.append(dev.bulk_in())
    return out


def _corrupt(rng, script, what):
    i = rng.randrange(len(script))
    t = bytearray(script[i])
    if what == "msgid":
        t[0] = rng.choice([0, 1, 3, 126, 127, 255])
    elif what == "btag":
        t[1] = rng.choice([0, (t[1] + 1) % 256, (t[1] - 1) % 256, 255 - t[1]])
    elif what == "btaginv":
        t[2] = rng.choice([t[1], (t[2] + 1) % 256, 0, 255])
    elif what == "reserved":
        t[rng.choice([3, 9, 10, 11])] = rng.choice([1, 255])
    elif what == "size":
        n = int.from_bytes(t[4:8], "little")
        n2 = rng.choice([0, max(n - 1, 0), n + 1, n + 3, n + 4, n + 256, 2 ** 32 - 1])
        t[4:8] = n2.to_bytes(4, "little")
    elif what == "eom":
        t[8] ^= 1
    elif what == "attr-high":
        t[8] ^= rng.choice([2, 4, 128])
    elif what == "truncated-header":
        t = t[:rng.randrange(12)]
    elif what == "drop":
        del script[i]
        return script
    elif what == "stale":
        # the answer to an earlier request (bTag of the request before ours) arrives first: late reply after a time-out
        first = script[0]
        prev = (first[1] - 2) % 255 + 1
        body = bytes(rng.choice(b"STALE\x00\xff") for _ in range(rng.choice([1, 2, 5])))
        script.insert(0, bytes([2, prev, prev ^ 0xFF, 0]) + len(body).to_bytes(4, "little") + bytes([1, 0, 0, 0]) + body)
        return script
    elif what == "ioerr":
        script[i] = IOERR
        return script
    script[i] = bytes(t)
    return script


_CORRUPTIONS = ["msgid", "btag", "btaginv", "reserved", "size", "eom", "attr-high", "truncated-header", "drop", "ioerr", "stale"]


def gen_usb(rng, big: bool) -> dict:
    k = rng.random()
    last = _last(rng)
    if k < 0.02:
        return {"kind": "u.consts"}
    if k < 0.05:
        return {"kind": "u.hdr", "last": last, "msgid": rng.choice([1, 2, 126, 127, 128, 0, 255])}
    if k < 0.09:
        return {"kind": "u.packout", "last": last, "eom": int(rng.random() < 0.5),
                "size": rng.choice([0, 1, 255, 256, 65535, 65536, 2 ** 24, 2 ** 32 - 1, 2 ** 32, 2 ** 33, rng.randrange(2 ** 32)])}
    if k < 0.13:
        return {"kind": "u.packin", "last": last, "tc": rng.choice([None, None, 0, 10, 255]),
                "size": rng.choice([0, 1, 255, 256, 65535, 65536, 2 ** 24, 2 ** 32 - 1, 2 ** 32, rng.randrange(2 ** 32)])}
    if k < 0.17:
        n = rng.choice([0, 1, 3, 4, 5, 8, 11, 12, 13, 16, 20])
        resp = bytearray(_bytes(rng, n, _USB_ALPHA))
        if n >= 8 and rng.random() < 0.8:
            resp[4:8] = rng.choice([0, 1, 3, 4, 5, n - 12 if n >= 12 else 0, 300]).to_bytes(4, "little")
        return {"kind": "u.unpack", "resp": hx(resp)}
    mts = _mts(rng)
    if k < 0.45:
        n = _payload_len(rng, mts)
        c = {"kind": "u.write", "last": last, "mts": mts, "data": hx(_bytes(rng, n, _USB_ALPHA))}
        r = rng.random()
        if r < 0.12:
            c["fault"] = [rng.randint(0, max(0, -(-n // mts))), int(rng.random() < 0.5)]
            c["ctrl"] = _ctrl(rng)
        elif r < 0.14:
            c["mts"] = 0
        elif r < 0.16 and big:
            c["mts"] = rng.choice([1024, 4096])
            c["data"] = hx(_bytes(rng, c["mts"] * rng.choice([1, 2, 3]) + rng.choice([-1, 0, 1]), _USB_ALPHA))
        return c
    if k < 0.452:
        t = rng.choice([0, 1, 2, 126, 127, 128, 255]) if rng.random() < 0.7 else rng.randrange(256)
        nt = t % 128 + 1
        nt = 2 if nt < 2 else nt
        b = [rng.choice([1, 1, 1, 2, 0x80]), rng.choice([nt, nt, nt, nt & 0x7F, nt + 1, 0]), rng.randrange(256)]
        intr = None if rng.random() < 0.5 else [rng.choice([nt + 128, nt + 128, (nt + 128) & 0xFF, nt, 0x80]) & 0xFF, rng.randrange(256)]
        return {"kind": "u.stb", "last": t, "b": b, "intr": intr}
    if k < 0.455:
        return {"kind": "u.clear", "force": int(rng.random() < 0.6), "ctrl": _ctrl(rng), "last": last}
    if k < 0.46:
        ops = []
        for _ in range(rng.randint(2, 7)):
            r = rng.random()
            if r < 0.45:
                n = _payload_len(rng, mts)
                op = {"op": "w", "data": hx(_bytes(rng, n, _USB_ALPHA))}
                if rng.random() < 0.3 and n:
                    op["fault"] = [rng.randint(0, max(0, -(-n // mts) - 1)), int(rng.random() < 0.7)]
                    op["ctrl"] = _ctrl(rng)
            elif r < 0.85:
                m = _payload_len(rng, mts)
                op = {"op": "r", "reply": hx(_bytes(rng, m, _USB_ALPHA)), "chunks": _chunks(rng, m, mts),
                      "pads": [hx(_bytes(rng, rng.choice([0, 0, 2]))) for _ in range(min(m, 6) + 2)],
                      "num": rng.choice([-1, -1, -1, max(m, 1), m + 1])}
                if rng.random() < 0.25:
                    op["late"] = 1
                    op["ctrl"] = _ctrl(rng)
            else:
                op = {"op": "t", "sup": int(rng.random() < 0.5)}
            ops.append(op)
        return {"kind": "u.session", "last": last, "mts": mts, "tc": rng.choice([None, None, 10]), "ops": ops}
    if k < 0.47:
        return {"kind": "u.trig", "sup": int(rng.random() < 0.6), "mts": mts, "last": last}
    if k < 0.53:
        n = _payload_len(rng, mts)
        m = _payload_len(rng, mts)
        c = {"kind": "u.ask", "last": last, "mts": mts, "tc": rng.choice([None, None, 10]), "num": rng.choice([-1, -1, -1, 1, m, m + 1]),
             "data": hx(_bytes(rng, n, _USB_ALPHA)), "reply": hx(_bytes(rng, m, _USB_ALPHA)), "chunks": _chunks(rng, m, mts),
             "pads": [hx(_bytes(rng, rng.choice([0, 0, 3]))) for _ in range(min(m, 8) + 2)]}
        r = rng.random()
        if r < 0.2:
            c["fault"] = [rng.randint(0, max(0, -(-n // mts))), int(rng.random() < 0.6)]
            c["ctrl"] = _ctrl(rng)
        elif r < 0.3:
            c["late"] = 1                       # the device does not answer: time-out and abort inside the read half
            c["ctrl"] = _ctrl(rng)
        if rng.random() < 0.25:
            c["adv"] = 1
            c["locked"] = int(rng.random() < 0.4)
        return c
    if k < 0.70:
        # conforming device, every kind of split
        n = _payload_len(rng, mts)
        reply = _bytes(rng, n, _USB_ALPHA)
        num = -1
        r = rng.random()
        if r < 0.35:
            num = rng.choice([1, 2, max(n - 1, 1), max(n, 1), n + 1, mts, mts + 1, max(mts - 1, 1), 0])
        return {"kind": "u.read", "last": last, "mts": mts, "tc": rng.choice([None, None, None, 10, 0]), "num": num,
                "reply": hx(reply), "chunks": _chunks(rng, n, mts),
                "pads": [hx(_bytes(rng, rng.choice([0, 0, 1, 2, 3]))) for _ in range(min(n, 12) + 2)]}
    if k < 0.92:
        # scripted: a valid conversation with one field of one transfer corrupted; or quirk modes
        n = rng.choice([1, 2, 3, 4, 5, 8, 9, 13])
        reply = _bytes(rng, n, _USB_ALPHA)
        script = _valid_script(rng, reply, last, mts)
        c = {"kind": "u.read", "last": last, "mts": mts, "tc": None, "num": -1, "payload": hx(reply)}
        r = rng.random()
        if r < 0.7:
            what = rng.choice(_CORRUPTIONS)
            script = _corrupt(rng, script, what)
            c["corrupt"] = what
        elif r < 0.8:
            c["rigol"] = 1
            k = rng.random()
            if k < 0.75:
                # RIGOL style reference device: the header (TransferSize = size of the whole message) only in the first
                # packet, the rest raw; the last packet may carry trailing bytes
                ieee = rng.random() < 0.5
                need = 1
                total = reply
                hdr_size = len(total)
                if ieee:
                    c["ieee"] = 1
                    blk = ref_block_encode(reply, None if rng.random() < 0.7 else rng.randint(1, 9))
                    total = blk + rng.choice([b"", b"\n"])
                    hdr_size = rng.choice([len(total), len(total), len(total) + 7, 1000])   # "the header is lying"
                    want = blk
                    need = len(blk) - len(reply)      # the quirk reads the block header from the first packet only
                    m = rng.random()
                    if m < 0.35:        # malformed / odd block headers: what int() accepts and what it does not
                        pos = rng.randrange(1, min(len(blk), 5))
                        total = total[:pos] + bytes([rng.choice(b" +-_x\t0129#\x00")]) + total[pos + 1:]
                        want = None
                    elif m < 0.45:
                        total = total[:rng.randint(1, 2)]
                        hdr_size = len(total)
                        want = None
                else:
                    want = total
                    if rng.random() < 0.3:
                        c["ieee"] = 1           # flag on, but the data need not start with '#'
                        if total[:1] == b"#":
                            want = None
                first = script[0][:12]
                first = first[:4] + hdr_size.to_bytes(4, "little") + first[8:]
                cut = rng.randint(1, len(total)) if rng.random() < 0.9 else 0
                script = [first + total[:cut]]
                rest = total[cut:]
                while rest:
                    j = rng.randint(1, len(rest))
                    script.append(rest[:j])
                    rest = rest[j:]
                if cut and rng.random() < 0.5:
                    script[-1] = script[-1] + b"\0" * rng.choice([1, 3])
                if want is not None and cut >= need and (len(script) > 1 or hdr_size >= cut):
                    c["rig_expect"] = hx(want)
        elif r < 0.88:
            c["adv"] = 1
        if rng.random() < 0.2:
            c["num"] = rng.choice([1, 2, n - 1, n, n + 1, mts, mts + 1])
        if rng.random() < 0.15:
            script.insert(rng.randint(0, len(script)), TIMEOUT)      # the device is late once; what follows is still queued
            c["corrupt"] = (c.get("corrupt", "") + "+late").lstrip("+")
            c.pop("rig_expect", None)
        if rng.random() < 0.3:
            c["ctrl"] = _ctrl(rng)
        c["script"] = [t if t in (IOERR, TIMEOUT) else hxi(t) for t in script]
        if rng.random() < 0.15:
            return {"kind": "u.host", "script": [t for t in c["script"]], "chk": int(rng.random() < 0.5), "last": last}
        return c
    # the two device decoders (model's and the Python reference) on host output, valid and mutated
    n = _payload_len(rng, mts) or 1
    data = _bytes(rng, n, _USB_ALPHA)
    inst, _ = _mk_inst(last, mts)
    inst.bulk_out_ep = ep = FakeOut(None)
    try:
        inst.write_raw(data)
    except BaseException:  # noqa
        pass
    _drop(inst)
    transfers = list(ep.writes)
    prev = rng.choice([None, last, last % 255 + 1])
    if transfers and rng.random() < 0.6:
        i = rng.randrange(len(transfers))
        t = bytearray(transfers[i])
        m = rng.random()
        if m < 0.5 and t:
            t[rng.randrange(min(len(t), 12))] = rng.choice([0, 1, 2, 255, 254])
        elif m < 0.7:
            t = t[:-1] if rng.random() < 0.5 else t + b"\0"
        elif m < 0.85:
            t = t + b"\0\0\0\0"
        else:
            t = t[:rng.randrange(len(t) + 1)]
        transfers[i] = bytes(t)
    return {"kind": "u.dev", "prev": prev, "transfers": [hxi(t) for t in transfers]}


# ---------------------------------------------------------------------------
# the check
# ---------------------------------------------------------------------------

def _input_class(c: dict) -> str:
    k = c["kind"]
    if k == "t.sess":
        return f"{c['tr']}:term{len(c['rt'])}"
    if k == "u.write":
        n, mts = len(unhx(c["data"])), c["mts"]
        if c.get("fault"):
            return "fault"
        if mts == 0:
            return "mts0"
        return "empty" if n == 0 else ("single" if n <= mts else "multi")
    if k == "u.read":
        if "script" in c:
            return c.get("corrupt") or (("rigol-ieee" if c.get("ieee") else "rigol") if c.get("rigol") else "adv" if c.get("adv") else "scripted")
        return "num" if c.get("num", -1) > 0 else "all"
    if k == "s.bin":
        return "flag" if c.get("flag", 1) else "noflag"
    return "-"


def _signature(c: dict, clause: str) -> str:
    if clause.startswith("bulk-in-header-mismatch-accepted"):
        return f"{c['kind']}:{clause}"          # one signature per unchecked header field, whatever produced the mismatch
    return f"{c['kind']}:{clause}:{_input_class(c)}"


def _shrink(c: dict, clause: str) -> dict:
    """greedy: shorten the byte-string fields while the same oracle clause keeps failing"""
    def bad(x):
        try:
            return run_case(x)[2] == clause
        except BaseException:  # noqa
            return False
    cur = dict(c)
    if cur["kind"] == "t.sess":
        changed = True
        while changed:
            changed = False
            for i in range(len(cur["ex"])):
                trial = {**cur, "ex": cur["ex"][:i] + cur["ex"][i + 1:]}
                if trial["ex"] and bad(trial):
                    cur, changed = trial, True
                    break
            else:
                for i, ex in enumerate(cur["ex"]):
                    for j in range(len(ex.get("cuts", []))):
                        ex2 = {**ex, "cuts": ex["cuts"][:j] + ex["cuts"][j + 1:]}
                        trial = {**cur, "ex": cur["ex"][:i] + [ex2] + cur["ex"][i + 1:]}
                        if bad(trial):
                            cur, changed = trial, True
                            break
                    if changed:
                        break
        return cur
    for key in ("data", "reply", "pending", "rx", "cmd"):
        if key not in cur:
            continue
        changed = True
        while changed:
            changed = False
            v = cur[key]
            seq = v if isinstance(v, list) else unhx(v)
            for cand in (seq[:len(seq) // 2], seq[len(seq) // 2:], seq[1:], seq[:-1]):
                if len(cand) >= len(seq):
                    continue
                trial = dict(cur)
                trial[key] = list(cand) if isinstance(v, list) else hx(cand)
                if bad(trial):
                    cur, changed = trial, True
                    break
    if cur.get("chunks") and bad({**cur, "chunks": []}):
        cur = {**cur, "chunks": []}
    if cur.get("pads") and bad({**cur, "pads": []}):
        cur = {**cur, "pads": []}
    return cur


def _failure(c: dict, clause: str) -> Failure:
    small = _shrink(c, clause)
    line, out, _, info = run_case(small)
    if info.get("desc"):
        line, out = info["desc"], clause
    return Failure(signature=_signature(small, clause),
                   summary=f"{clause}: `{str(line)[:300]}` -> `{str(out)[:300]}`",
                   replay={"case": small, "clause": clause})


class C15A(Prop):
    id = "C15A"
    lean_modules = ["QmiModel.Props.C15"]
    props_files = ["QmiModel/Props/C15.lean"]
    driver = "drv_c15"
    modelled_not_verified = [
        "SCPI: the transport below ScpiProtocol is the QMI_Transport *contract* (read = exactly n bytes or time-out, "
        "read_until = up to the first terminator or time-out); the concrete transports are property C13",
        "SCPI: str.encode('ascii') / bytes.decode('ascii') / bytes.isdigit / int(bytes) (model: encodeAscii, decodeAscii, "
        "allDigits, parseDec; differentially checked here)",
        "USBTMC: struct.pack/unpack_from layouts 'BBBx', '<LBxxx', '<LBBxx' (model: bulkOutHeader, le32, unpackResp) and CPython's "
        "int(bytes) as used by the RIGOL IEEE-block sub-quirk (model: pyIntBytes) — differentially checked; the usb endpoints "
        "and the usb device are fakes (Bulk-IN outcomes and control status bytes are scripted)",
        "USBTMC: open()/close()/get_capabilities()/vendor initialisation are not modelled; the Advantest lock()/unlock() "
        "control requests around ask_raw are checked by the oracle only (paired, also on failure)",
    ]

    # -- one batch: run cases on the implementation, oracle, then the model on the same lines ------------
    def _batch(self, ctx: Ctx, cases, res: Result, name: str):
        lines, outs, kept = [], [], []
        fail_count: dict[str, int] = {}
        for c in cases:
            try:
                line, out, clause, info = run_case(c)
            except BaseException as e:  # noqa  (a harness crash is a broken link, not a verdict)
                res.broken.append(Broken("correspondence", f"C15A.harness[{c.get('kind')}]",
                                         f"{type(e).__name__}: {e}", case=c))
                continue
            if isinstance(line, list):
                lines += line
                outs += out
                kept += [c] * len(line)
            else:
                lines.append(line)
                outs.append(out)
                kept.append(c)
            res.note_case(line if line else repr(c), nontrivial=info.get("nontrivial", True))
            res.count("kind_" + c["kind"])
            res.count(f"class_{c['kind']}_{_input_class(c)}")
            if "class" in info:
                res.count(f"ref_{c['kind']}_{info['class']}")
            if "inner_terminators" in info:
                res.count(f"message_transport_reply_with_{info['inner_terminators']}_inner_terminators")
            for o in (out if isinstance(out, list) else [out]):
                res.count("outcome_" + o.split(" ", 1)[0].split(":", 1)[0])
            if info.get("ntransfers", 0) > 1:
                res.count("multi_transfer_cases")
            if info.get("wrong_data"):
                res.count("usbtmc_header_mismatch_accepted_and_result_differs_from_what_the_device_sent")
            if len(res.samples) < 8 and c["kind"] in ("u.write", "u.read", "s.bin", "s.ask") and ctx.rng.random() < 0.01:
                res.sample({"line": str(line)[:240], "impl": str(out)[:240]})
            if clause:
                sig0 = _signature(c, clause)
                fail_count[sig0] = fail_count.get(sig0, 0) + 1
                if fail_count[sig0] <= 1:
                    res.failures.append(_failure(c, clause))
        if not lines:
            return
        model = LeanDriver(self.driver).run(lines)
        res.traces_validated += len(lines)
        nbroken = 0
        for i, (a, b) in enumerate(zip(outs, model)):
            if a != b:
                nbroken += 1
                if nbroken <= 5:
                    res.broken.append(Broken("correspondence", f"{name}:{kept[i]['kind']}",
                                             f"op={lines[i][:400]!r} impl={a[:400]!r} model={b[:400]!r}", case=kept[i]))
        if nbroken:
            res.count("model_impl_disagreements", nbroken)

    def correspondence(self, ctx: Ctx) -> Result:
        res = Result(rule="case = one call of the real ScpiProtocol / usbtmc.Instrument with all state explicit (terminators, "
                          "buffered and pending bytes, last_btag, max_transfer_size, device split of the reply, single-field "
                          "corruption), generated from the seeded PRNG with lengths at 0,1,3,4,5,k*max-1,k*max,k*max+1, tags at "
                          "253..255/0..2, block sizes at the digit-count boundaries; non-trivial = carries a non-empty payload / "
                          "reply; distinct by the canonical op line")
        big = not ctx.quick
        n_scpi = ctx.scale(80000, 700000)
        n_usb = ctx.scale(100000, 900000)
        self._batch(ctx, list(_systematic(ctx.scale(0, 1))), res, "systematic")       # the fixed corpus, first on every seed
        self._batch(ctx, list(_real_sessions(ctx.scale(0, 1))), res, "real-transport-sessions")
        self._batch(ctx, [gen_real(ctx.rng) for _ in range(ctx.scale(3000, 40000))], res, "real-transport-random")
        self._batch(ctx, [gen_scpi(ctx.rng, big) for _ in range(n_scpi)], res, "Scpi")
        self._batch(ctx, [gen_usb(ctx.rng, big) for _ in range(n_usb)], res, "Usbtmc")
        res.assumptions.append("ScpiProtocol is given a transport that honours the QMI_Transport contract (C13); "
                               "non-empty response terminator")
        res.assumptions.append("USBTMC: a reply whose MsgID/bTag/bTagInverse do not match the request still carries its payload "
                               "intact and is accepted by read_raw (no check in the code; not demanded by the statement of C15)")
        return res

    def search(self, ctx: Ctx, broken) -> Result:
        res = Result()
        seen = set()
        for b in broken:
            if b.case and "kind" in b.case:
                c = b.case
                try:
                    clause = run_case(c)[2]
                except BaseException:  # noqa
                    clause = None
                res.note_case(("case", repr(c)))
                if clause:
                    f = _failure(c, clause)
                    if f.signature not in seen:
                        seen.add(f.signature)
                        res.failures.append(f)
        for c in itertools.chain(_real_sessions(1), _systematic(2)):
            try:
                clause = run_case(c)[2]
            except BaseException:  # noqa
                continue
            res.note_case(repr(c))
            if clause:
                sig = _signature(c, clause)
                if sig not in seen:
                    seen.add(sig)
                    res.failures.append(_failure(c, clause))
                    if len(res.failures) >= 6:
                        break
        return res

    def replay(self, ctx: Ctx, rp: dict):
        c = rp["case"]
        line, out, clause, info = run_case(c)
        if info.get("desc"):
            line, out = info["desc"], clause
        if clause:
            return Failure(_signature(c, clause), f"{clause}: `{str(line)[:300]}` -> `{str(out)[:300]}`", rp)
        return None


def _compositions(n):
    """all ways to write n as an ordered sum of positive integers"""
    if n == 0:
        yield []
        return
    for first in range(1, n + 1):
        for rest in _compositions(n - first):
            yield [first] + rest


def _systematic(level: int):
    """exhaustive small cases: level 0 = part of every quick run, 1 = thorough, 2 = failing-input search"""
    # USBTMC write: every length around every multiple of every small max_transfer_size, tags across the wrap
    mts_set = [1, 2, 3, 4, 5, 8] if level == 0 else list(range(1, 10)) + [16]
    for mts in mts_set:
        for n in range(0, 3 * mts + 3):
            for last in ([0, 254, 255] if level == 0 else [0, 1, 127, 253, 254, 255]):
                yield {"kind": "u.write", "last": last, "mts": mts, "data": hx(bytes((7 * i + n) % 256 for i in range(n)))}
    for last in range(256):
        yield {"kind": "u.hdr", "last": last, "msgid": 1}
        yield {"kind": "u.packin", "last": last, "size": 5, "tc": None}
    # USBTMC read: every split of a reply into transfers (all compositions), every pad length
    for n in range(0, 6 if level == 0 else 9):
        reply = bytes((250 + i) % 256 for i in range(n))
        for comp in _compositions(n):
            for mts in ([2, n + 1] if level == 0 else [1, 2, 3, n, n + 1]):
                if mts < 1:
                    continue
                for padlen in ([0, 3] if level == 0 else [0, 1, 2, 3]):
                    yield {"kind": "u.read", "last": 254, "mts": mts, "tc": None, "num": -1, "reply": hx(reply),
                           "chunks": comp, "pads": [hx(b"\xaa" * padlen)] * (n + 1)}
    for n in (3, 5):
        reply = bytes(range(1, n + 1))
        for num in range(0, n + 3):
            for comp in _compositions(n):
                yield {"kind": "u.read", "last": 0, "mts": 4, "tc": None, "num": num, "reply": hx(reply), "chunks": comp, "pads": []}
    # single-byte corruption of every header byte of a two-transfer reply
    import random
    rng = random.Random(5)
    base = _valid_script(random.Random(1), b"\x01\x02\x03\x04\x05", 7, 3)
    for i in range(len(base)):
        for pos in range(12):
            for val in (0, 1, 2, 255, base[i][pos] ^ 1, base[i][pos] ^ 0x80):
                if val == base[i][pos]:
                    continue
                sc = list(base)
                t = bytearray(sc[i])
                t[pos] = val
                sc[i] = bytes(t)
                cls = ["msgid", "btag", "btaginv", "reserved", "size", "size", "size", "size", "eom", "reserved", "reserved", "reserved"][pos]
                yield {"kind": "u.read", "last": 7, "mts": 3, "tc": None, "num": -1, "payload": hx(b"\x01\x02\x03\x04\x05"),
                       "corrupt": cls, "script": [hxi(x) for x in sc]}
        for cut in range(12):
            sc = list(base)
            sc[i] = sc[i][:cut]
            yield {"kind": "u.read", "last": 7, "mts": 3, "tc": None, "num": -1, "payload": hx(b"\x01\x02\x03\x04\x05"),
                   "corrupt": "truncated-header", "script": [hxi(x) for x in sc]}
    # RIGOL IEEE-block sub-quirk: what int() accepts, what it rejects, headers that lie, split after the block header
    for body in (b"#15hello", b"#205hello", b"#2 5hello", b"#25 hello", b"#2+5hello", b"#2-1abcd", b"#41_00" + b"x" * 12,
                 b"#3_10abc", b"#31_abc", b"#41__0abc", b"#0", b"#", b"#a", b"#9", b"#1", b"#15", b"x15hello", b"#2\t5hello",
                 b"#3-00abc", b"#2-9ab", b"#3\x0b12abcdefghijklmn", b"#15hello\n", b"#1\xb2ab", b"#12ab#12cd"):
        for hdr in (len(body), 20, 3):
            first = bytes([2, 10, 245, 0]) + hdr.to_bytes(4, "little") + bytes([1, 0, 0, 0])
            for cut in sorted({len(body), min(len(body), 5), min(len(body), 2)}):
                sc = [first + body[:cut]] + ([body[cut:] + b"\0\0"] if cut < len(body) else [])
                for ieee in (1, 0):
                    yield {"kind": "u.read", "last": 9, "mts": 64, "tc": None, "num": -1, "rigol": 1, "ieee": ieee,
                           "script": [hxi(x) for x in sc]}
    # abort sequences: every script of control statuses up to length 3 (+ a run of PENDING), write fault and late device
    sts = [1, 2, 0x81, 0x80]
    scripts = [[]] + [[a] for a in sts] + [[a, b] for a in sts for b in sts] + [[1, 2, 2, 2, x] for x in sts] + \
        [[1, a, b] for a in sts for b in sts]
    ok_t = bytes([2, 8, 247, 0, 1, 0, 0, 0, 1, 0, 0, 0, 65])
    for ctrl in scripts:
        yield {"kind": "u.write", "last": 6, "mts": 2, "fault": [1, 1], "ctrl": ctrl, "data": "0102030405"}
        yield {"kind": "u.write", "last": 6, "mts": 2, "fault": [0, 0], "ctrl": ctrl, "data": "0102030405"}
        for sc in ([TIMEOUT], [TIMEOUT, hxi(ok_t)], [TIMEOUT, IOERR], [TIMEOUT, TIMEOUT, hxi(ok_t)], []):
            yield {"kind": "u.read", "last": 6, "mts": 8, "tc": None, "num": -1, "ctrl": ctrl, "script": sc}
        yield {"kind": "u.clear", "force": 1, "ctrl": ctrl}
        yield {"kind": "u.clear", "force": 0, "ctrl": ctrl}
    # the two tag cycles over their whole range; trigger in both flavours; ask_raw
    for last in range(256):
        yield {"kind": "u.trig", "sup": 1, "mts": 8, "last": last}
        yield {"kind": "u.stb", "last": last, "b": [1, max(2, last % 128 + 1), 0x55], "intr": None}
        yield {"kind": "u.stb", "last": last, "b": [1, max(2, last % 128 + 1), 0], "intr": [(max(2, last % 128 + 1) + 128) & 0xFF, 0x42]}
    for last in (0, 253, 254, 255):
        yield {"kind": "u.trig", "sup": 0, "mts": 3, "last": last}
        for n, m in ((1, 1), (3, 4), (4, 3), (7, 9)):
            yield {"kind": "u.ask", "last": last, "mts": 3, "tc": None, "num": -1, "data": hx(bytes(range(1, n + 1))),
                   "reply": hx(bytes(range(100, 100 + m))), "chunks": [2, 1], "pads": ["00", "", "aabb"]}
        for extra in ({"fault": [0, 1], "ctrl": [1, 1]}, {"late": 1, "ctrl": [1]}, {}):
            for locked in (0, 1):
                yield {"kind": "u.ask", "last": last, "mts": 3, "tc": None, "num": -1, "data": "0102", "reply": "0a0b", "chunks": [],
                       "pads": [], "adv": 1, "locked": locked, **extra}
        # one object across calls: write, faulted write + abort, trigger, late read + abort, read, write
        yield {"kind": "u.session", "last": last, "mts": 2, "tc": None, "ops": [
            {"op": "w", "data": "010203"}, {"op": "w", "data": "0405060708", "fault": [1, 1], "ctrl": [1, 2, 1]},
            {"op": "t", "sup": 1}, {"op": "r", "reply": "aabbcc", "late": 1, "ctrl": [1]},
            {"op": "r", "reply": "aabbcc", "chunks": [1, 2], "pads": ["", "00"], "num": -1},
            {"op": "w", "data": "09"}, {"op": "w", "data": "09"}, {"op": "t", "sup": 0},
            {"op": "r", "reply": "ddeeff0011", "chunks": [], "pads": [], "num": 2},
            {"op": "r", "reply": "0011", "chunks": [], "pads": [], "num": -1}]}
    # stale / lost reply transfers (header integrity)
    good = _valid_script(random.Random(3), b"\x10\x20\x30\x40\x50\x60\x70", 5, 3)
    for i in range(len(good)):
        yield {"kind": "u.read", "last": 5, "mts": 3, "tc": None, "num": -1, "payload": "10203040506070", "corrupt": "drop",
               "script": [hxi(x) for j, x in enumerate(good) if j != i]}
        yield {"kind": "u.read", "last": 5, "mts": 3, "tc": None, "num": -1, "payload": "10203040506070", "corrupt": "dup",
               "script": [hxi(x) for x in good[:i + 1] + good[i:]]}
    yield {"kind": "u.read", "last": 5, "mts": 64, "tc": None, "num": -1, "payload": "4f4b", "corrupt": "stale",
           "script": ["0205fa00050000000100000053" + "54414c45", "0206f900020000000100000" + "04f4b"]}
    # SCPI blocks: every length across the digit-count boundaries, canonical and zero-padded headers
    lens = list(range(0, 13)) + [99, 100, 101, 999, 1000, 1001]
    if level >= 1:
        lens += [9999, 10000, 99999, 100000]
    for n in lens:
        d = bytes((i * 11 + 35) % 256 for i in range(n))
        for digits in (None, 4, 9):
            for rt in ([10], [13, 10]):
                for flag in (1, 0):
                    blk = ref_block_encode(d, digits)
                    yield {"kind": "s.bin", "rt": rt, "flag": flag, "rx": hx(blk + bytes(rt) + b"#11")}
    # every single-byte corruption (all 256 values) of each header byte and of the terminator of a small block,
    # every truncation
    blk = ref_block_encode(b"ab#\n1234567", None) + b"\n"
    for pos in list(range(0, 4)) + [len(blk) - 1]:
        for val in range(256):
            if val != blk[pos]:
                yield {"kind": "s.bin", "rt": [10], "flag": 1, "rx": hx(blk[:pos] + bytes([val]) + blk[pos + 1:])}
    # large transfers: TransferSize beyond 16 and 24 bits, the default max_transfer_size boundary
    M = 1024 * 1024
    big = [(M, 70000), (65536, 65537), (M, M + 1)]
    if level >= 1:
        big += [(M, M - 1), (M, M), (M, 2 * M + 1), (16777216 + 4, 16777216 + 5)]
    for mts, n in big:
        data = bytes((i * 7 + (i >> 8)) % 256 for i in range(n))
        yield {"kind": "u.write", "last": 254, "mts": mts, "data": hx(data)}
        yield {"kind": "u.read", "last": 254, "mts": mts, "tc": None, "num": -1, "reply": hx(data), "chunks": [], "pads": []}
    for n in ([100000] if level == 0 else [100000, 999999, 1000000]):
        d = bytes((i * 13 + 7) % 256 for i in range(n))
        yield {"kind": "s.bin", "rt": [10], "flag": 1, "rx": hx(ref_block_encode(d) + b"\n#10")}
    for cut in range(len(blk)):
        yield {"kind": "s.bin", "rt": [10], "flag": 1, "rx": hx(blk[:cut])}
    # message based transport on the recording fake: terminator 0..3 times inside the message, final terminator present/absent
    for rt in ([10], [13, 10], [59, 13, 10]):
        brt = bytes(rt)
        for inner in range(0, 4):
            msg = brt.join([b"L%d" % i for i in range(inner + 1)])
            for tail in (brt, b"", brt[:-1], brt + brt):
                yield {"kind": "s.ask", "rt": rt, "cmd": [76, 63], "discard": 0, "sloppy": 2, "rx": "-", "pending": hx(msg + tail)}
    # ask: every position of the terminator / missing terminator, sloppy and strict transport
    for rt in ([10], [13, 10], [97, 97]):
        brt = bytes(rt)
        for reply in (b"", b"a", b"1.5", b"a\rb", b"xa"):
            for tail in (brt, brt[:-1], b"", brt + b"next" + brt):
                for sloppy in (0, 1, 2):
                    for discard, stale in ((0, b""), (0, b"old" + brt), (1, b"old" + brt), (1, b"junk")):
                        yield {"kind": "s.ask", "rt": rt, "cmd": [42, 73, 68, 78, 63], "discard": discard, "sloppy": sloppy,
                               "rx": hx(stale), "pending": hx(reply + tail), "to": rng.choice([None, 2]), "dflt": rng.choice([None, 5])}


PROP = C15A()
