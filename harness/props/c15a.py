"""C15 part A — SCPI command/response + definite-length blocks, USBTMC bulk message framing.

Model: lean/QmiModel/Model/Scpi.lean, Model/Usbtmc.lean; theorems: Props/C15.lean; driver: drv_c15.

Tie: every case runs the *real* `ScpiProtocol` (on a recording fake transport that implements the
`QMI_Transport` contract) or the *real* `usbtmc.Instrument.write_raw/read_raw/pack_*/unpack_*` (on fake
bulk endpoints), writes what it did as one canonical line, and the same line is evaluated by the Lean model.

Oracle: the devices on the other side are **independent reference implementations written from the
protocol documents** (IEEE 488.2 §7.7.6/§8.7.9 for `#<k><len><data>`, SCPI-99 message terminators,
USBTMC 1.0 §3.2/§3.3 Tables 1–9), not from QMI:
  * the reference device must decode from QMI's output exactly the payload the driver asked to send and
    must not see a single protocol violation (alignment, EOM placement, bTag range/sequence/inverse, sizes);
  * the driver must receive exactly what the reference device sent, for every way the device splits a reply;
  * a reply the reference decoder calls malformed / incomplete must raise, never return data.
"""
from __future__ import annotations

import array
import itertools

from harness.core import Broken, Ctx, Failure, LeanDriver, Prop, Result, diff_streams


class _Budget(BaseException):
    """raised by a fake when the code under test performs more I/O than any terminating run could"""


# ---------------------------------------------------------------------------
# canonical text
# ---------------------------------------------------------------------------

def hx(b) -> str:
    b = bytes(b)
    return b.hex() if b else "-"


def hxi(b) -> str:
    b = bytes(b)
    return b.hex() if b else "z"


def items(l) -> str:
    return ",".join(hxi(x) for x in l) if l else "-"


def nats(l) -> str:
    return ",".join(str(x) for x in l) if l else "-"


def cps(s: str) -> str:
    return ",".join(str(ord(c)) for c in s) if s else "-"


def on(x) -> str:
    return "-" if x is None else str(x)


def unhx(s: str) -> bytes:
    return b"" if s in ("-", "z") else bytes.fromhex(s)


def exc_name(e: BaseException) -> str:
    import struct
    import usb.core
    if isinstance(e, _Budget):
        return "hang"
    if isinstance(e, usb.core.USBError):
        return f"exc:USBError:{e.errno}"
    if isinstance(e, struct.error):
        return "exc:struct.error"
    return f"exc:{type(e).__name__}"


# ---------------------------------------------------------------------------
# SCPI: recording transport (QMI_Transport contract) and reference device
# ---------------------------------------------------------------------------

_TR_CLS = None


def _transport_cls():
    global _TR_CLS
    if _TR_CLS is not None:
        return _TR_CLS
    from qmi.core.transport import QMI_Transport
    from qmi.core.exceptions import QMI_TimeoutException

    class RecTransport(QMI_Transport):
        def __init__(self, rx: bytes, pending: bytes, sloppy: bool, budget: int = 40):
            super().__init__()
            self._is_open = True
            self.rx = bytearray(rx)          # already received, not consumed
            self.pending = bytes(pending)    # what the device sends once it sees the next command
            self.sloppy = sloppy
            self.log: list[str] = []
            self.tx = bytearray()
            self.budget = budget

        def _tick(self):
            self.budget -= 1
            if self.budget < 0:
                raise _Budget()

        def write(self, data):
            self._tick()
            data = bytes(data)
            self.log.append("w:" + hx(data))
            self.tx += data
            self.rx += self.pending
            self.pending = b""

        def read(self, nbytes, timeout=None):
            self._tick()
            self.log.append(f"r:{nbytes}:{on(timeout)}")
            if nbytes <= len(self.rx):
                out = bytes(self.rx[:nbytes])
                del self.rx[:nbytes]
                return out
            raise QMI_TimeoutException("fake transport: not enough bytes")

        def read_until(self, message_terminator, timeout=None):
            self._tick()
            term = bytes(message_terminator)
            self.log.append(f"u:{hx(term)}:{on(timeout)}")
            i = self.rx.find(term)
            if i >= 0:
                out = bytes(self.rx[:i + len(term)])
                del self.rx[:i + len(term)]
                return out
            if self.sloppy and self.rx:
                out = bytes(self.rx)
                self.rx.clear()
                return out
            raise QMI_TimeoutException("fake transport: no terminator")

        def discard_read(self):
            self._tick()
            self.log.append("d")
            self.rx.clear()

        def showlog(self) -> str:
            return ";".join(self.log) if self.log else "-"

    _TR_CLS = RecTransport
    return RecTransport


# --- reference device side, from the standards (independent of QMI) ----------

def ref_split_program_messages(stream: bytes, term: bytes):
    """Device input: program messages are delimited by the program message terminator."""
    msgs = []
    if not term:
        return msgs, stream
    while True:
        i = stream.find(term)
        if i < 0:
            return msgs, stream
        msgs.append(stream[:i])
        stream = stream[i + len(term):]


def ref_first_response(stream: bytes, term: bytes):
    """Controller input: a response message ends at the first response message terminator."""
    i = stream.find(term)
    if i < 0:
        return None
    return stream[:i], stream[i + len(term):]


def ref_block_encode(d: bytes, digits=None) -> bytes:
    """IEEE 488.2 8.7.9 <DEFINITE LENGTH ARBITRARY BLOCK RESPONSE DATA>: '#' <nonzero digit> <digits> <data>."""
    n = str(len(d))
    if digits is not None and digits > len(n):
        n = "0" * (digits - len(n)) + n
    assert 1 <= len(n) <= 9
    return b"#" + str(len(n)).encode() + n.encode() + d


def ref_block_decode(stream: bytes, term: bytes, want_term: bool):
    """-> ('ok', data, rest) | ('malformed', why) | ('incomplete', why).  '#0' (indefinite) counts as malformed here:
    it is not a definite-length block."""
    D = b"0123456789"
    if len(stream) >= 1 and stream[0:1] != b"#":
        return ("malformed", "no-hash")
    if len(stream) < 2:
        return ("incomplete", "header")
    if stream[1] not in D:
        return ("malformed", "digit-count")
    k = stream[1] - 48
    if k == 0:
        return ("malformed", "indefinite")
    ld = stream[2:2 + k]
    if any(c not in D for c in ld):
        return ("malformed", "length-field")
    if len(ld) < k:
        return ("incomplete", "length-field")
    n = 0
    for c in ld:
        n = n * 10 + (c - 48)
    body = stream[2 + k:2 + k + n]
    if len(body) < n:
        return ("incomplete", "data")
    rest = stream[2 + k + n:]
    if want_term:
        t = rest[:len(term)]
        if t != term[:len(t)]:
            return ("malformed", "terminator")
        if len(t) < len(term):
            return ("incomplete", "terminator")
        rest = rest[len(term):]
    return ("ok", body, rest)


def _str_of(cp_list) -> str:
    return "".join(chr(c) for c in cp_list)


def run_scpi(c: dict):
    """Run one SCPI case on the real ScpiProtocol.  -> (line, impl_out, clause, info)"""
    from qmi.core.scpi_protocol import ScpiProtocol
    T = _transport_cls()
    kind = c["kind"]
    ct, rt = _str_of(c.get("ct", [10])), _str_of(c.get("rt", [10]))
    dflt, to = c.get("dflt"), c.get("to")
    info = {}
    if kind == "s.init":
        line = f"s.init {cps(ct)} {cps(rt)}"
        try:
            ScpiProtocol(T(b"", b"", False), ct, rt)
            out = "ok"
        except BaseException as e:  # noqa
            out = exc_name(e)
        ascii_ok = all(ord(x) < 128 for x in ct + rt)
        clause = None if (out == "ok") == ascii_ok else "constructor-outcome"
        return line, out, clause, info

    tr = T(unhx(c.get("rx", "-")), unhx(c.get("pending", "-")), bool(c.get("sloppy", 0)))
    try:
        proto = ScpiProtocol(tr, ct, rt, dflt)
    except BaseException as e:  # noqa
        proto, ctor_exc = None, exc_name(e)
    bct = ct.encode("ascii", "replace")
    brt = rt.encode("ascii", "replace")

    if kind == "s.write":
        cmd = _str_of(c["cmd"])
        line = f"s.write {cps(ct)} {cps(rt)} {cps(cmd)}"
        if proto is None:
            return line, ctor_exc, None, info
        try:
            proto.write(cmd)
            out = f"ok log={tr.showlog()}"
            raised = False
        except BaseException as e:  # noqa
            out = f"{exc_name(e)} log={tr.showlog()}"
            raised = True
        clause = None
        if all(ord(x) < 128 for x in cmd):
            want = cmd.encode("ascii")
            if raised:
                clause = "write-raised"
            elif bytes(tr.tx) != want + bct:
                clause = "device-sees-different-bytes"
            elif bct and (want + bct).find(bct) == len(want):   # a command the terminator can delimit
                msgs, left = ref_split_program_messages(bytes(tr.tx), bct)
                if msgs != [want] or left:
                    clause = "device-decodes-different-command"
        elif not raised:
            clause = "non-ascii-command-sent"
        info["nontrivial"] = len(cmd) > 0
        return line, out, clause, info

    if kind == "s.writeraw":
        cmd = unhx(c["cmd"])
        line = f"s.writeraw {cps(ct)} {cps(rt)} {hx(cmd)}"
        if proto is None:
            return line, ctor_exc, None, info
        try:
            proto.write_raw(cmd)
            out = f"ok log={tr.showlog()}"
            clause = None if bytes(tr.tx) == cmd + bct else "device-sees-different-bytes"
        except BaseException as e:  # noqa
            out = f"{exc_name(e)} log={tr.showlog()}"
            clause = "write-raised"
        info["nontrivial"] = len(cmd) > 0
        return line, out, clause, info

    if kind == "s.ask":
        cmd = _str_of(c["cmd"])
        discard = bool(c.get("discard", 0))
        line = (f"s.ask {cps(ct)} {cps(rt)} {on(dflt)} {on(to)} {int(discard)} {int(tr.sloppy)} {cps(cmd)} "
                f"{hx(tr.rx)} {hx(tr.pending)}")
        if proto is None:
            return line, ctor_exc, None, info
        stale, pending = bytes(tr.rx), tr.pending
        try:
            r = proto.ask(cmd, timeout=to, discard=discard)
            raised = None
            shown = hx(r.encode("utf8", "surrogatepass")) if isinstance(r, str) else "notstr"
            out = f"ok {shown} log={tr.showlog()} rx={hx(tr.rx)}"
        except BaseException as e:  # noqa
            raised, r = e, None
            out = f"{exc_name(e)} log={tr.showlog()} rx={hx(tr.rx)}"
        clause = None
        if all(ord(x) < 128 for x in cmd) and brt:
            # what the controller sees after the command went out
            stream = (b"" if discard else stale) + pending
            want_cmd = cmd.encode("ascii")
            first = ref_first_response(stream, brt)
            if bytes(tr.tx) != want_cmd + bct:
                clause = "device-sees-different-command"
            elif first is None:
                info["class"] = "unterminated"
                if raised is None:
                    clause = "unterminated-reply-accepted"
            else:
                msg, rest = first
                if all(b < 128 for b in msg):
                    info["class"] = "valid"
                    if raised is not None:
                        clause = "valid-reply-rejected"
                    elif r != msg.decode("ascii"):
                        clause = "driver-receives-different-reply"
                    elif bytes(tr.rx) != rest:
                        clause = "following-bytes-disturbed"
                else:
                    info["class"] = "non-ascii"
                    if raised is None:
                        clause = "non-ascii-reply-mangled"
        info["nontrivial"] = len(pending) > 0
        return line, out, clause, info

    if kind == "s.bin":
        flag = bool(c.get("flag", 1))
        line = f"s.bin {cps(ct)} {cps(rt)} {on(dflt)} {on(to)} {int(flag)} {hx(tr.rx)}"
        if proto is None:
            return line, ctor_exc, None, info
        stream = bytes(tr.rx)
        try:
            d = proto.read_binary_data(read_terminator_flag=flag, timeout=to)
            raised = None
            out = f"ok {hx(d)} log={tr.showlog()} rx={hx(tr.rx)}"
        except BaseException as e:  # noqa
            raised, d = e, None
            out = f"{exc_name(e)} log={tr.showlog()} rx={hx(tr.rx)}"
        ref = ref_block_decode(stream, brt, flag)
        info["class"] = ref[0] + (":" + ref[1] if ref[0] != "ok" else "")
        clause = None
        if ref[0] == "ok":
            if raised is not None:
                clause = "valid-block-rejected"
            elif d != ref[1]:
                clause = "driver-receives-different-block"
            elif bytes(tr.rx) != ref[2]:
                clause = "following-bytes-disturbed"
        elif raised is None:
            clause = f"{ref[0]}-block-accepted:{ref[1]}"
        elif isinstance(raised, _Budget):
            clause = f"{ref[0]}-block-hangs:{ref[1]}"
        info["nontrivial"] = len(stream) > 2
        return line, out, clause, info

    raise ValueError(f"unknown scpi case kind {kind}")


# ---------------------------------------------------------------------------
# USBTMC: fake endpoints, reference device (USBTMC 1.0 / USB488), reference host reassembly
# ---------------------------------------------------------------------------

IOERR = "!"


class RefDevice:
    """A conforming USBTMC device, written from the USBTMC 1.0 specification.

    Bulk-OUT (§3.2): Table 1 header = MsgID, bTag (1..255, must differ from the previous Bulk-OUT header's bTag),
    bTagInverse (one's complement), Reserved 0x00; Table 3 DEV_DEP_MSG_OUT = TransferSize (LE32, > 0),
    bmTransferAttributes (D0 = EOM, D7..D1 = 0), 3 reserved 0x00, TransferSize data bytes, 0..3 alignment bytes so
    the transfer is a multiple of 4 bytes; Table 4 REQUEST_DEV_DEP_MSG_IN = TransferSize (> 0),
    bmTransferAttributes (D1 = TermCharEnabled, others 0), TermChar, 2 reserved 0x00, no data.
    Bulk-IN (§3.3): Table 8/9 header = MsgID 2, bTag and bTagInverse of the request, Reserved, TransferSize
    (≤ requested), bmTransferAttributes (D0 = EOM: last byte of the message is in this transfer), 3 reserved,
    the data, optional alignment bytes.
    Every deviation seen on Bulk-OUT is recorded in `violations`.
    """

    def __init__(self, reply: bytes | None = None, chunks=(), pads=()):
        self.violations: list[str] = []
        self.prev_tag = None
        self.acc = bytearray()
        self.messages: list[bytes] = []
        self.request = None
        self.reply = reply                  # remaining bytes of the response message (None: nothing to say)
        self.chunks = list(chunks)          # the device's own choice of how much to put into each transfer
        self.pads = list(pads)              # alignment bytes it appends to each transfer
        self.responses: list[bytes] = []
        self.requests: list[tuple] = []

    def _v(self, what: str):
        self.violations.append(what)

    def bulk_out(self, t: bytes):
        if len(t) < 12:
            self._v("short-header")
            return
        if len(t) % 4:
            self._v("transfer-not-multiple-of-4")
        msgid, tag, inv, rsv = t[0], t[1], t[2], t[3]
        if tag == 0:
            self._v("btag-zero")
        if inv != (tag ^ 0xFF):
            self._v("btag-inverse")
        if rsv != 0:
            self._v("reserved-nonzero")
        if tag == self.prev_tag:
            self._v("btag-repeated")
        self.prev_tag = tag
        size = t[4] | t[5] << 8 | t[6] << 16 | t[7] << 24
        if msgid == 1:
            attr = t[8]
            if attr & 0xFE:
                self._v("out-attributes-reserved-bits")
            if t[9:12] != b"\0\0\0":
                self._v("reserved-nonzero")
            if size == 0:
                self._v("transfer-size-zero")
            if len(t) < 12 + size:
                self._v("data-shorter-than-transfer-size")
            elif len(t) != 12 + size + (-size % 4):
                self._v("alignment-bytes")
            self.acc += t[12:12 + size]
            if attr & 1:
                self.messages.append(bytes(self.acc))
                self.acc.clear()
        elif msgid == 2:
            attr = t[8]
            if len(t) != 12:
                self._v("request-carries-data")
            if attr & 0xFD:
                self._v("in-attributes-reserved-bits")
            if t[10:12] != b"\0\0":
                self._v("reserved-nonzero")
            if size == 0:
                self._v("request-size-zero")
            if self.acc:
                self._v("request-inside-unfinished-message")
            self.request = (tag, size, attr, t[9])
            self.requests.append(self.request)
        else:
            self._v("unknown-msgid")

    def bulk_in(self):
        """-> bytes of one Bulk-IN transfer, or None (nothing to send: the host will time out)"""
        if self.request is None or self.reply is None:
            return None
        tag, size, _attr, _tc = self.request
        self.request = None
        n = min(size, len(self.reply))
        if self.chunks:
            n = min(n, max(self.chunks.pop(0), 0))
        data, self.reply = self.reply[:n], self.reply[n:]
        eom = len(self.reply) == 0
        if eom:
            self.reply = None
        pad = self.pads.pop(0) if self.pads else b""
        t = bytes([2, tag, tag ^ 0xFF, 0, n & 255, n >> 8 & 255, n >> 16 & 255, n >> 24 & 255,
                   1 if eom else 0, 0, 0, 0]) + data + pad[:3]
        self.responses.append(t)
        return t


def ref_host_reassemble(script):
    """Host side of §3.3, written from the specification: concatenate the data of the transfers; the data of a
    transfer are the bytes after the 12-byte header, at most TransferSize of them; EOM counts only if the
    transfer really carried TransferSize bytes (§3.3.1.1).  -> ('ok', data) | ('error',)"""
    out = b""
    for t in script:
        if t == IOERR or len(t) < 12:
            return ("error",)
        size = t[4] | t[5] << 8 | t[6] << 16 | t[7] << 24
        data = t[12:12 + size]
        out += data
        if len(data) >= size and (t[8] & 1):
            return ("ok", out)
    return ("error",)


class FakeOut:
    bEndpointAddress = 0x02

    def __init__(self, dev: RefDevice | None, fault=None, budget=4000):
        self.dev, self.fault, self.budget = dev, fault, budget
        self.writes: list[bytes] = []

    def write(self, data, timeout=None):
        import usb.core
        self.budget -= 1
        if self.budget < 0:
            raise _Budget()
        data = bytes(data)
        k = len(self.writes)
        self.writes.append(data)
        if self.fault is not None and self.fault[0] == k:
            raise usb.core.USBError("fake", errno=110 if self.fault[1] else 5)
        if self.dev is not None:
            self.dev.bulk_out(data)
        return len(data)

    def clear_halt(self):
        pass


class FakeIn:
    bEndpointAddress = 0x81

    def __init__(self, dev: RefDevice | None, script=None, budget=4000):
        self.dev, self.script, self.budget = dev, (list(script) if script is not None else None), budget
        self.sizes: list[int] = []

    def read(self, size, timeout=None):
        import usb.core
        self.budget -= 1
        if self.budget < 0:
            raise _Budget()
        self.sizes.append(size)
        if self.script is not None:
            if not self.script:
                raise usb.core.USBError("fake timeout", errno=110)
            t = self.script.pop(0)
            if t == IOERR:
                raise usb.core.USBError("fake io error", errno=5)
            return array.array("B", t)
        t = self.dev.bulk_in()
        if t is None:
            raise usb.core.USBError("fake timeout", errno=110)
        return array.array("B", t)

    def clear_halt(self):
        pass


class FakeUsb:
    """the `usb.core.Device` of the instrument: only control transfers of the abort sequences get here"""

    def __init__(self):
        self.ctrl: list[tuple] = []

    def ctrl_transfer(self, bmRequestType=None, bRequest=None, wValue=0, wIndex=0, data_or_wLength=None, timeout=None):
        self.ctrl.append((bRequest, wValue))
        if len(self.ctrl) > 50:
            raise _Budget()
        return array.array("B", [0x81, 0, 0, 0, 0, 0, 0, 0])   # STATUS_TRANSFER_NOT_IN_PROGRESS

    def abort_tag(self):
        for req, val in self.ctrl:
            if req in (1, 3):
                return val
        return None


class _NoSleep:
    """`time` as seen by qmi.core.usbtmc: the abort sequences poll with sleep(0.1)"""
    @staticmethod
    def sleep(_):
        return None


def _mk_inst(last, mts, term_char=None, rigol=False, adv=False):
    from qmi.core import usbtmc
    usbtmc.time = _NoSleep
    usb = FakeUsb()
    inst = usbtmc.Instrument(device=usb)
    inst.connected = True
    inst.max_transfer_size = mts
    inst.last_btag = last
    inst.term_char = term_char
    inst.rigol_quirk = rigol
    inst.rigol_quirk_ieee_block = False
    inst.advantest_quirk = adv
    return inst, usb


def _drop(inst):
    inst.connected = False     # keep __del__ from running close() on the fakes


def _script_items(script) -> str:
    return ",".join(IOERR if t == IOERR else hxi(t) for t in script) if script else "-"


def _script_of(c):
    return [IOERR if s == IOERR else unhx(s) for s in c["script"]]


def run_usb(c: dict):
    """Run one USBTMC case on the real Instrument.  -> (line, impl_out, clause, info)"""
    from qmi.core import usbtmc
    kind = c["kind"]
    info = {}
    if kind == "u.consts":
        return ("u.consts", f"hdr={usbtmc.USBTMC_HEADER_SIZE} out={usbtmc.USBTMC_MSGID_DEV_DEP_MSG_OUT} "
                            f"in={usbtmc.USBTMC_MSGID_REQUEST_DEV_DEP_MSG_IN}", None, info)
    if kind in ("u.hdr", "u.packout", "u.packin"):
        inst, _ = _mk_inst(c["last"], 1024, c.get("tc"))
        try:
            if kind == "u.hdr":
                line = f"u.hdr {c['last']} {c['msgid']}"
                h = inst.pack_bulk_out_header(c["msgid"])
            elif kind == "u.packout":
                line = f"u.packout {c['last']} {c['size']} {int(c['eom'])}"
                h = inst.pack_dev_dep_msg_out_header(c["size"], bool(c["eom"]))
            else:
                line = f"u.packin {c['last']} {c['size']} {on(c.get('tc'))}"
                h = inst.pack_dev_dep_msg_in_header(c["size"], c.get("tc"))
            out = f"ok tag={inst.last_btag} {hx(h)}"
            tag = inst.last_btag
            clause = None
            # USBTMC 1.0 Table 1
            if not (1 <= h[1] <= 255) or h[1] != tag:
                clause = "btag-out-of-range"
            elif h[2] != (h[1] ^ 0xFF):
                clause = "btag-inverse"
            elif h[1] == c["last"]:
                clause = "btag-repeated"
            elif h[3] != 0 or (kind != "u.hdr" and len(h) != 12):
                clause = "header-layout"
            elif kind != "u.hdr" and (h[4] | h[5] << 8 | h[6] << 16 | h[7] << 24) != c["size"]:
                clause = "transfer-size-field"
            elif kind == "u.packout" and (h[8] != int(bool(c["eom"])) or h[9:12] != b"\0\0\0"):
                clause = "eom-field"
        except BaseException as e:  # noqa
            out = f"{exc_name(e)} tag={inst.last_btag}"
            clause = None if c.get("size", 0) >= 2 ** 32 else "header-pack-raised"
        _drop(inst)
        return line, out, clause, info
    if kind == "u.unpack":
        inst, _ = _mk_inst(0, 1024)
        resp = unhx(c["resp"])
        line = f"u.unpack {hx(resp)}"
        try:
            m, t, ti, ts, a, d = inst.unpack_dev_dep_resp_header(resp)
            out = f"ok {m} {t} {ti} {ts} {a} {hx(d)}"
            clause = None
            if len(resp) < 12:
                clause = "truncated-header-accepted"
            elif (m, t, ti, a) != (resp[0], resp[1], resp[2], resp[8]) or \
                    ts != (resp[4] | resp[5] << 8 | resp[6] << 16 | resp[7] << 24) or bytes(d) != resp[12:12 + ts]:
                clause = "header-fields-misread"
        except BaseException as e:  # noqa
            out = exc_name(e)
            clause = None if len(resp) < 12 else "valid-header-rejected"
        _drop(inst)
        return line, out, clause, info

    if kind == "u.write":
        # one write_raw against the reference device; optional endpoint fault
        last, mts, data = c["last"], c["mts"], unhx(c["data"])
        fault = c.get("fault")
        fl = "-" if fault is None else f"{fault[0]}:{'t' if fault[1] else 'e'}"
        line = f"u.write {last} {mts} {fl} {hx(data)}"
        dev = RefDevice()
        dev.prev_tag = c.get("devprev", last if last else None)
        inst, usb = _mk_inst(last, mts)
        inst.bulk_out_ep = ep = FakeOut(dev, tuple(fault) if fault else None, budget=len(data) + 8)
        inst.bulk_in_ep = FakeIn(dev)
        try:
            inst.write_raw(data)
            raised = None
            head = "ok"
        except BaseException as e:  # noqa
            raised = e
            head = exc_name(e)
        if head == "hang":
            out = f"hang tag={last} abort=- sent=-"
        else:
            out = f"{head} tag={inst.last_btag} abort={on(usb.abort_tag())} sent={items(ep.writes)}"
        _drop(inst)
        clause = None
        if mts >= 1 and fault is None:
            if raised is not None:
                clause = "write-raised"
            elif dev.violations:
                clause = "device-rejects:" + dev.violations[0]
            elif dev.acc:
                clause = "message-left-without-eom"
            elif dev.messages != ([data] if data else []):
                clause = "device-decodes-different-payload"
        elif fault is not None and fault[0] < max(1, -(-len(data) // max(mts, 1))) and data and mts >= 1 and raised is None:
            clause = "endpoint-error-swallowed"
        info["ntransfers"] = len(ep.writes)
        info["nontrivial"] = len(data) > 0
        return line, out, clause, info

    if kind == "u.read":
        # read_raw against the reference device (interactive) or against a script (corrupted / quirk cases)
        last, mts, tc, num = c["last"], c["mts"], c.get("tc"), c.get("num", -1)
        rigol, adv = bool(c.get("rigol", 0)), bool(c.get("adv", 0))
        inst, usb = _mk_inst(last, mts, tc, rigol, adv)
        if "script" in c:
            dev = None
            script = _script_of(c)
            inep = FakeIn(None, script)
        else:
            reply = unhx(c["reply"])
            dev = RefDevice(reply, c.get("chunks", ()), [unhx(p) for p in c.get("pads", ())])
            dev.prev_tag = last if last else None
            inep = FakeIn(dev)
        inst.bulk_out_ep = ep = FakeOut(dev)
        inst.bulk_in_ep = inep
        try:
            d = inst.read_raw(num)
            raised = None
            head = f"ok {hx(d)}"
        except BaseException as e:  # noqa
            raised, d = e, None
            head = exc_name(e)
        if dev is not None:
            script = list(dev.responses)
            left = 0
        else:
            left = len(inep.script)
        line = f"u.read {last} {mts} {on(tc)} {int(rigol)} {int(adv)} {num} {_script_items(script)}"
        out = (f"{head} tag={inst.last_btag} abort={on(usb.abort_tag())} reqs={items(ep.writes)} "
               f"sizes={nats(inep.sizes)} left={left}")
        _drop(inst)
        clause = None
        if dev is not None:
            want = reply if num <= 0 else reply[:num]
            if dev.violations:
                clause = "device-rejects-request:" + dev.violations[0]
            elif raised is not None:
                clause = "read-raised"
            elif bytes(d) != want:
                clause = "driver-receives-different-data"
            elif (dev.reply or b"") != reply[len(want):]:
                clause = "rest-of-message-disturbed"
            info["ntransfers"] = len(script)
        elif not rigol and not adv and num <= 0 and mts < 2 ** 32:
            ref = ref_host_reassemble(script)
            cls = c.get("corrupt", "")
            info["class"] = cls or "scripted"
            if cls == "truncated-header" and raised is None:
                clause = "truncated-header-accepted"
            elif ref[0] == "error" and raised is None:
                clause = "incomplete-reply-accepted"
            elif ref[0] == "ok" and raised is not None:
                clause = "valid-reply-rejected"
            elif ref[0] == "ok" and bytes(d) != ref[1]:
                clause = "driver-receives-different-data"
            elif cls in ("msgid", "btag", "btaginv", "reserved") and raised is None and "payload" in c \
                    and bytes(d) != unhx(c["payload"]):
                clause = "tag-field-corruption-yields-wrong-data"
            if cls in ("msgid", "btag", "btaginv") and raised is None:
                info["unchecked_tag_field"] = 1
        info["nontrivial"] = len(script) > 0
        return line, out, clause, info

    if kind == "u.dev":
        # the model's device decoder against the Python reference device on the same transfers
        transfers = [unhx(t) for t in c["transfers"]]
        prev = c.get("prev")
        line = f"u.dev {on(prev)} {items(transfers)}"
        dev = RefDevice()
        dev.prev_tag = prev
        for t in transfers:
            dev.bulk_out(t)
        if dev.violations:
            out = "reject"
        else:
            out = f"ok prev={on(dev.prev_tag)} acc={hx(dev.acc)} msgs={items(dev.messages)}"
        info["nontrivial"] = len(transfers) > 0
        info["class"] = "reject" if dev.violations else "accept"
        return line, out, None, info

    if kind == "u.host":
        # the model's host-side reference (hostSpec) against the Python reference host on the same transfers
        script = _script_of(c)
        line = f"u.host {_script_items(script)}"
        ref = ref_host_reassemble(script)
        out = f"ok {hx(ref[1])}" if ref[0] == "ok" else "error"
        info["nontrivial"] = len(script) > 0
        info["class"] = ref[0]
        return line, out, None, info

    raise ValueError(f"unknown usbtmc case kind {kind}")


def run_case(c: dict):
    return run_scpi(c) if c["kind"].startswith("s.") else run_usb(c)


# ---------------------------------------------------------------------------
# generators
# ---------------------------------------------------------------------------

_SCPI_ALPHA = b"#\n\r0123456789;:*?AaBb \x00\x7f"
_TERMS = [[10], [10], [10], [13, 10], [13], [10, 10], [97, 98], [97, 97], [59, 10]]


def _bytes(rng, n, alpha=None, hi=0.0):
    if alpha is None:
        alpha = b"\x00\x01\x02\x0a\x0d\x23\x7f\x80\xfe\xff"
    out = bytearray()
    for _ in range(n):
        r = rng.random()
        if r < hi:
            out.append(rng.randrange(128, 256))
        elif r < 0.7:
            out.append(rng.choice(alpha))
        else:
            out.append(rng.randrange(256))
    return bytes(out)


def _ascii(rng, n, term=b""):
    pool = _SCPI_ALPHA + term * 3
    return bytes(rng.choice(pool) & 0x7F for _ in range(n))


def _cmd(rng):
    n = rng.choice([0, 1, 2, 5, 9, 14])
    s = [rng.choice(b"*IDN?:MEAS 012#;\n\rxyz") for _ in range(n)]
    if rng.random() < 0.04 and s:
        s[rng.randrange(len(s))] = rng.choice([128, 233, 255, 0x20AC, 0x1F600])
    return s


def _to(rng):
    return rng.choice([None, None, 0, 1, 3, 10])


def gen_scpi(rng, big: bool) -> dict:
    k = rng.random()
    ct = rng.choice(_TERMS + [[], [13]])
    rt = rng.choice(_TERMS)
    if rng.random() < 0.01:
        rt = rng.choice([[], [233], [10, 0x20AC]])
    if rng.random() < 0.01:
        ct = [200]
    base = {"ct": ct, "rt": rt, "dflt": _to(rng), "to": _to(rng)}
    brt = bytes(x for x in rt if x < 128)
    if k < 0.02:
        return {"kind": "s.init", **base}
    if k < 0.10:
        return {"kind": "s.write", **base, "cmd": _cmd(rng)}
    if k < 0.15:
        return {"kind": "s.writeraw", **base, "cmd": hx(_bytes(rng, rng.choice([0, 1, 4, 9])))}
    if k < 0.50:
        reply = _ascii(rng, rng.choice([0, 1, 2, 3, 6, 12, 30]), brt)
        if rng.random() < 0.05 and reply:
            i = rng.randrange(len(reply))
            reply = reply[:i] + bytes([rng.randrange(128, 256)]) + reply[i + 1:]
        shape = rng.random()
        if shape < 0.6:
            pending = reply + brt + (b"" if rng.random() < 0.6 else _ascii(rng, rng.randint(1, 6), brt))
        elif shape < 0.75:
            pending = reply + brt[:-1]             # terminator cut short
        elif shape < 0.9:
            pending = bytes(b for b in reply if b not in brt)   # no terminator at all
        else:
            pending = b""
        stale = b""
        if rng.random() < 0.2:
            stale = _ascii(rng, rng.randint(1, 5), brt)
        return {"kind": "s.ask", **base, "cmd": _cmd(rng), "discard": int(rng.random() < 0.4),
                "sloppy": int(rng.random() < 0.35), "rx": hx(stale), "pending": hx(pending)}
    # binary blocks
    sizes = [0, 1, 2, 3, 8, 9, 10, 11, 12, 98, 99, 100, 101, 999, 1000, 1001]
    n = rng.choice(sizes) if rng.random() < 0.5 else rng.randint(0, 40)
    if big and rng.random() < 0.003:
        n = rng.choice([9999, 10000, 10001, 99999, 100000])
    d = _bytes(rng, n, b"#\n\r0123456789\x00\xff" + brt)
    digits = None if rng.random() < 0.7 else rng.randint(1, 9)
    blk = ref_block_encode(d, digits)
    flag = int(rng.random() < 0.85)
    stream = blk + (brt if (flag or rng.random() < 0.5) else b"") + \
        (b"" if rng.random() < 0.6 else _bytes(rng, rng.randint(1, 5), b"#1" + brt))
    m = rng.random()
    hdr_len = len(blk) - len(d)
    if m < 0.45:
        pass
    elif m < 0.75:
        # single-field corruption of the header / terminator
        f = rng.random()
        if f < 0.2:
            pos = 0
        elif f < 0.4:
            pos = 1
        elif f < 0.75:
            pos = rng.randrange(2, max(hdr_len, 3))
        else:
            pos = len(blk) + rng.randrange(max(len(brt), 1))
        if pos < len(stream):
            o = stream[pos]
            nb = rng.choice([rng.choice(b"#0123456789 -+_\n\ra\x00\xff"), o ^ (1 << rng.randrange(8)), (o + 1) % 256,
                             (o - 1) % 256, rng.randrange(256)])
            stream = stream[:pos] + bytes([nb]) + stream[pos + 1:]
    elif m < 0.9:
        stream = stream[:rng.randint(0, len(stream))]        # cut anywhere
    else:
        pos = rng.randint(0, min(len(stream), hdr_len + 1))   # one byte inserted / deleted in the header
        stream = stream[:pos] + (bytes([rng.choice(b"#01 9")]) if rng.random() < 0.5 else b"") + stream[pos + (rng.random() < 0.5):]
    return {"kind": "s.bin", **base, "flag": flag, "rx": hx(stream)}


_TAGS = [0, 1, 2, 127, 128, 253, 254, 255]


def _last(rng):
    return rng.choice(_TAGS) if rng.random() < 0.7 else rng.randrange(256)


def _mts(rng):
    return rng.choice([1, 2, 3, 4, 5, 7, 8, 9, 12, 16, 31, 64])


def _payload_len(rng, mts):
    r = rng.random()
    if r < 0.25:
        return rng.choice([0, 1, 3, 4, 5])
    if r < 0.75:
        k = rng.choice([1, 1, 2, 3, 5])
        return max(0, k * mts + rng.choice([-1, 0, 1]))
    return rng.randint(0, 4 * mts + 3)


_USB_ALPHA = b"\x00\x01\x02\xfe\xfd\xff\x0a\x0c#"


def _chunks(rng, n, mts):
    """the device's split of an n-byte reply: a list of piece sizes (the last piece may be cut by the host's request)"""
    r = rng.random()
    if r < 0.3:
        return []                       # as much as the host asks for
    out, left = [], n
    while left > 0:
        k = rng.choice([1, 1, 2, 3, 4, 5, mts - 1, mts, mts + 1, left]) if r < 0.9 else rng.choice([0, 1, left])
        k = max(k, 0)
        out.append(k)
        left -= min(k, left, mts)
        if len(out) > 4 * n + 8:
            break
    return out


def _valid_script(rng, reply: bytes, tag0: int, mts: int):
    """transfers a conforming device would answer with (tags follow the host's requests)"""
    dev = RefDevice(reply, _chunks(rng, len(reply), mts), [_bytes(rng, rng.choice([0, 0, 1, 2, 3])) for _ in range(len(reply) + 2)])
    out, tag = [], tag0
    while dev.reply is not None and len(out) < len(reply) + 8:
        tag = tag % 255 + 1
        dev.request = (tag, mts, 0, 0)
        out.append(dev.bulk_in())
    return out


def _corrupt(rng, script, what):
    i = rng.randrange(len(script))
    t = bytearray(script[i])
    if what == "msgid":
        t[0] = rng.choice([0, 1, 3, 126, 127, 255])
    elif what == "btag":
        t[1] = rng.choice([0, (t[1] + 1) % 256, (t[1] - 1) % 256, 255 - t[1]])
    elif what == "btaginv":
        t[2] = rng.choice([t[1], (t[2] + 1) % 256, 0, 255])
    elif what == "reserved":
        t[rng.choice([3, 9, 10, 11])] = rng.choice([1, 255])
    elif what == "size":
        n = int.from_bytes(t[4:8], "little")
        n2 = rng.choice([0, max(n - 1, 0), n + 1, n + 3, n + 4, n + 256, 2 ** 32 - 1])
        t[4:8] = n2.to_bytes(4, "little")
    elif what == "eom":
        t[8] ^= 1
    elif what == "attr-high":
        t[8] ^= rng.choice([2, 4, 128])
    elif what == "truncated-header":
        t = t[:rng.randrange(12)]
    elif what == "drop":
        del script[i]
        return script
    elif what == "ioerr":
        script[i] = IOERR
        return script
    script[i] = bytes(t)
    return script


_CORRUPTIONS = ["msgid", "btag", "btaginv", "reserved", "size", "eom", "attr-high", "truncated-header", "drop", "ioerr"]


def gen_usb(rng, big: bool) -> dict:
    k = rng.random()
    last = _last(rng)
    if k < 0.02:
        return {"kind": "u.consts"}
    if k < 0.05:
        return {"kind": "u.hdr", "last": last, "msgid": rng.choice([1, 2, 126, 127, 128, 0, 255])}
    if k < 0.09:
        return {"kind": "u.packout", "last": last, "eom": int(rng.random() < 0.5),
                "size": rng.choice([0, 1, 255, 256, 65535, 65536, 2 ** 24, 2 ** 32 - 1, 2 ** 32, 2 ** 33, rng.randrange(2 ** 32)])}
    if k < 0.13:
        return {"kind": "u.packin", "last": last, "tc": rng.choice([None, None, 0, 10, 255]),
                "size": rng.choice([0, 1, 255, 256, 65535, 65536, 2 ** 24, 2 ** 32 - 1, 2 ** 32, rng.randrange(2 ** 32)])}
    if k < 0.17:
        n = rng.choice([0, 1, 3, 4, 5, 8, 11, 12, 13, 16, 20])
        resp = bytearray(_bytes(rng, n, _USB_ALPHA))
        if n >= 8 and rng.random() < 0.8:
            resp[4:8] = rng.choice([0, 1, 3, 4, 5, n - 12 if n >= 12 else 0, 300]).to_bytes(4, "little")
        return {"kind": "u.unpack", "resp": hx(resp)}
    mts = _mts(rng)
    if k < 0.45:
        n = _payload_len(rng, mts)
        c = {"kind": "u.write", "last": last, "mts": mts, "data": hx(_bytes(rng, n, _USB_ALPHA))}
        r = rng.random()
        if r < 0.12:
            c["fault"] = [rng.randint(0, max(0, -(-n // mts))), int(rng.random() < 0.5)]
        elif r < 0.14:
            c["mts"] = 0
        elif r < 0.16 and big:
            c["mts"] = rng.choice([1024, 4096])
            c["data"] = hx(_bytes(rng, c["mts"] * rng.choice([1, 2, 3]) + rng.choice([-1, 0, 1]), _USB_ALPHA))
        return c
    if k < 0.70:
        # conforming device, every kind of split
        n = _payload_len(rng, mts)
        reply = _bytes(rng, n, _USB_ALPHA)
        num = -1
        r = rng.random()
        if r < 0.35:
            num = rng.choice([1, 2, max(n - 1, 1), max(n, 1), n + 1, mts, mts + 1, max(mts - 1, 1), 0])
        return {"kind": "u.read", "last": last, "mts": mts, "tc": rng.choice([None, None, None, 10, 0]), "num": num,
                "reply": hx(reply), "chunks": _chunks(rng, n, mts),
                "pads": [hx(_bytes(rng, rng.choice([0, 0, 1, 2, 3]))) for _ in range(min(n, 12) + 2)]}
    if k < 0.92:
        # scripted: a valid conversation with one field of one transfer corrupted; or quirk modes
        n = rng.choice([1, 2, 3, 4, 5, 8, 9, 13])
        reply = _bytes(rng, n, _USB_ALPHA)
        script = _valid_script(rng, reply, last, mts)
        c = {"kind": "u.read", "last": last, "mts": mts, "tc": None, "num": -1, "payload": hx(reply)}
        r = rng.random()
        if r < 0.7:
            what = rng.choice(_CORRUPTIONS)
            script = _corrupt(rng, script, what)
            c["corrupt"] = what
        elif r < 0.8:
            c["rigol"] = 1
            if rng.random() < 0.5:      # RIGOL style: header only in the first packet, rest raw
                total = reply
                first = script[0][:12]
                first = first[:4] + len(total).to_bytes(4, "little") + first[8:]
                cut = rng.randint(0, len(total))
                script = [first + total[:cut]] + ([total[cut:] + b"\0" * rng.choice([0, 1, 3])] if cut < len(total) else [])
        elif r < 0.88:
            c["adv"] = 1
        if rng.random() < 0.2:
            c["num"] = rng.choice([1, 2, n - 1, n, n + 1, mts, mts + 1])
        c["script"] = [IOERR if t == IOERR else hxi(t) for t in script]
        if rng.random() < 0.15:
            return {"kind": "u.host", "script": c["script"]}
        return c
    # the two device decoders (model's and the Python reference) on host output, valid and mutated
    n = _payload_len(rng, mts) or 1
    data = _bytes(rng, n, _USB_ALPHA)
    inst, _ = _mk_inst(last, mts)
    inst.bulk_out_ep = ep = FakeOut(None)
    try:
        inst.write_raw(data)
    except BaseException:  # noqa
        pass
    _drop(inst)
    transfers = list(ep.writes)
    prev = rng.choice([None, last, last % 255 + 1])
    if transfers and rng.random() < 0.6:
        i = rng.randrange(len(transfers))
        t = bytearray(transfers[i])
        m = rng.random()
        if m < 0.5 and t:
            t[rng.randrange(min(len(t), 12))] = rng.choice([0, 1, 2, 255, 254])
        elif m < 0.7:
            t = t[:-1] if rng.random() < 0.5 else t + b"\0"
        elif m < 0.85:
            t = t + b"\0\0\0\0"
        else:
            t = t[:rng.randrange(len(t) + 1)]
        transfers[i] = bytes(t)
    return {"kind": "u.dev", "prev": prev, "transfers": [hxi(t) for t in transfers]}


# ---------------------------------------------------------------------------
# the check
# ---------------------------------------------------------------------------

def _input_class(c: dict) -> str:
    k = c["kind"]
    if k == "u.write":
        n, mts = len(unhx(c["data"])), c["mts"]
        if c.get("fault"):
            return "fault"
        if mts == 0:
            return "mts0"
        return "empty" if n == 0 else ("single" if n <= mts else "multi")
    if k == "u.read":
        if "script" in c:
            return c.get("corrupt") or ("rigol" if c.get("rigol") else "adv" if c.get("adv") else "scripted")
        return "num" if c.get("num", -1) > 0 else "all"
    if k == "s.bin":
        return "flag" if c.get("flag", 1) else "noflag"
    return "-"


def _signature(c: dict, clause: str) -> str:
    return f"{c['kind']}:{clause}:{_input_class(c)}"


def _shrink(c: dict, clause: str) -> dict:
    """greedy: shorten the byte-string fields while the same oracle clause keeps failing"""
    def bad(x):
        try:
            return run_case(x)[2] == clause
        except BaseException:  # noqa
            return False
    cur = dict(c)
    for key in ("data", "reply", "pending", "rx", "cmd"):
        if key not in cur:
            continue
        changed = True
        while changed:
            changed = False
            v = cur[key]
            seq = v if isinstance(v, list) else unhx(v)
            for cand in (seq[:len(seq) // 2], seq[len(seq) // 2:], seq[1:], seq[:-1]):
                if len(cand) >= len(seq):
                    continue
                trial = dict(cur)
                trial[key] = list(cand) if isinstance(v, list) else hx(cand)
                if bad(trial):
                    cur, changed = trial, True
                    break
    if cur.get("chunks") and bad({**cur, "chunks": []}):
        cur = {**cur, "chunks": []}
    if cur.get("pads") and bad({**cur, "pads": []}):
        cur = {**cur, "pads": []}
    return cur


def _failure(c: dict, clause: str) -> Failure:
    small = _shrink(c, clause)
    line, out, _, _ = run_case(small)
    return Failure(signature=_signature(small, clause),
                   summary=f"{clause}: `{line[:300]}` -> `{out[:300]}`",
                   replay={"case": small, "clause": clause})


class C15A(Prop):
    id = "C15A"
    lean_modules = ["QmiModel.Props.C15"]
    props_files = ["QmiModel/Props/C15.lean"]
    driver = "drv_c15"
    modelled_not_verified = [
        "SCPI: the transport below ScpiProtocol is the QMI_Transport *contract* (read = exactly n bytes or time-out, "
        "read_until = up to the first terminator or time-out); the concrete transports are property C13",
        "SCPI: str.encode('ascii') / bytes.decode('ascii') / bytes.isdigit / int(bytes) (model: encodeAscii, decodeAscii, "
        "allDigits, parseDec; differentially checked here)",
        "USBTMC: struct.pack/unpack_from layouts 'BBBx', '<LBxxx', '<LBBxx' (model: bulkOutHeader, le32, unpackResp; "
        "differentially checked), usb endpoints (fakes), the abort sequences (answered 'not in progress' by the fake)",
        "USBTMC: rigol_quirk_ieee_block sub-quirk, open()/close()/clear()/read_stb()/trigger() are not modelled",
    ]

    # -- one batch: run cases on the implementation, oracle, then the model on the same lines ------------
    def _batch(self, ctx: Ctx, cases, res: Result, name: str):
        lines, outs, kept = [], [], []
        fail_count: dict[str, int] = {}
        for c in cases:
            try:
                line, out, clause, info = run_case(c)
            except BaseException as e:  # noqa  (a harness crash is a broken link, not a verdict)
                res.broken.append(Broken("correspondence", f"C15A.harness[{c.get('kind')}]",
                                         f"{type(e).__name__}: {e}", case=c))
                continue
            lines.append(line)
            outs.append(out)
            kept.append(c)
            res.note_case(line, nontrivial=info.get("nontrivial", True))
            res.count("kind_" + c["kind"])
            res.count(f"class_{c['kind']}_{_input_class(c)}")
            if "class" in info:
                res.count(f"ref_{c['kind']}_{info['class']}")
            res.count("outcome_" + out.split(" ", 1)[0].split(":", 1)[0])
            if info.get("ntransfers", 0) > 1:
                res.count("multi_transfer_cases")
            if info.get("unchecked_tag_field"):
                res.count("usbtmc_replies_with_wrong_msgid_or_btag_accepted_payload_intact")
            if len(res.samples) < 8 and c["kind"] in ("u.write", "u.read", "s.bin", "s.ask") and ctx.rng.random() < 0.01:
                res.sample({"line": line[:240], "impl": out[:240]})
            if clause:
                sig0 = _signature(c, clause)
                fail_count[sig0] = fail_count.get(sig0, 0) + 1
                if fail_count[sig0] <= 1:
                    res.failures.append(_failure(c, clause))
        if not lines:
            return
        model = LeanDriver(self.driver).run(lines)
        res.traces_validated += len(lines)
        nbroken = 0
        for i, (a, b) in enumerate(zip(outs, model)):
            if a != b:
                nbroken += 1
                if nbroken <= 5:
                    res.broken.append(Broken("correspondence", f"{name}:{kept[i]['kind']}",
                                             f"op={lines[i][:400]!r} impl={a[:400]!r} model={b[:400]!r}", case=kept[i]))
        if nbroken:
            res.count("model_impl_disagreements", nbroken)

    def correspondence(self, ctx: Ctx) -> Result:
        res = Result(rule="case = one call of the real ScpiProtocol / usbtmc.Instrument with all state explicit (terminators, "
                          "buffered and pending bytes, last_btag, max_transfer_size, device split of the reply, single-field "
                          "corruption), generated from the seeded PRNG with lengths at 0,1,3,4,5,k*max-1,k*max,k*max+1, tags at "
                          "253..255/0..2, block sizes at the digit-count boundaries; non-trivial = carries a non-empty payload / "
                          "reply; distinct by the canonical op line")
        big = not ctx.quick
        n_scpi = ctx.scale(80000, 700000)
        n_usb = ctx.scale(100000, 900000)
        self._batch(ctx, [gen_scpi(ctx.rng, big) for _ in range(n_scpi)], res, "Scpi")
        self._batch(ctx, [gen_usb(ctx.rng, big) for _ in range(n_usb)], res, "Usbtmc")
        self._batch(ctx, list(_systematic(ctx.scale(0, 1))), res, "systematic")
        res.assumptions.append("ScpiProtocol is given a transport that honours the QMI_Transport contract (C13); "
                               "non-empty response terminator")
        res.assumptions.append("USBTMC: a reply whose MsgID/bTag/bTagInverse do not match the request still carries its payload "
                               "intact and is accepted by read_raw (no check in the code; not demanded by the statement of C15)")
        return res

    def search(self, ctx: Ctx, broken) -> Result:
        res = Result()
        seen = set()
        for b in broken:
            if b.case and "kind" in b.case:
                c = b.case
                try:
                    clause = run_case(c)[2]
                except BaseException:  # noqa
                    clause = None
                res.note_case(("case", repr(c)))
                if clause:
                    f = _failure(c, clause)
                    if f.signature not in seen:
                        seen.add(f.signature)
                        res.failures.append(f)
        for c in _systematic(2):
            try:
                clause = run_case(c)[2]
            except BaseException:  # noqa
                continue
            res.note_case(repr(c))
            if clause:
                sig = _signature(c, clause)
                if sig not in seen:
                    seen.add(sig)
                    res.failures.append(_failure(c, clause))
                    if len(res.failures) >= 6:
                        break
        return res

    def replay(self, ctx: Ctx, rp: dict):
        c = rp["case"]
        line, out, clause, _ = run_case(c)
        if clause:
            return Failure(_signature(c, clause), f"{clause}: `{line[:300]}` -> `{out[:300]}`", rp)
        return None


def _compositions(n):
    """all ways to write n as an ordered sum of positive integers"""
    if n == 0:
        yield []
        return
    for first in range(1, n + 1):
        for rest in _compositions(n - first):
            yield [first] + rest


def _systematic(level: int):
    """exhaustive small cases: level 0 = part of every quick run, 1 = thorough, 2 = failing-input search"""
    # USBTMC write: every length around every multiple of every small max_transfer_size, tags across the wrap
    mts_set = [1, 2, 3, 4, 5, 8] if level == 0 else list(range(1, 10)) + [16]
    for mts in mts_set:
        for n in range(0, 3 * mts + 3):
            for last in ([0, 254, 255] if level == 0 else [0, 1, 127, 253, 254, 255]):
                yield {"kind": "u.write", "last": last, "mts": mts, "data": hx(bytes((7 * i + n) % 256 for i in range(n)))}
    for last in range(256):
        yield {"kind": "u.hdr", "last": last, "msgid": 1}
        yield {"kind": "u.packin", "last": last, "size": 5, "tc": None}
    # USBTMC read: every split of a reply into transfers (all compositions), every pad length
    for n in range(0, 6 if level == 0 else 9):
        reply = bytes((250 + i) % 256 for i in range(n))
        for comp in _compositions(n):
            for mts in ([2, n + 1] if level == 0 else [1, 2, 3, n, n + 1]):
                if mts < 1:
                    continue
                for padlen in ([0, 3] if level == 0 else [0, 1, 2, 3]):
                    yield {"kind": "u.read", "last": 254, "mts": mts, "tc": None, "num": -1, "reply": hx(reply),
                           "chunks": comp, "pads": [hx(b"\xaa" * padlen)] * (n + 1)}
    for n in (3, 5):
        reply = bytes(range(1, n + 1))
        for num in range(0, n + 3):
            for comp in _compositions(n):
                yield {"kind": "u.read", "last": 0, "mts": 4, "tc": None, "num": num, "reply": hx(reply), "chunks": comp, "pads": []}
    # single-byte corruption of every header byte of a two-transfer reply
    import random
    rng = random.Random(5)
    base = _valid_script(random.Random(1), b"\x01\x02\x03\x04\x05", 7, 3)
    for i in range(len(base)):
        for pos in range(12):
            for val in (0, 1, 2, 255, base[i][pos] ^ 1, base[i][pos] ^ 0x80):
                if val == base[i][pos]:
                    continue
                sc = list(base)
                t = bytearray(sc[i])
                t[pos] = val
                sc[i] = bytes(t)
                cls = ["msgid", "btag", "btaginv", "reserved", "size", "size", "size", "size", "eom", "reserved", "reserved", "reserved"][pos]
                yield {"kind": "u.read", "last": 7, "mts": 3, "tc": None, "num": -1, "payload": hx(b"\x01\x02\x03\x04\x05"),
                       "corrupt": cls, "script": [hxi(x) for x in sc]}
        for cut in range(12):
            sc = list(base)
            sc[i] = sc[i][:cut]
            yield {"kind": "u.read", "last": 7, "mts": 3, "tc": None, "num": -1, "payload": hx(b"\x01\x02\x03\x04\x05"),
                   "corrupt": "truncated-header", "script": [hxi(x) for x in sc]}
    # SCPI blocks: every length across the digit-count boundaries, canonical and zero-padded headers
    lens = list(range(0, 13)) + [99, 100, 101, 999, 1000, 1001]
    if level >= 1:
        lens += [9999, 10000, 99999, 100000]
    for n in lens:
        d = bytes((i * 11 + 35) % 256 for i in range(n))
        for digits in (None, 4, 9):
            for rt in ([10], [13, 10]):
                for flag in (1, 0):
                    blk = ref_block_encode(d, digits)
                    yield {"kind": "s.bin", "rt": rt, "flag": flag, "rx": hx(blk + bytes(rt) + b"#11")}
    # every single-byte corruption (all 256 values) of each header byte and of the terminator of a small block,
    # every truncation
    blk = ref_block_encode(b"ab#\n1234567", None) + b"\n"
    for pos in list(range(0, 4)) + [len(blk) - 1]:
        for val in range(256):
            if val != blk[pos]:
                yield {"kind": "s.bin", "rt": [10], "flag": 1, "rx": hx(blk[:pos] + bytes([val]) + blk[pos + 1:])}
    # large transfers: TransferSize beyond 16 and 24 bits, the default max_transfer_size boundary
    M = 1024 * 1024
    big = [(M, 70000), (65536, 65537), (M, M + 1)]
    if level >= 1:
        big += [(M, M - 1), (M, M), (M, 2 * M + 1), (16777216 + 4, 16777216 + 5)]
    for mts, n in big:
        data = bytes((i * 7 + (i >> 8)) % 256 for i in range(n))
        yield {"kind": "u.write", "last": 254, "mts": mts, "data": hx(data)}
        yield {"kind": "u.read", "last": 254, "mts": mts, "tc": None, "num": -1, "reply": hx(data), "chunks": [], "pads": []}
    for n in ([100000] if level == 0 else [100000, 999999, 1000000]):
        d = bytes((i * 13 + 7) % 256 for i in range(n))
        yield {"kind": "s.bin", "rt": [10], "flag": 1, "rx": hx(ref_block_encode(d) + b"\n#10")}
    for cut in range(len(blk)):
        yield {"kind": "s.bin", "rt": [10], "flag": 1, "rx": hx(blk[:cut])}
    # ask: every position of the terminator / missing terminator, sloppy and strict transport
    for rt in ([10], [13, 10], [97, 97]):
        brt = bytes(rt)
        for reply in (b"", b"a", b"1.5", b"a\rb", b"xa"):
            for tail in (brt, brt[:-1], b"", brt + b"next" + brt):
                for sloppy in (0, 1):
                    for discard, stale in ((0, b""), (0, b"old" + brt), (1, b"old" + brt), (1, b"junk")):
                        yield {"kind": "s.ask", "rt": rt, "cmd": [42, 73, 68, 78, 63], "discard": discard, "sloppy": sloppy,
                               "rx": hx(stale), "pending": hx(reply + tail), "to": rng.choice([None, 2]), "dflt": rng.choice([None, 5])}


PROP = C15A()
