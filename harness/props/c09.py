"""C09 — signal receiver queue: bounded, oldest first, losses are countable.

Models:   lean/QmiModel/Model/RecvQueue.lean (the sequential queue) and Model/RecvConc.lean (the receiver's methods at
          statement / lock granularity for any number of deliverer and reader threads; the statement lists are generated
          from the ASTs of pubsub.py and task.py by harness/tr_recvprog.py into Gen/RecvProg.lean on every run).
Theorems: Props/C09.lean (sequential), Props/C09Conc.lean (all interleavings + obligations on the generated programs).
Tie:      (a) op-sequence differential of the real `QMI_SignalReceiver` against the model driver;
          (b) concurrent runs under the deterministic scheduler (harness/props/c09_conc.py): 2-3 deliverers, readers that are
              plain threads or real `_TaskThread`s, discards, stop requests; judged by a model-free oracle, and their
              critical sections, in lock order, replayed on the model driver (linearisation differential);
          (c) blocking reads with real threads.
"""
from __future__ import annotations

import threading
import time

from harness import core
from harness.core import Ctx, Failure, Broken, LeanDriver, Prop, Result, diff_streams

GEN_FILE = core.LEAN / "QmiModel" / "Gen" / "RecvProg.lean"


def _gen_scenario(rng, max_ops: int):
    """One scenario: capacity, policy, op list. Biased to small capacities and bursts around `cap`."""
    r = rng.random()
    if r < 0.55:
        cap = rng.randint(1, 4)
    elif r < 0.9:
        cap = rng.randint(5, 12)
    else:
        cap = rng.choice([16, 33, 100])
    pol = rng.choice(["old", "new"])
    ops = []
    n = rng.randint(1, max_ops)
    while len(ops) < n:
        k = rng.random()
        if k < 0.35:      # burst of arrivals around the capacity
            for _ in range(rng.choice([cap - 1, cap, cap + 1, cap + 2, 2 * cap + 1, 1])):
                ops.append("recv")
        elif k < 0.6:     # drain some
            for _ in range(rng.randint(1, cap + 1)):
                ops.append("get")
        elif k < 0.7:
            ops.append("discard")
        elif k < 0.8:
            ops.append("len")
        elif k < 0.85:
            ops.append("ready")
        else:             # alternate drops and reads
            for _ in range(rng.randint(1, 4)):
                ops += ["recv", "get"] if rng.random() < 0.5 else ["recv", "recv", "get"]
    return cap, pol, ops[:max(n, 1)]


def _make_rx(way: dict):
    """Build a receiver the way `way` says: {"pos": [...], "kw": {...}}; "@old" / "@new" stand for the policy constants."""
    from qmi.core.pubsub import QMI_SignalReceiver as R

    def val(v):
        return R.DISCARD_OLD if v == "@old" else (R.DISCARD_NEW if v == "@new" else v)
    return R(*[val(v) for v in way.get("pos", [])], **{k: val(v) for k, v in way.get("kw", {}).items()})


def _ctor_facts():
    """What the live class says about its constructor: parameter names, defaults, and every MAX_* / DEFAULT_* integer
    constant of pubsub.py (module and class level)."""
    import inspect
    from qmi.core import pubsub
    R = pubsub.QMI_SignalReceiver
    params = [p for p in inspect.signature(R.__init__).parameters.values() if p.name != "self"]
    consts = {}
    for owner in (pubsub, R):
        for k, v in vars(owner).items():
            if (k.startswith("MAX_") or k.startswith("DEFAULT_") or "_MAX_" in k or "_DEFAULT_" in k) and isinstance(v, int) and not isinstance(v, bool) and v > 0:
                consts[k] = v
    live_default = R()._queue.maxlen
    return params, consts, live_default


def _ctor_ways():
    """Every way the constructor allows to ask for a capacity and a policy.  Returns a list of
    (way, configured capacity, policy, label); the configured capacity of a defaulted argument is the documented default
    (the integer default of the signature, else a DEFAULT_*QUEUE* constant, else what a default-constructed object has)."""
    params, consts, live_default = _ctor_facts()
    names = [p.name for p in params]
    if len(names) < 2:
        return [], live_default
    cn, pn = names[0], names[1]
    cdef = params[0].default
    if isinstance(cdef, int) and not isinstance(cdef, bool):
        documented = cdef
    else:
        named = [v for k, v in consts.items() if "QUEUE" in k and "DEFAULT" in k]
        documented = named[0] if named else live_default
    pdef = params[1].default
    from qmi.core.pubsub import QMI_SignalReceiver as R
    pol_default = "new" if pdef == R.DISCARD_NEW else "old"
    caps = sorted({1, 2, 3, documented, live_default} | set(consts.values()))
    caps = [c for c in caps if c <= 50000]
    ways = []
    # all arguments defaulted / only the policy given
    ways.append(({"pos": [], "kw": {}}, documented, pol_default, "R()"))
    for pol in ("old", "new"):
        ways.append(({"pos": [], "kw": {pn: "@" + pol}}, documented, pol, f"R({pn}={pol})"))
        for c in caps:
            ways.append(({"pos": [c, "@" + pol], "kw": {}}, c, pol, f"R({c}, {pol})"))
            ways.append(({"pos": [], "kw": {cn: c, pn: "@" + pol}}, c, pol, f"R({cn}={c}, {pn}={pol})"))
            ways.append(({"pos": [c], "kw": {pn: "@" + pol}}, c, pol, f"R({c}, {pn}={pol})"))
        if cdef is None:
            ways.append(({"pos": [None, "@" + pol], "kw": {}}, documented, pol, f"R(None, {pol})"))
            ways.append(({"pos": [], "kw": {cn: None, pn: "@" + pol}}, documented, pol, f"R({cn}=None, {pn}={pol})"))
    for c in caps:
        ways.append(({"pos": [c], "kw": {}}, c, pol_default, f"R({c})"))
        ways.append(({"pos": [], "kw": {cn: c}}, c, pol_default, f"R({cn}={c})"))
    return ways, live_default


def _rle(ops):
    out = []
    for o in ops:
        if out and out[-1][0] == o:
            out[-1][1] += 1
        else:
            out.append([o, 1])
    return out


def _unrle(rle):
    return [o for o, n in rle for _ in range(n)]


def _overrun_ops(cap: int, k: int):
    """fill to the configured capacity, overrun it by k, read, overrun again, read"""
    return (["recv"] * (cap + k) + ["len", "get", "get", "len"] + ["recv"] * 3 + ["len", "ready", "get", "get", "get"]
            + ["recv"] * 2 + ["get", "discard", "len", "recv", "get", "get"])


REENTER_KINDS = ("recv", "len", "ready", "discard", "get0")


def _run_impl(cap: int, pol: str, ops, payload_base: int = 0, way=None, reenter=None):
    """Run one scenario on the real receiver. Returns (lines, outputs, raw_trace).

    `reenter` (a list of kinds from REENTER_KINDS, used in turn): a logging handler at DEBUG level is installed for the run
    that calls back into the SAME receiver whenever the receiver code logs anything — the receiver's lock is re-entrant, so
    the nested call runs on the same thread in the middle of the outer one.  Its events are grouped with the outer call."""
    if reenter:
        import logging
        names = ["", "qmi", "qmi.core", "qmi.core.pubsub", "qmi.core.task"]
        saved = [(logging.getLogger(n), logging.getLogger(n).level) for n in names]
        prev_disable = logging.root.manager.disable
        box = {"fn": None, "depth": 0}

        class _Reenter(logging.Handler):
            def emit(self, record):
                if box["depth"] or box["fn"] is None:
                    return
                box["depth"] += 1
                try:
                    box["fn"]()
                finally:
                    box["depth"] -= 1
        h = _Reenter(level=logging.DEBUG)
        try:
            logging.disable(logging.NOTSET)
            for lg, _ in saved:
                lg.setLevel(logging.DEBUG)
            logging.getLogger("").addHandler(h)
            return _run_impl_inner(cap, pol, ops, payload_base, way, list(reenter), box)
        finally:
            logging.getLogger("").removeHandler(h)
            for lg, lvl in saved:
                lg.setLevel(lvl)
            logging.disable(prev_disable)
    return _run_impl_inner(cap, pol, ops, payload_base, way, None, None)


def _run_impl_inner(cap: int, pol: str, ops, payload_base, way, reenter, box):
    from qmi.core.pubsub import QMI_SignalReceiver, QMI_SignalMessage
    from qmi.core.messaging import QMI_MessageHandlerAddress
    from qmi.core.exceptions import QMI_TimeoutException

    policy = QMI_SignalReceiver.DISCARD_OLD if pol == "old" else QMI_SignalReceiver.DISCARD_NEW
    rx = _make_rx(way) if way is not None else QMI_SignalReceiver(max_queue_length=cap, discard_policy=policy)
    src = QMI_MessageHandlerAddress("ctxP", "pub")
    dst = QMI_MessageHandlerAddress("ctxR", "$pubsub")
    lines = [f"init {cap} {pol}"]
    outs = ["ok"]
    state = {"arrivals": 0}

    def do_op(op):
        """one call on the real receiver: (driver line, observed output, oracle event)"""
        if op == "recv":
            tag = payload_base + state["arrivals"]
            state["arrivals"] += 1
            rx._receive_signal(QMI_SignalMessage(src, dst, "sig", (tag,)))
            return f"recv {tag}", "ok", ("recv", tag, len(rx._queue))
        if op in ("get", "get0"):
            try:
                s = rx.get_next_signal(0) if op == "get0" else rx.get_next_signal()
                ok = (s.publisher_context == "ctxP" and s.publisher_name == "pub" and s.signal_name == "sig"
                      and isinstance(s.args, tuple) and len(s.args) == 1)
                return "get", (f"sig {s.receiver_seqnr} {s.args[0]}" if ok else f"garbled {s!r}"), ("get", s.receiver_seqnr, s.args[0] if ok else None)
            except QMI_TimeoutException:
                return "get", "timeout", ("get", None, None)
            except Exception as e:  # noqa
                return "get", f"exc:{type(e).__name__}", ("get", "exc", type(e).__name__)
        if op == "discard":
            rx.discard_all()
            return "discard", "ok", ("discard",)
        if op == "len":
            n = rx.get_queue_length()
            return "len", str(n), ("len", n)
        if op == "ready":
            b = rx.has_signal_ready()
            return "ready", ("true" if b else "false"), ("ready", b)
        raise ValueError(op)

    nested = []
    if box is not None:
        turn = {"k": 0}

        def callback():
            kind = reenter[turn["k"] % len(reenter)]
            turn["k"] += 1
            try:
                nested.append(do_op(kind))
            except Exception as e:  # noqa - an exception inside the callback is an observation of the nested call
                nested.append(("get", f"exc:{type(e).__name__}", ("get", "exc", type(e).__name__)))
        box["fn"] = callback
    trace = []   # oracle events; ("nested", outer, [inner...]) when a callback ran calls in the middle of an outer call
    for op in ops:
        del nested[:]
        try:
            line, out, ev = do_op(op)
        except Exception as e:  # noqa
            line, out, ev = op, f"exc:{type(e).__name__}", ("get", "exc", type(e).__name__)
        lines.append(line)
        outs.append(out)
        if nested:
            inner = list(nested)
            for (l2, o2, e2) in inner:
                lines.append(l2)
                outs.append(o2)
            unl = lambda e: (e[0], e[1], None) if e[0] == "recv" else e  # noqa: lengths seen mid-call say nothing
            trace.append(("nested", unl(ev), [unl(e2) for (_, _, e2) in inner]))
        else:
            trace.append(ev)
    if box is not None:
        box["fn"] = None
    return lines, outs, trace


def _oracle_step(st, ev, cap: int, pol: str, check_len: bool = True):
    """One event on the reference: a bounded FIFO with a global arrival counter (that *is* the statement: oldest first, at
    most `cap`, drop per policy, every arrival consumes one number).  `st` = (queue of (number, tag), arrivals so far, last
    number handed out); returns (new state, clause or None)."""
    q, n, last = st
    if ev[0] == "recv":
        q = list(q)
        if len(q) == cap:
            if pol == "old":
                q.pop(0)
                q.append((n, ev[1]))
        else:
            q.append((n, ev[1]))
        n += 1
        if ev[2] is not None and ev[2] > cap:
            return (q, n, last), "holds-more-than-maximum"
        if check_len and ev[2] is not None and ev[2] != len(q):
            return (q, n, last), ("drop-policy" if len(q) == cap else "queue-length")
    elif ev[0] == "get":
        if ev[1] == "exc":
            return st, "unexpected-exception"
        if ev[1] is None:
            return st, ("timeout-although-signal-queued" if q else None)
        if not q:
            return st, "signal-from-empty-queue"
        seq, tag = ev[1], ev[2]
        if tag is None:
            return st, "payload-altered"
        if not isinstance(seq, int) or seq <= last:
            return st, "sequence-not-increasing"
        q = list(q)
        exp = q.pop(0)
        if (seq, tag) != exp:
            if tag == exp[1]:
                return st, "gap-not-equal-to-losses"       # the right signal, but the k-th arrival must carry number k
            return st, ("not-oldest-first" if any(tag == t for (_, t) in q) else "drop-policy")
        last = seq
    elif ev[0] == "discard":
        q = []
    elif ev[0] == "len":
        if ev[1] > cap:
            return st, "holds-more-than-maximum"
        if ev[1] != len(q):
            return st, "queue-length"
    elif ev[0] == "ready":
        if ev[1] != (len(q) != 0):
            return st, "ready-flag"
    return (q, n, last), None


def _oracle(cap: int, pol: str, trace, payload_base: int = 0):
    """The property, evaluated directly on an implementation trace.  Returns a clause name or None.

    An entry of the trace is an event, or a group ("nested", outer event, [events of calls made by a callback that the
    receiver code reached while it ran the outer call]).  The receiver's lock is re-entrant, so such calls run on the same
    thread in the middle of the outer one; the run is accepted if the nested calls can be placed either all before or all
    after the outer call (every combination over the groups is tried, the set of reference states is carried along)."""
    states = [([], 0, -1)]
    for ev in trace:
        if ev[0] != "nested":
            nxt, clause = [], None
            for st in states:
                st2, c = _oracle_step(st, ev, cap, pol)
                if c is None:
                    nxt.append(st2)
                elif clause is None:
                    clause = c
            if not nxt:
                return clause
            states = nxt
            continue
        outer, inner = ev[1], ev[2]
        nxt, clause = [], None
        for st in states:
            for order in ([outer] + inner, inner + [outer]):
                cur, c = st, None
                for e in order:
                    cur, c = _oracle_step(cur, e, cap, pol, check_len=False)
                    if c is not None:
                        break
                if c is None:
                    if cur not in nxt:
                        nxt.append(cur)
                elif clause is None:
                    clause = c
        if not nxt:
            return "reentrant:" + (clause or "order")
        states = nxt[:16]
    return None


def _shrink(cap, pol, ops, bad):
    """Greedy removal of ops while `bad(cap, pol, ops)` stays true."""
    ops = list(ops)
    changed = True
    while changed:
        changed = False
        i = 0
        while i < len(ops):
            cand = ops[:i] + ops[i + 1:]
            if cand and bad(cap, pol, cand):
                ops = cand
                changed = True
            else:
                i += 1
    return ops


def _blocking_release(cap: int, pol: str, prefill: int, timeout):
    """A reader blocked in get_next_signal(timeout) is released by the next arrival and gets that arrival."""
    from qmi.core.pubsub import QMI_SignalReceiver, QMI_SignalMessage
    from qmi.core.messaging import QMI_MessageHandlerAddress
    policy = QMI_SignalReceiver.DISCARD_OLD if pol == "old" else QMI_SignalReceiver.DISCARD_NEW
    rx = QMI_SignalReceiver(max_queue_length=cap, discard_policy=policy)
    src = QMI_MessageHandlerAddress("ctxP", "pub")
    dst = QMI_MessageHandlerAddress("ctxR", "$pubsub")
    for i in range(prefill):
        rx._receive_signal(QMI_SignalMessage(src, dst, "sig", (i,)))
    rx.discard_all()
    box = {}

    def reader():
        try:
            box["sig"] = rx.get_next_signal(timeout=timeout)
        except BaseException as e:  # noqa
            box["exc"] = e

    th = threading.Thread(target=reader, daemon=True)
    th.start()
    deadline = time.monotonic() + 5
    while time.monotonic() < deadline and not rx._queue_cond._waiters:
        time.sleep(0.0005)
    t0 = time.monotonic()
    rx._receive_signal(QMI_SignalMessage(src, dst, "sig", (prefill,)))
    th.join(5)
    dt = time.monotonic() - t0
    if th.is_alive():
        return "blocked-reader-not-released"
    if "exc" in box:
        return f"blocked-reader-raised-{type(box['exc']).__name__}"
    s = box["sig"]
    if s.receiver_seqnr != prefill or s.args != (prefill,):
        return "blocked-reader-wrong-signal"
    if dt > 2.0:
        return "blocked-reader-released-late"
    return None


def _multi_reader(seed, n_readers: int, per_reader: int, cap: int, pol: str):
    """Several readers blocked in get_next_signal(None) and one publisher, under the deterministic scheduler:
    every reader must be handed a signal as soon as one is queued (no reader stays parked while signals wait)."""
    from harness.simworld import run_scenario
    from harness import detsched as D
    from qmi.core.pubsub import QMI_SignalReceiver, QMI_SignalMessage
    from qmi.core.messaging import QMI_MessageHandlerAddress
    got = []
    total = n_readers * per_reader

    def body(w):
        policy = QMI_SignalReceiver.DISCARD_OLD if pol == "old" else QMI_SignalReceiver.DISCARD_NEW
        rx = QMI_SignalReceiver(max_queue_length=cap, discard_policy=policy)
        src = QMI_MessageHandlerAddress("ctxP", "pub")
        dst = QMI_MessageHandlerAddress("ctxR", "$pubsub")

        def reader():
            for _ in range(per_reader):
                s = rx.get_next_signal(timeout=None)
                got.append(s.receiver_seqnr)

        def publisher():
            for i in range(total):
                # never overrun the queue: the scenario is about wake-ups, not about drops
                while rx.get_queue_length() >= cap:
                    D.SCHED.yield_point("pub.backoff", blocked_on=lambda: len(rx._queue) < cap)
                rx._receive_signal(QMI_SignalMessage(src, dst, "sig", (i,)))
        ths = [w.spawn(reader, f"reader{i}") for i in range(n_readers)] + [w.spawn(publisher, "publisher")]
        for t in ths:
            t.join()
        return True

    import zlib
    out = run_scenario(seed, body, policy="pct" if zlib.crc32(str(seed).encode()) % 2 else "weighted", max_steps=20000)
    if out.deadlock:
        return "reader-parked-although-signal-queued", sorted(got)
    if out.error is not None or out.budget:
        return f"multi-reader-harness:{type(out.error).__name__ if out.error else 'budget'}", sorted(got)
    if sorted(got) != list(range(total)):
        return "readers-got-wrong-signals", sorted(got)
    return None, sorted(got)


class C09(Prop):
    id = "C09"
    lean_modules = ["QmiModel.Props.C09", "QmiModel.Props.C09Conc"]
    props_files = ["QmiModel/Props/C09.lean", "QmiModel/Props/C09Conc.lean"]
    driver = "drv_c09"
    modelled_not_verified = [
        "threading.Condition / RLock semantics (mutual exclusion, wait = atomic release-and-park, notify_all marks every parked "
        "thread, wait_for re-tests the predicate after every wake-up and once more when the timeout ran out) are the premises of "
        "Model/RecvConc.lean, mirrored from CPython, exercised through the scheduler's cooperative Condition",
        "GIL atomicity of one deque operation / one integer read; collections.deque(maxlen) semantics (model: dequeAppend; "
        "differentially checked here)",
        "how stop_task wakes a parked task reader (registration in _wait_cond, notify_all) is an arbitrary `wake` action in "
        "RecvConc (safety holds under every wake-up pattern); that the wake-up is never lost is property C11",
        "the translator harness/tr_recvprog.py (AST shapes -> instruction lists; unknown statements fail loudly)",
    ]

    def translate(self, ctx: Ctx):
        from harness import tr_recvprog as T
        try:
            progs = T.build(core.REPO)
        except T.Untranslatable as e:
            # do not leave a file from an earlier run (possibly of another tree) behind: the remaining links are then
            # evaluated against the reference programs; the failed translation is reported by the driver as a broken link
            core.write_if_changed(GEN_FILE, T.render_reference(str(e)))
            raise
        core.write_if_changed(GEN_FILE, T.render(progs))
        self._progs = T.signature(progs)
        return [GEN_FILE]

    # -- concurrent families (harness/props/c09_conc.py) ------------------------------------------------------------
    def _conc_batch(self, specs, res: Result, found: dict, lines_acc: list, family: str):
        from harness.props import c09_conc as C
        for sp in specs:
            run = C.run_spec(sp)
            verdict = C.oracle(sp, run)
            nthreads = len(sp.get("deliverers", ())) + len(sp.get("readers", ())) + len(sp.get("stops", ()))
            res.note_case(("conc", family, repr(sorted(sp.items()))), nontrivial=nthreads >= 2)
            res.count(f"conc_{family}_runs")
            res.count("conc_steps", run.steps)
            res.count(f"conc_policy_{sp.get('policy', 'weighted')}")
            calls, sections, stops = C.calls_of(sp, run)
            res.count("conc_critical_sections", len(sections))
            res.count("conc_runs_with_overrun", 1 if any(c["op"] == "recv" and any(len(sections[i]["pre"]) >= sp["cap"] for i in c["sections"]) for c in calls) else 0)
            res.count("conc_reader_sleeps", sum(1 for s_ in sections if s_["how"] == "park"))
            for c in calls:
                if c["op"] == "get" and c["res"] is not None:
                    res.count(f"conc_get_{c['res'][0]}")
            for (clause, detail) in verdict:
                if clause == "@benign-deadlock":
                    res.count("conc_runs_ending_with_a_reader_waiting_for_ever_on_an_empty_queue")
                    continue
                found.setdefault(clause, []).append((sp, detail))
            if len(res.samples) < 5 and family not in getattr(self, "_sampled", set()):
                self.__dict__.setdefault("_sampled", set()).add(family)
                res.sample({"family": family, "spec": sp, "log": [list(map(repr, e)) for e in run.log[:14]]}, 8)
            l, o = C.lin_lines(sp, run)
            l2, o2 = C.conc_lines(sp, run)
            lines_acc.append((sp, l, o, l2, o2))
            res.traces_validated += 1

    def _conc_lin_diff(self, lines_acc: list, res: Result):
        """(1) the critical sections in lock order on the sequential model; (2) the lock-level events of the run on the
        concurrent model (generated programs): every event enabled, same results, same queue after every section."""
        for (which, name, counter) in ((1, "RecvQueue.step on the linearisation vs concurrent QMI_SignalReceiver", "conc_linearisation_lines"),
                                       (3, "RecvConc (generated programs) vs the run's lock-level events", "conc_refinement_lines")):
            all_lines, all_outs, spans = [], [], []
            for item in lines_acc:
                sp, l, o = item[0], item[which], item[which + 1]
                spans.append((len(all_lines), len(l), sp))
                all_lines += l
                all_outs += o
            if not all_lines:
                continue
            model = LeanDriver(self.driver).run(all_lines)
            res.count(counter, len(all_lines))
            k = diff_streams(all_lines, all_outs, model)
            if k is not None:
                for (start, ln, sp) in spans:
                    if start <= k < start + ln:
                        res.broken.append(Broken(
                            "correspondence", name,
                            f"line {k - start}: op={all_lines[k]!r} impl={all_outs[k]!r} model={model[k]!r} (before: {all_lines[max(start, k - 6):k]})",
                            case={"conc": sp}))
                        break

    def _conc_report(self, found: dict, res: Result):
        from harness.props import c09_conc as C
        for clause, lst in found.items():
            sp, detail = min(lst, key=lambda x: (len(x[0].get("deliverers", ())) + len(x[0].get("readers", ())), sum(x[0].get("deliverers", ()) or [0])))
            small = C.shrink(sp, clause)
            det = [d for (c, d) in C.oracle(small, C.run_spec(small)) if c == clause]
            res.failures.append(Failure(
                signature=f"conc:{clause}",
                summary=f"conc:{clause}: cap={small['cap']} policy={small['pol']} deliverers={small.get('deliverers')} readers={small.get('readers')} "
                        f"stops={small.get('stops')} seed={small['seed']!r}/{small.get('policy')}: {det[0] if det else detail}",
                replay={"kind": "conc", "spec": small, "clause": clause, "seen_in_runs": len(lst)}))

    def _concurrent(self, ctx: Ctx, res: Result):
        from harness.props import c09_conc as C
        found, lines_acc = {}, []
        tag = f"{ctx.seed}"
        # single-preemption sweep over small fixed scenarios: the running thread is demoted at every yield index in turn
        sweep = []
        for b, base in enumerate(C.preempt_bases()):
            probe = dict(base, seed=f"sw:{b}", policy="pct", change_points=[])
            n = C.run_spec(probe).steps
            for k in range(1, n + 1, 1 if not ctx.quick else 2):
                sweep.append(dict(base, seed=f"sw:{b}", policy="pct", change_points=[k + (ctx.seed % 2 if ctx.quick else 0)]))
        self._conc_batch(sweep, res, found, lines_acc, "preempt_sweep")
        # (ii) thread kind x timeout x queue content x time of the stop request
        grid = C.kind_grid()
        for rep in range(ctx.scale(3, 40)):
            self._conc_batch([C.gen_kind(ctx.rng, f"k:{tag}:{j}:{rep}", cell) for j, cell in enumerate(grid)], res, found, lines_acc, "thread_kinds")
        res.count("conc_thread_kind_cells", len(grid))
        # (i) several deliverers + readers + discards, overruns included
        self._conc_batch([C.gen_mix(ctx.rng, f"m:{tag}:{i}") for i in range(ctx.scale(700, 20000))], res, found, lines_acc, "deliverers_readers")
        self._conc_batch([C.gen_block(ctx.rng, f"b:{tag}:{i}") for i in range(ctx.scale(250, 8000))], res, found, lines_acc, "sleeping_readers")
        self._conc_lin_diff(lines_acc, res)
        self._conc_report(found, res)

    def _differential(self, ctx: Ctx, n_scen: int, max_ops: int, res: Result):
        drv = LeanDriver(self.driver)
        all_lines, all_outs, spans = [], [], []
        for i in range(n_scen):
            cap, pol, ops = _gen_scenario(ctx.rng, max_ops)
            base = ctx.rng.choice([0, 0, 1000, 7])
            lines, outs, trace = _run_impl(cap, pol, ops, base)
            spans.append((len(all_lines), len(lines), cap, pol, ops, base, trace))
            all_lines += lines
            all_outs += outs
            drops = sum(1 for j, e in enumerate(trace) if e[0] == "recv" and j > 0 and e[2] == cap)
            res.note_case((cap, pol, tuple(ops)), nontrivial=("recv" in ops and "get" in ops))
            res.count(f"policy_{pol}")
            res.count("cap_1_4" if cap <= 4 else "cap_5_plus")
            res.count("ops_total", len(ops))
            res.count("scenarios_reaching_full_queue", 1 if drops else 0)
            for e in trace:
                res.count("op_" + e[0])
                if e[0] == "get" and e[1] is None:
                    res.count("get_timeouts")
            if i < 3:
                res.sample({"cap": cap, "policy": pol, "ops": ops[:40], "impl_out": outs[1:41]})
            # property oracle directly on the implementation trace
            clause = _oracle(cap, pol, trace, base)
            if clause and sum(1 for f in res.failures if f.replay.get("pre") == clause) < 2:
                small = _shrink(cap, pol, ops, lambda c, p, o: _oracle(c, p, _run_impl(c, p, o, base)[2], base) is not None)
                clause2 = _oracle(cap, pol, _run_impl(cap, pol, small, base)[2], base)
                res.failures.append(Failure(
                    signature=f"queue:{clause2}",
                    summary=f"receiver(cap={cap}, policy={pol}) ops={small}: {clause2}",
                    replay={"kind": "ops", "cap": cap, "policy": pol, "ops": small, "base": base, "pre": clause}))
        model = drv.run(all_lines)
        res.traces_validated += n_scen
        k = diff_streams(all_lines, all_outs, model)
        if k is not None:
            for (start, ln, cap, pol, ops, base, trace) in spans:
                if start <= k < start + ln:
                    res.broken.append(Broken(
                        "correspondence", "RecvQueue.step vs QMI_SignalReceiver",
                        f"line {k - start}: op={all_lines[k]!r} impl={all_outs[k]!r} model={model[k]!r}",
                        case={"cap": cap, "policy": pol, "ops": ops, "base": base}))
                    break

    def _constructors(self, ctx: Ctx, res: Result):
        """Receivers built in every way the constructor allows, overrun by capacity + k arrivals, both policies; the
        capacity is the configured one (explicit argument or documented default) and is compared with the live object."""
        ways, live_default = _ctor_ways()
        res.count("ctor_ways", len(ways))
        res.extra["ctor_live_default_capacity"] = live_default
        all_lines, all_outs, spans, fails = [], [], [], {}
        for wi, (way, cap, pol, label) in enumerate(ways):
            try:
                rx = _make_rx(way)
            except Exception as e:  # noqa
                fails.setdefault(f"constructor-refuses:{type(e).__name__}", (way, cap, pol, label, [], f"{label} raised {e!r}"))
                continue
            live = rx._queue.maxlen
            if live != cap:
                fails.setdefault("capacity-not-as-configured", (way, cap, pol, label, [], f"{label}: configured maximum {cap}, the queue is bounded by {live}"))
            big = cap > 64
            for k in ((1,) if big and ctx.quick else (0, 1, 3)):
                ops = _overrun_ops(cap, k)
                lines, outs, trace = _run_impl(cap, pol, ops, 0, way=way)
                defaulted = not any(isinstance(v, int) for v in list(way["pos"]) + list(way["kw"].values()))
                if not big or defaulted or not ctx.quick:
                    # (the list-based model needs ~1 s per 10^4-deep overrun: in the quick tier the explicit large
                    # capacities are judged by the oracle only)
                    spans.append((len(all_lines), len(lines), way, cap, pol, label, ops))
                    all_lines += lines
                    all_outs += outs
                res.note_case(("ctor", label, k), nontrivial=True)
                res.count("ctor_runs")
                res.count("ctor_runs_capacity_from_default", 1 if not any(isinstance(v, int) for v in list(way["pos"]) + list(way["kw"].values())) else 0)
                res.count("ctor_arrivals", cap + k + 6)
                clause = _oracle(cap, pol, trace, 0)
                if clause:
                    fails.setdefault(clause, (way, cap, pol, label, ops, f"{label} (configured maximum {cap}, policy {pol}), {cap + k} arrivals then reads: {clause}"))
        res.traces_validated += len(spans)
        res.count("ctor_runs_diffed_with_model", len(spans))
        for clause, (way, cap, pol, label, ops, detail) in fails.items():
            res.failures.append(Failure(
                signature=f"ctor:{clause}" if clause.startswith(("capacity-not-as-configured", "constructor-refuses")) else f"queue:{clause}",
                summary=f"{detail}; ops={_rle(ops)[:8]}",
                replay={"kind": "ctor", "way": way, "cap": cap, "policy": pol, "label": label, "rle": _rle(ops), "pre": clause}))
        if all_lines:
            model = LeanDriver(self.driver).run(all_lines)
            k = diff_streams(all_lines, all_outs, model)
            if k is not None:
                for (start, ln, way, cap, pol, label, ops) in spans:
                    if start <= k < start + ln:
                        res.broken.append(Broken(
                            "correspondence", "RecvQueue.step vs QMI_SignalReceiver built as " + label,
                            f"line {k - start}: op={all_lines[k]!r} impl={all_outs[k]!r} model={model[k]!r}",
                            case={"ctor": {"way": way, "cap": cap, "policy": pol, "label": label, "rle": _rle(ops)}}))
                        break

    def _reentrant(self, ctx: Ctx, res: Result, n_random: int):
        """Callbacks the receiver code can reach while it holds its (re-entrant) lock: a logging handler at DEBUG that calls
        back into the same receiver (_receive_signal, get_queue_length, has_signal_ready, discard_all, get_next_signal(0)),
        full / non-full queues, both policies.  On a tree whose receiver methods do not log the callback is never reached
        (counted): the family then equals the plain sequential runs."""
        fails, all_lines, all_outs, spans = {}, [], [], []
        scen = []
        for cap in (1, 2, 3):
            for pol in ("old", "new"):
                for kinds in [[k] for k in REENTER_KINDS] + [list(REENTER_KINDS)]:
                    for k in (0, 1, 2):
                        scen.append((cap, pol, _overrun_ops(cap, k), kinds))
        for _ in range(n_random):
            cap, pol, ops = _gen_scenario(ctx.rng, 40)
            scen.append((cap, pol, ops, [ctx.rng.choice(REENTER_KINDS) for _ in range(ctx.rng.randint(1, 3))]))
        for (cap, pol, ops, kinds) in scen:
            lines, outs, trace = _run_impl(cap, pol, ops, 0, reenter=kinds)
            reached = sum(len(e[2]) for e in trace if e[0] == "nested")
            res.note_case(("reenter", cap, pol, tuple(ops), tuple(kinds)), nontrivial=True)
            res.count("reentrant_runs")
            res.count("reentrant_callbacks_reached", reached)
            spans.append((len(all_lines), len(lines), cap, pol, ops, kinds))
            all_lines += lines
            all_outs += outs
            clause = _oracle(cap, pol, trace, 0)
            if clause and clause not in fails:
                bad = lambda c, p, o: _oracle(c, p, _run_impl(c, p, o, 0, reenter=kinds)[2], 0) is not None  # noqa
                small = _shrink(cap, pol, ops, bad) if len(ops) <= 80 else list(ops)
                l2, o2, t2 = _run_impl(cap, pol, small, 0, reenter=kinds)
                clause2 = _oracle(cap, pol, t2, 0) or clause
                fails[clause] = Failure(
                    signature=f"queue:{clause2}" if clause2.startswith("reentrant:") else f"queue:reentrant:{clause2}",
                    summary=f"receiver(cap={cap}, policy={pol}), a DEBUG logging handler calling back {kinds} into the same receiver, "
                            f"ops={small}: {clause2}; observed {list(zip(l2[1:], o2[1:]))[:14]}",
                    replay={"kind": "ops", "cap": cap, "policy": pol, "ops": small, "base": 0, "reenter": kinds, "pre": clause})
        res.failures += list(fails.values())
        res.traces_validated += len(scen)
        model = LeanDriver(self.driver).run(all_lines)
        k = diff_streams(all_lines, all_outs, model)
        if k is not None:
            for (start, ln, cap, pol, ops, kinds) in spans:
                if start <= k < start + ln:
                    res.broken.append(Broken(
                        "correspondence", "RecvQueue.step vs QMI_SignalReceiver with a re-entering logging handler",
                        f"line {k - start}: op={all_lines[k]!r} impl={all_outs[k]!r} model={model[k]!r} (nested calls are listed after the outer call)",
                        case={"cap": cap, "policy": pol, "ops": ops, "base": 0, "reenter": kinds}))
                    break

    def correspondence(self, ctx: Ctx) -> Result:
        res = Result(rule="sequential: scenario = (capacity, policy, op list) generated from the seeded PRNG with bursts around the "
                          "capacity; non-trivial = contains both arrivals and reads; distinct by (cap, policy, ops).  concurrent: "
                          "scenario = (capacity, policy, prefill, signals per deliverer thread, readers (thread kind, timeouts, gates), "
                          "discards, stop requests, scheduler seed/policy/change point); non-trivial = at least two threads; "
                          "distinct by the whole scenario")
        self._constructors(ctx, res)
        self._reentrant(ctx, res, ctx.scale(300, 6000))
        self._differential(ctx, ctx.scale(20000, 400000), ctx.scale(60, 120), res)
        self._concurrent(ctx, res)
        # blocking reads released by an arrival (real threads)
        for cap in ([1, 3] if ctx.quick else [1, 2, 3, 8]):
            for pol in ("old", "new"):
                for timeout in (None, 30.0):
                    c = _blocking_release(cap, pol, ctx.rng.randint(0, 2 * cap), timeout)
                    res.note_case(("block", cap, pol, timeout))
                    res.count("blocking_release_cases")
                    if c:
                        res.failures.append(Failure(f"queue:{c}", f"blocked reader cap={cap} {pol} timeout={timeout}: {c}",
                                                    {"kind": "block", "cap": cap, "policy": pol, "timeout": timeout}))
        # several blocked readers + a publisher under the deterministic scheduler (all interleavings sampled)
        seen = set()
        for i in range(ctx.scale(300, 6000)):
            nr, per, cap, pol = ctx.rng.choice([2, 2, 3]), ctx.rng.choice([1, 2]), ctx.rng.choice([1, 2, 4]), ctx.rng.choice(["old", "new"])
            c, got = _multi_reader(f"{ctx.seed}:{i}", nr, per, cap, pol)
            res.note_case(("multi", nr, per, cap, pol, i % 50))
            res.count("multi_reader_runs")
            if c and c not in seen:
                seen.add(c)
                res.failures.append(Failure(f"queue:{c}", f"{nr} blocked readers x {per} reads, cap={cap} {pol}: {c} (delivered {got})",
                                            {"kind": "multi", "seed": f"{ctx.seed}:{i}", "readers": nr, "per": per, "cap": cap, "policy": pol}))
        return res

    def search(self, ctx: Ctx, broken) -> Result:
        res = Result()
        from harness.props import c09_conc as C
        found, lines_acc = {}, []
        # the oracle alone, on the real code: constructor family at full size (every k), then the disagreeing constructor cases
        full = Ctx(ctx.prop_id, "thorough", ctx.seed)
        self._constructors(full, res)
        self._reentrant(ctx, res, 2000)
        res.broken = []
        for b in broken:
            if b.case and "ctor" in b.case:
                c = b.case["ctor"]
                clause = _oracle(c["cap"], c["policy"], _run_impl(c["cap"], c["policy"], _unrle(c["rle"]), 0, way=c["way"])[2], 0)
                if clause:
                    res.failures.append(Failure(f"queue:{clause}", f"{c['label']}: {clause}", {"kind": "ctor", **c}))
        if res.failures:
            return res
        # the disagreeing concurrent cases, then the systematic concurrent families with more repetitions
        self._conc_batch([b.case["conc"] for b in broken if b.case and "conc" in b.case], res, found, lines_acc, "search_cases")
        if not found:
            sweep = []
            for b_, base in enumerate(C.preempt_bases()):
                n = C.run_spec(dict(base, seed=f"sw:{b_}", policy="pct", change_points=[])).steps
                sweep += [dict(base, seed=f"sw:{b_}", policy="pct", change_points=[k]) for k in range(1, n + 1)]
            self._conc_batch(sweep, res, found, lines_acc, "search_preempt_sweep")
        if not found:
            grid = C.kind_grid()
            for rep in range(12):
                self._conc_batch([C.gen_kind(ctx.rng, f"sk:{ctx.seed}:{j}:{rep}", cell) for j, cell in enumerate(grid)], res, found, lines_acc, "search_thread_kinds")
                if found:
                    break
        if not found:
            self._conc_batch([C.gen_mix(ctx.rng, f"sm:{ctx.seed}:{i}") for i in range(3000)], res, found, lines_acc, "search_deliverers_readers")
        if not found:
            self._conc_batch([C.gen_block(ctx.rng, f"sb:{ctx.seed}:{i}") for i in range(1500)], res, found, lines_acc, "search_sleeping_readers")
        self._conc_report(found, res)
        if res.failures:
            return res
        # replay the disagreeing cases first, then a systematic sweep: all op strings up to length L for small caps
        for b in broken:
            if b.case and "ops" in b.case:
                c = b.case
                clause = _oracle(c["cap"], c["policy"], _run_impl(c["cap"], c["policy"], c["ops"], c["base"], reenter=c.get("reenter"))[2], c["base"])
                res.note_case(("case", repr(c)))
                if clause:
                    res.failures.append(Failure(f"queue:{clause}", f"{c}: {clause}", {"kind": "ops", **c}))
        import itertools
        L = 7
        for cap in (1, 2, 3):
            for pol in ("old", "new"):
                for n in range(1, L + 1):
                    for ops in itertools.product(["recv", "get", "discard", "len"], repeat=n):
                        clause = _oracle(cap, pol, _run_impl(cap, pol, ops)[2])
                        res.note_case((cap, pol, ops))
                        if clause:
                            res.failures.append(Failure(f"queue:{clause}", f"cap={cap} {pol} ops={list(ops)}: {clause}",
                                                        {"kind": "ops", "cap": cap, "policy": pol, "ops": list(ops), "base": 0}))
                            return res
        return res

    def replay(self, ctx: Ctx, rp: dict):
        if rp.get("kind") == "ctor":
            try:
                live = _make_rx(rp["way"])._queue.maxlen
            except Exception as e:  # noqa
                return Failure(f"ctor:constructor-refuses:{type(e).__name__}", f"{rp['label']}: {e!r}", rp)
            if live != rp["cap"] and rp.get("pre") == "capacity-not-as-configured":
                return Failure("ctor:capacity-not-as-configured", f"{rp['label']}: configured {rp['cap']}, bounded by {live}", rp)
            c = _oracle(rp["cap"], rp["policy"], _run_impl(rp["cap"], rp["policy"], _unrle(rp["rle"]), 0, way=rp["way"])[2], 0)
            return Failure(f"queue:{c}", f"{rp['label']}: {c}", rp) if c else None
        if rp.get("kind") == "conc":
            from harness.props import c09_conc as C
            verdict = [c for (c, d) in C.oracle(rp["spec"], C.run_spec(rp["spec"])) if not c.startswith("@")]
            c = (rp.get("clause") if rp.get("clause") in verdict else (verdict[0] if verdict else None))
            return Failure(f"conc:{c}", f"{rp['spec']}: {verdict}", rp) if c else None
        if rp.get("kind") == "multi":
            c, _ = _multi_reader(rp["seed"], rp["readers"], rp["per"], rp["cap"], rp["policy"])
        elif rp.get("kind") == "block":
            c = _blocking_release(rp["cap"], rp["policy"], 1, rp["timeout"])
        else:
            c = _oracle(rp["cap"], rp["policy"], _run_impl(rp["cap"], rp["policy"], rp["ops"], rp.get("base", 0), reenter=rp.get("reenter"))[2], rp.get("base", 0))
        return Failure(f"queue:{c}", f"{rp}: {c}", rp) if c else None


PROP = C09()
