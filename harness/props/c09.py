"""C09 — signal receiver queue: bounded, oldest first, losses are countable.

Model: lean/QmiModel/Model/RecvQueue.lean; theorems: Props/C09.lean.
Tie: op-sequence correspondence against the real `QMI_SignalReceiver`.
"""
from __future__ import annotations

import threading
import time

from harness.core import Ctx, Failure, Broken, LeanDriver, Prop, Result, diff_streams


def _gen_scenario(rng, max_ops: int):
    """One scenario: capacity, policy, op list. Biased to small capacities and bursts around `cap`."""
    r = rng.random()
    if r < 0.55:
        cap = rng.randint(1, 4)
    elif r < 0.9:
        cap = rng.randint(5, 12)
    else:
        cap = rng.choice([16, 33, 100])
    pol = rng.choice(["old", "new"])
    ops = []
    n = rng.randint(1, max_ops)
    while len(ops) < n:
        k = rng.random()
        if k < 0.35:      # burst of arrivals around the capacity
            for _ in range(rng.choice([cap - 1, cap, cap + 1, cap + 2, 2 * cap + 1, 1])):
                ops.append("recv")
        elif k < 0.6:     # drain some
            for _ in range(rng.randint(1, cap + 1)):
                ops.append("get")
        elif k < 0.7:
            ops.append("discard")
        elif k < 0.8:
            ops.append("len")
        elif k < 0.85:
            ops.append("ready")
        else:             # alternate drops and reads
            for _ in range(rng.randint(1, 4)):
                ops += ["recv", "get"] if rng.random() < 0.5 else ["recv", "recv", "get"]
    return cap, pol, ops[:max(n, 1)]


def _run_impl(cap: int, pol: str, ops, payload_base: int = 0):
    """Run one scenario on the real receiver. Returns (lines, outputs, raw_trace)."""
    from qmi.core.pubsub import QMI_SignalReceiver, QMI_SignalMessage
    from qmi.core.messaging import QMI_MessageHandlerAddress
    from qmi.core.exceptions import QMI_TimeoutException

    policy = QMI_SignalReceiver.DISCARD_OLD if pol == "old" else QMI_SignalReceiver.DISCARD_NEW
    rx = QMI_SignalReceiver(max_queue_length=cap, discard_policy=policy)
    src = QMI_MessageHandlerAddress("ctxP", "pub")
    dst = QMI_MessageHandlerAddress("ctxR", "$pubsub")
    lines = [f"init {cap} {pol}"]
    outs = ["ok"]
    arrivals = 0
    trace = []   # (op, observed) for the oracle
    for op in ops:
        if op == "recv":
            tag = payload_base + arrivals
            rx._receive_signal(QMI_SignalMessage(src, dst, "sig", (tag,)))
            arrivals += 1
            lines.append(f"recv {tag}")
            outs.append("ok")
            trace.append(("recv", tag, len(rx._queue)))
        elif op == "get":
            lines.append("get")
            try:
                s = rx.get_next_signal()
                ok = (s.publisher_context == "ctxP" and s.publisher_name == "pub" and s.signal_name == "sig"
                      and isinstance(s.args, tuple) and len(s.args) == 1)
                outs.append(f"sig {s.receiver_seqnr} {s.args[0]}" if ok else f"garbled {s!r}")
                trace.append(("get", s.receiver_seqnr, s.args[0] if ok else None))
            except QMI_TimeoutException:
                outs.append("timeout")
                trace.append(("get", None, None))
            except Exception as e:  # noqa
                outs.append(f"exc:{type(e).__name__}")
                trace.append(("get", "exc", type(e).__name__))
        elif op == "discard":
            rx.discard_all()
            lines.append("discard")
            outs.append("ok")
            trace.append(("discard",))
        elif op == "len":
            lines.append("len")
            n = rx.get_queue_length()
            outs.append(str(n))
            trace.append(("len", n))
        elif op == "ready":
            lines.append("ready")
            b = rx.has_signal_ready()
            outs.append("true" if b else "false")
            trace.append(("ready", b))
    return lines, outs, trace


def _oracle(cap: int, pol: str, trace, payload_base: int = 0):
    """The property, evaluated directly on an implementation trace.  Returns a clause name or None.

    A reference bounded FIFO with a global arrival counter is kept alongside (that *is* the statement:
    oldest first, at most `cap`, drop per policy, every arrival consumes one number)."""
    q = []        # arrival numbers expected in the queue
    n = 0         # arrivals so far
    last = -1
    for ev in trace:
        if ev[0] == "recv":
            if len(q) == cap:
                if pol == "old":
                    q.pop(0)
                    q.append(n)
            else:
                q.append(n)
            n += 1
            if ev[2] > cap:
                return "holds-more-than-maximum"
            if ev[2] != len(q):
                return "drop-policy" if len(q) == cap else "queue-length"
        elif ev[0] == "get":
            if ev[1] == "exc":
                return "unexpected-exception"
            if ev[1] is None:
                if q:
                    return "timeout-although-signal-queued"
                continue
            if not q:
                return "signal-from-empty-queue"
            seq, tag = ev[1], ev[2]
            if tag is None:
                return "payload-altered"
            if seq <= last:
                return "sequence-not-increasing"
            if tag - payload_base != seq:
                return "gap-not-equal-to-losses"       # the k-th arrival must carry number k
            exp = q.pop(0)
            if seq != exp:
                return "not-oldest-first" if seq in q else "drop-policy"
            last = seq
        elif ev[0] == "discard":
            q.clear()
        elif ev[0] == "len":
            if ev[1] > cap:
                return "holds-more-than-maximum"
            if ev[1] != len(q):
                return "queue-length"
        elif ev[0] == "ready":
            if ev[1] != (len(q) != 0):
                return "ready-flag"
    return None


def _shrink(cap, pol, ops, bad):
    """Greedy removal of ops while `bad(cap, pol, ops)` stays true."""
    ops = list(ops)
    changed = True
    while changed:
        changed = False
        i = 0
        while i < len(ops):
            cand = ops[:i] + ops[i + 1:]
            if cand and bad(cap, pol, cand):
                ops = cand
                changed = True
            else:
                i += 1
    return ops


def _blocking_release(cap: int, pol: str, prefill: int, timeout):
    """A reader blocked in get_next_signal(timeout) is released by the next arrival and gets that arrival."""
    from qmi.core.pubsub import QMI_SignalReceiver, QMI_SignalMessage
    from qmi.core.messaging import QMI_MessageHandlerAddress
    policy = QMI_SignalReceiver.DISCARD_OLD if pol == "old" else QMI_SignalReceiver.DISCARD_NEW
    rx = QMI_SignalReceiver(max_queue_length=cap, discard_policy=policy)
    src = QMI_MessageHandlerAddress("ctxP", "pub")
    dst = QMI_MessageHandlerAddress("ctxR", "$pubsub")
    for i in range(prefill):
        rx._receive_signal(QMI_SignalMessage(src, dst, "sig", (i,)))
    rx.discard_all()
    box = {}

    def reader():
        try:
            box["sig"] = rx.get_next_signal(timeout=timeout)
        except BaseException as e:  # noqa
            box["exc"] = e

    th = threading.Thread(target=reader, daemon=True)
    th.start()
    deadline = time.monotonic() + 5
    while time.monotonic() < deadline and not rx._queue_cond._waiters:
        time.sleep(0.0005)
    t0 = time.monotonic()
    rx._receive_signal(QMI_SignalMessage(src, dst, "sig", (prefill,)))
    th.join(5)
    dt = time.monotonic() - t0
    if th.is_alive():
        return "blocked-reader-not-released"
    if "exc" in box:
        return f"blocked-reader-raised-{type(box['exc']).__name__}"
    s = box["sig"]
    if s.receiver_seqnr != prefill or s.args != (prefill,):
        return "blocked-reader-wrong-signal"
    if dt > 2.0:
        return "blocked-reader-released-late"
    return None


def _multi_reader(seed, n_readers: int, per_reader: int, cap: int, pol: str):
    """Several readers blocked in get_next_signal(None) and one publisher, under the deterministic scheduler:
    every reader must be handed a signal as soon as one is queued (no reader stays parked while signals wait)."""
    from harness.simworld import run_scenario
    from harness import detsched as D
    from qmi.core.pubsub import QMI_SignalReceiver, QMI_SignalMessage
    from qmi.core.messaging import QMI_MessageHandlerAddress
    got = []
    total = n_readers * per_reader

    def body(w):
        policy = QMI_SignalReceiver.DISCARD_OLD if pol == "old" else QMI_SignalReceiver.DISCARD_NEW
        rx = QMI_SignalReceiver(max_queue_length=cap, discard_policy=policy)
        src = QMI_MessageHandlerAddress("ctxP", "pub")
        dst = QMI_MessageHandlerAddress("ctxR", "$pubsub")

        def reader():
            for _ in range(per_reader):
                s = rx.get_next_signal(timeout=None)
                got.append(s.receiver_seqnr)

        def publisher():
            for i in range(total):
                # never overrun the queue: the scenario is about wake-ups, not about drops
                while rx.get_queue_length() >= cap:
                    D.SCHED.yield_point("pub.backoff", blocked_on=lambda: len(rx._queue) < cap)
                rx._receive_signal(QMI_SignalMessage(src, dst, "sig", (i,)))
        ths = [w.spawn(reader, f"reader{i}") for i in range(n_readers)] + [w.spawn(publisher, "publisher")]
        for t in ths:
            t.join()
        return True

    out = run_scenario(seed, body, policy="pct" if hash(str(seed)) % 2 else "weighted", max_steps=20000)
    if out.deadlock:
        return "reader-parked-although-signal-queued", sorted(got)
    if out.error is not None or out.budget:
        return f"multi-reader-harness:{type(out.error).__name__ if out.error else 'budget'}", sorted(got)
    if sorted(got) != list(range(total)):
        return "readers-got-wrong-signals", sorted(got)
    return None, sorted(got)


class C09(Prop):
    id = "C09"
    lean_modules = ["QmiModel.Props.C09"]
    driver = "drv_c09"
    modelled_not_verified = [
        "threading.Condition: blocking get_next_signal (one reader with real threads; several readers + publisher under the "
        "deterministic scheduler) is exercised by the harness, not part of the sequential Lean model (the wait/notify protocol is C11's model)",
        "collections.deque(maxlen) semantics (model: dequeAppend; differentially checked here)",
    ]

    def _differential(self, ctx: Ctx, n_scen: int, max_ops: int, res: Result):
        drv = LeanDriver(self.driver)
        all_lines, all_outs, spans = [], [], []
        for i in range(n_scen):
            cap, pol, ops = _gen_scenario(ctx.rng, max_ops)
            base = ctx.rng.choice([0, 0, 1000, 7])
            lines, outs, trace = _run_impl(cap, pol, ops, base)
            spans.append((len(all_lines), len(lines), cap, pol, ops, base, trace))
            all_lines += lines
            all_outs += outs
            drops = sum(1 for j, e in enumerate(trace) if e[0] == "recv" and j > 0 and e[2] == cap)
            res.note_case((cap, pol, tuple(ops)), nontrivial=("recv" in ops and "get" in ops))
            res.count(f"policy_{pol}")
            res.count("cap_1_4" if cap <= 4 else "cap_5_plus")
            res.count("ops_total", len(ops))
            res.count("scenarios_reaching_full_queue", 1 if drops else 0)
            for e in trace:
                res.count("op_" + e[0])
                if e[0] == "get" and e[1] is None:
                    res.count("get_timeouts")
            if i < 3:
                res.sample({"cap": cap, "policy": pol, "ops": ops[:40], "impl_out": outs[1:41]})
            # property oracle directly on the implementation trace
            clause = _oracle(cap, pol, trace, base)
            if clause and sum(1 for f in res.failures if f.replay.get("pre") == clause) < 2:
                small = _shrink(cap, pol, ops, lambda c, p, o: _oracle(c, p, _run_impl(c, p, o, base)[2], base) is not None)
                clause2 = _oracle(cap, pol, _run_impl(cap, pol, small, base)[2], base)
                res.failures.append(Failure(
                    signature=f"queue:{clause2}",
                    summary=f"receiver(cap={cap}, policy={pol}) ops={small}: {clause2}",
                    replay={"kind": "ops", "cap": cap, "policy": pol, "ops": small, "base": base, "pre": clause}))
        model = drv.run(all_lines)
        res.traces_validated += n_scen
        k = diff_streams(all_lines, all_outs, model)
        if k is not None:
            for (start, ln, cap, pol, ops, base, trace) in spans:
                if start <= k < start + ln:
                    res.broken.append(Broken(
                        "correspondence", "RecvQueue.step vs QMI_SignalReceiver",
                        f"line {k - start}: op={all_lines[k]!r} impl={all_outs[k]!r} model={model[k]!r}",
                        case={"cap": cap, "policy": pol, "ops": ops, "base": base}))
                    break

    def correspondence(self, ctx: Ctx) -> Result:
        res = Result(rule="scenario = (capacity, policy, op list) generated from the seeded PRNG with bursts around the "
                          "capacity; non-trivial = contains both arrivals and reads; distinct by (cap, policy, ops)")
        self._differential(ctx, ctx.scale(20000, 400000), ctx.scale(60, 120), res)
        # blocking reads released by an arrival (real threads)
        for cap in ([1, 3] if ctx.quick else [1, 2, 3, 8]):
            for pol in ("old", "new"):
                for timeout in (None, 30.0):
                    c = _blocking_release(cap, pol, ctx.rng.randint(0, 2 * cap), timeout)
                    res.note_case(("block", cap, pol, timeout))
                    res.count("blocking_release_cases")
                    if c:
                        res.failures.append(Failure(f"queue:{c}", f"blocked reader cap={cap} {pol} timeout={timeout}: {c}",
                                                    {"kind": "block", "cap": cap, "policy": pol, "timeout": timeout}))
        # several blocked readers + a publisher under the deterministic scheduler (all interleavings sampled)
        seen = set()
        for i in range(ctx.scale(300, 6000)):
            nr, per, cap, pol = ctx.rng.choice([2, 2, 3]), ctx.rng.choice([1, 2]), ctx.rng.choice([1, 2, 4]), ctx.rng.choice(["old", "new"])
            c, got = _multi_reader(f"{ctx.seed}:{i}", nr, per, cap, pol)
            res.note_case(("multi", nr, per, cap, pol, i % 50))
            res.count("multi_reader_runs")
            if c and c not in seen:
                seen.add(c)
                res.failures.append(Failure(f"queue:{c}", f"{nr} blocked readers x {per} reads, cap={cap} {pol}: {c} (delivered {got})",
                                            {"kind": "multi", "seed": f"{ctx.seed}:{i}", "readers": nr, "per": per, "cap": cap, "policy": pol}))
        return res

    def search(self, ctx: Ctx, broken) -> Result:
        res = Result()
        # replay the disagreeing cases first, then a systematic sweep: all op strings up to length L for small caps
        for b in broken:
            if b.case and "ops" in b.case:
                c = b.case
                clause = _oracle(c["cap"], c["policy"], _run_impl(c["cap"], c["policy"], c["ops"], c["base"])[2], c["base"])
                res.note_case(("case", repr(c)))
                if clause:
                    res.failures.append(Failure(f"queue:{clause}", f"{c}: {clause}", {"kind": "ops", **c}))
        import itertools
        L = 7
        for cap in (1, 2, 3):
            for pol in ("old", "new"):
                for n in range(1, L + 1):
                    for ops in itertools.product(["recv", "get", "discard", "len"], repeat=n):
                        clause = _oracle(cap, pol, _run_impl(cap, pol, ops)[2])
                        res.note_case((cap, pol, ops))
                        if clause:
                            res.failures.append(Failure(f"queue:{clause}", f"cap={cap} {pol} ops={list(ops)}: {clause}",
                                                        {"kind": "ops", "cap": cap, "policy": pol, "ops": list(ops), "base": 0}))
                            return res
        return res

    def replay(self, ctx: Ctx, rp: dict):
        if rp.get("kind") == "multi":
            c, _ = _multi_reader(rp["seed"], rp["readers"], rp["per"], rp["cap"], rp["policy"])
        elif rp.get("kind") == "block":
            c = _blocking_release(rp["cap"], rp["policy"], 1, rp["timeout"])
        else:
            c = _oracle(rp["cap"], rp["policy"], _run_impl(rp["cap"], rp["policy"], rp["ops"], rp.get("base", 0))[2], rp.get("base", 0))
        return Failure(f"queue:{c}", f"{rp}: {c}", rp) if c else None


PROP = C09()
