"""C08 — subscription state stays consistent through removal and disconnects.

Model: lean/QmiModel/Model/PubSub.lean; theorems: Props/C08.lean.
Tie: histories of steps on 2–3 real contexts over the simulated network under the deterministic scheduler.  A step runs
a "main lane" (remove_rpc_object / make_rpc_object / connect_to_peer / disconnect_from_peer / stop, in the context's
own thread) concurrently with subscriber lanes (subscribe / unsubscribe sequences in other managed threads).  After
every step the harness drains to quiescence, reads both tables of every live SignalManager, and publishes one probe
per (publisher, signal).  The whole log is replayed on the Lean model (trace refinement incl. table dumps); the
property oracle uses the real tables, the probe deliveries and the call outcomes only.
"""
from __future__ import annotations

import json
import random

from harness.core import Ctx, Failure, Broken, LeanDriver, Prop, Result

CTXS = ["P", "PA", "B"]
SIGS = ["sa", "sa2"]          # one signal name is a proper prefix of the other
NAME_FAMILIES = [
    (("pm1", "pm10", "pm"), ("sa", "sa2")),                 # prefixes among objects and among signals
    (("sensor", "sensors", "sens"), ("status", "sensor")),  # signal starts with characters of the object name / equals it
    (("adc", "adc2", "ad"), ("data", "adc")),
    (("laser", "laser_2", "las"), ("error", "relas")),      # all characters of the signal occur in the object name
    (("a", "aa", "ab"), ("aa", "ba")),                      # a/aa, ab/ba
    (("P", "PA", "B"), ("PA", "P_B")),                      # object and signal names equal to / containing context names
    (("pub1", "pub11", "pub"), ("sig1", "pub1sig")),
]
# who connects to whom (client -> servers)
LINKS = {"P": [], "PA": ["P"], "B": ["P", "PA"]}


# ---------------------------------------------------------------------------
# history generation (pure data)
# ---------------------------------------------------------------------------

def gen_spec(rng: random.Random, big: bool) -> dict:
    nctx = rng.choice([2, 2, 3])
    ctxs = CTXS[:nctx]
    # object names with prefix relations (pm < pm1 < pm10): the key selection of handle_object_removed and
    # handle_peer_context_removed is a string-prefix test
    # name families: (object names o1, o2, o3; signal names).  Besides prefix relations, signal names share leading
    # characters / whole prefixes / all characters with the object name and with the context names, are equal to it,
    # or contain it (string functions that work on character sets or prefixes must not confuse them)
    fam = rng.choice(NAME_FAMILIES)
    (o1, o2, o3) = fam[0]
    sigs = list(fam[1])
    objs = {"P": [o1, o2] + ([o3] if rng.random() < 0.4 else [])}
    if nctx == 3 and rng.random() < 0.5:
        objs["PA"] = [o1]
    # every kind of publisher the API offers: RPC object / instrument with signals, task (make_task), object without signals
    kinds = {f"{c}.{o}": rng.choice(["obj", "obj", "task", "task", "inst", "plain"]) for c, os_ in objs.items() for o in os_}
    nrcv = rng.randint(2, 5)
    rcvs = [rng.choice(ctxs[1:] if rng.random() < 0.8 else ctxs) for _ in range(nrcv)]
    live_ctx = set(ctxs)
    live_obj = {(c, o) for c, os_ in objs.items() for o in os_}
    # who may connect to whom: the base chain plus reverse directions (both directions between a pair, rings)
    links = {a: [p for p in LINKS[a] if p in ctxs] for a in ctxs}
    for a in ctxs:
        for p in LINKS[a]:
            if p in ctxs and rng.random() < 0.4:
                links[p].append(a)
    LINKS_ = links
    conns = {(a, p) for a in ctxs for p in LINKS_[a]}
    subd = set()           # (r, pc, pn, sg) the generator believes subscribed
    steps = []
    nsteps = rng.randint(3, 10 if big else 7)
    for si in range(nsteps):
        main, lanes = [], []
        x = rng.random()
        pubs_all = sorted(live_obj)
        if x < 0.22 and pubs_all:
            (c, o) = rng.choice(pubs_all)
            main.append(["rm", c, o])
            live_obj.discard((c, o))
            subd = {s for s in subd if not (s[1] == c and s[2] == o)}
            removed_now = (c, o)
        else:
            removed_now = None
        if 0.22 <= x < 0.34:
            dead = sorted({(c, o) for c, os_ in objs.items() for o in os_ if c in live_ctx} - live_obj)
            if dead:
                (c, o) = rng.choice(dead)
                main.append(["mk", c, o])
                live_obj.add((c, o))
        if 0.34 <= x < 0.46 and conns:
            (a, p) = rng.choice(sorted(conns))
            main.append(["disconnect", a, p])
            conns.discard((a, p))
            subd = {s for s in subd if not (rcvs[s[0]] == a and s[1] == p)}
        if 0.46 <= x < 0.56:
            cand = sorted({(a, p) for a in live_ctx for p in LINKS_[a] if p in live_ctx} - conns)
            if cand:
                (a, p) = rng.choice(cand)
                main.append(["connect", a, p])
                conns.add((a, p))
        if 0.56 <= x < 0.62 and si >= 2 and len(live_ctx) > 1:
            c = rng.choice(sorted(live_ctx))
            main.append(["stop", c])
            live_ctx.discard(c)
            live_obj = {(cc, o) for (cc, o) in live_obj if cc != c}
            conns = {(a, p) for (a, p) in conns if a != c and p != c}
            subd = {s for s in subd if s[1] != c and rcvs[s[0]] != c}
        # subscriber lanes: each receiver touched by at most one lane in this step
        nl = rng.randint(1, 3)
        free = [r for r in range(nrcv) if rcvs[r] in live_ctx or rng.random() < 0.1]
        rng.shuffle(free)
        for li in range(nl):
            mine = free[li::nl]
            ops = []
            for _ in range(rng.randint(1, 5)):
                if not mine:
                    break
                r = rng.choice(mine)
                a = rcvs[r]
                if a not in live_ctx:
                    continue
                y = rng.random()
                # publishers this receiver's context can name: its own and those of its servers (connected or not)
                targets = [(c, o) for c, os_ in objs.items() for o in os_ if c == a or c in LINKS_[a]]
                if removed_now is not None and rng.random() < 0.5 and (removed_now[0] == a or removed_now[0] in LINKS_[a]):
                    targets = [removed_now]          # race a subscribe against the removal of that very publisher
                if y < 0.08:
                    pc = rng.choice([a] + [p for p in LINKS_[a]])
                    ops.append(["subghost", r, pc])
                    continue
                if not targets:
                    continue
                (pc, pn) = rng.choice(targets)
                sg = rng.choice(sigs)
                key = (r, pc, pn, sg)
                if key in subd and y < 0.75:
                    ops.append(["unsub", r, pc, pn, sg, rng.choice([0, 1, 3])])
                    subd.discard(key)
                    if rng.random() < 0.35:      # re-subscribe at once: the unsubscribe request may still be pending
                        ops.append(["sub", r, pc, pn, sg, rng.choice([0, 1, 3])])
                        subd.add(key)
                elif key not in subd:
                    ops.append(["sub", r, pc, pn, sg, rng.choice([0, 1, 3])])
                    subd.add(key)
                if rng.random() < 0.3:
                    ops.append(["pause", rng.randint(1, 5)])
            if ops:
                lanes.append(ops)
        if main or lanes:
            steps.append({"main": main, "lanes": lanes})
    return {"ctxs": ctxs, "objs": objs, "sigs": sigs, "kinds": kinds, "rcvs": rcvs, "links": links, "steps": steps, "policy": rng.choice(["weighted", "pct", "pct"])}


# ---------------------------------------------------------------------------
# running a history on the real code
# ---------------------------------------------------------------------------

class StepViolation(Exception):
    def __init__(self, clause, detail):
        super().__init__(clause)
        self.clause, self.detail = clause, detail


def run_c08(seed, spec: dict, change_points=None, trace_handler: bool = False, pct_depth: int = 2):
    from harness.simworld import run_scenario
    from harness.props import pubsub_common as PC
    from harness import core
    core.ensure_repo_on_path()
    box = {}

    def body(w):
        from qmi.core.pubsub import QMI_SignalReceiver, QMI_Signal
        from qmi.core.rpc import QMI_RpcObject
        from qmi.core.exceptions import QMI_SignalSubscriptionException
        from harness import detsched as D
        random.seed(f"c08:{seed}")

        from qmi.core.instrument import QMI_Instrument
        from qmi.core.task import QMI_Task

        sig_names = spec.get("sigs") or SIGS
        decl = {sg: QMI_Signal([int]) for sg in sig_names}
        Pub = type("Pub", (QMI_RpcObject,), dict(decl))                       # plain RPC object with signals
        PubInstr = type("PubInstr", (QMI_Instrument,), dict(decl))            # instrument with signals
        # task: signals declared on the task class, registered as a QMI_TaskRunner
        PubTask = type("PubTask", (QMI_Task,), dict(decl, run=lambda self: None))

        class Plain(QMI_RpcObject):               # object without signals (subscriptions by name are still possible)
            pass

        kinds = spec.get("kinds") or {}

        def make(c, o):
            k = kinds.get(f"{c}.{o}", "obj")
            if k == "task":
                return ctxs[c].make_task(o, PubTask)
            if k == "inst":
                return ctxs[c].make_instrument(o, PubInstr)
            if k == "plain":
                return ctxs[c].make_rpc_object(o, Plain)
            return ctxs[c].make_rpc_object(o, Pub)

        tr = PC.Tracer(w)
        box["tr"] = tr
        viol = []
        box["viol"] = viol
        with tr.installed():
            ctxs = {}
            for n in spec["ctxs"]:
                ctxs[n] = w.context(n, server=True)
                tr.attach_context(ctxs[n])
            tr.active = True
            live = set(spec["ctxs"])
            conns = set()
            links = spec.get("links") or LINKS
            for a in spec["ctxs"]:
                for p in links[a]:
                    if p in ctxs:
                        w.connect(ctxs[a], ctxs[p])
                        conns.add((a, p))
            proxies = {}
            for c, os_ in spec["objs"].items():
                for o in os_:
                    proxies[(c, o)] = make(c, o)
            rcvs = []
            for cn in spec["rcvs"]:
                r = QMI_SignalReceiver(max_queue_length=100000)
                tr.attach_receiver(ctxs[cn], r)
                rcvs.append(r)
            consumed = [0] * len(rcvs)
            expected = set()          # (r, pc, pn, sg): reference semantics of the API calls that returned
            uid = [0]
            all_objs = sorted({o for os_ in spec["objs"].values() for o in os_} | {"ghost"})

            def check_quiescent(si, step):
                """oracle, part 1: tables of the real SignalManagers at quiescence"""
                racing_rm = [m for m in step["main"] if m[0] == "rm"]

                def tag_for(pname, ob, sg):
                    """':remove-racing-subscribe' iff the inconsistent key belongs to the object removed in this very step
                    and a subscribe to exactly that (object, signal) was racing with the removal"""
                    for (_, c, o) in racing_rm:
                        if c == pname and tr.oid(o) == ob and any(
                                op[0] == "sub" and op[2] == c and op[3] == o and tr.sid(op[4]) == sg
                                for lane in step["lanes"] for op in lane):
                            return ":remove-racing-subscribe"
                    return ""

                def tag_stale(pname, ob, sg):
                    """':stale-removal-notice' iff the leaked key belongs to an object that was removed AND created again in
                    this very step while a lane re-subscribed to exactly that (object, signal): the removal notice of the old
                    incarnation can meet the pending request for the new one"""
                    recreated = {(m[1], m[2]) for m in step["main"] if m[0] == "mk"}
                    for (_, c, o) in racing_rm:
                        if c == pname and tr.oid(o) == ob and (c, o) in recreated and any(
                                op[0] == "sub" and op[2] == c and op[3] == o and tr.sid(op[4]) == sg
                                for lane in step["lanes"] for op in lane):
                            return ":stale-removal-notice"
                    return ""
                tag = ""
                tabs = {}
                for n in sorted(live):
                    c = tr.cid(n)
                    loc, rem, pend, problems = tr.real_tables(c)
                    tabs[n] = (loc, rem)
                    if pend:
                        raise StepViolation("pending-request-left-at-quiescence", f"step {si}: context {n} still has pending requests {pend}")
                    for pr in problems:
                        raise StepViolation("table-malformed:" + pr.split(":")[0], f"step {si}: context {n}: {pr}")
                for a in sorted(live):
                    ca = tr.cid(a)
                    (loc_a, _) = tabs[a]
                    for (pc, ob, sg), rs in loc_a.items():
                        if pc % 2 == 1:
                            raise StepViolation("local-subscription-on-alias", f"step {si}: {a} has local key with alias {pc}")
                        pname = [k for k, v in tr.ctx_ids.items() if v == pc // 2][0]
                        if pname == a:
                            continue
                        ok_conn = (a, pname) in conns and pname in live
                        if not ok_conn:
                            raise StepViolation("local-subscription-without-connection" + tag,
                                                f"step {si}: {a} keeps receivers {rs} on {pname}.{ob}.{sg} but is not connected to {pname}")
                    for p in sorted(live):
                        if p == a or (a, p) not in conns:
                            continue
                        cp = tr.cid(p)
                        (_, rem_p) = tabs[p]
                        # the alias under which p knows a: the connection a->p that is registered at a
                        sockm = ctxs[a]._message_router._socket_manager
                        conn = sockm._peer_context_map.get(p) if sockm is not None else None
                        cn = tr.conn_of.get(id(conn), (None, None))[0] if conn is not None else None
                        keys = {(ob, sg) for (pc, ob, sg) in loc_a if pc == 2 * cp} | set(rem_p)
                        for (ob, sg) in sorted(keys):
                            has_local = bool(loc_a.get((2 * cp, ob, sg)))
                            has_remote = cn is not None and (2 * cn + 1) in rem_p.get((ob, sg), [])
                            if has_local and not has_remote:
                                raise StepViolation("subscriber-listens-but-publisher-does-not-transmit" + tag_for(p, ob, sg),
                                                    f"step {si}: {a} has receivers {loc_a[(2 * cp, ob, sg)]} on {p}.obj{ob}.sig{sg} "
                                                    f"but {p} has no remote subscription for {a}")
                            if has_remote and not has_local:
                                raise StepViolation("publisher-transmits-but-nobody-listens" + (tag or tag_stale(p, ob, sg)),
                                                    f"step {si}: {p} keeps {a} as remote subscriber of obj{ob}.sig{sg} but {a} has no receiver")
                for p in sorted(live):
                    (_, rem_p) = tabs[p]
                    cp = tr.cid(p)
                    live_aliases = set()
                    sockm = ctxs[p]._message_router._socket_manager
                    for al, conn in (sockm._peer_context_map.items() if sockm is not None else []):
                        if al.startswith("$client_"):
                            live_aliases.add(tr.peercode(cp, al))
                    for (ob, sg), ps in rem_p.items():
                        for pcode in ps:
                            if pcode not in live_aliases:
                                raise StepViolation("remote-subscriber-without-connection" + tag,
                                                    f"step {si}: {p} keeps peer code {pcode} as subscriber of obj{ob}.sig{sg} without a connection")
                # the reference semantics of the calls: who must be subscribed now
                for a in sorted(live):
                    (loc_a, _) = tabs[a]
                    ca = tr.cid(a)
                    have = set()
                    for (pc, ob, sg), rs in loc_a.items():
                        for r in rs:
                            have.add((r, pc, ob, sg))
                    want = {(r, 2 * tr.cid(pc), tr.oid(pn), tr.sid(sg)) for (r, pc, pn, sg) in expected if spec["rcvs"][r] == a}
                    if have - want:
                        (r, pc, ob, sg) = sorted(have - want)[0]
                        raise StepViolation("subscription-survives" + tag, f"step {si}: receiver {r} of {a} is still subscribed to ctx{pc // 2}.obj{ob}.sig{sg} "
                                            f"although it was unsubscribed / its publisher removed / its connection closed")
                    if want - have:
                        (r, pc, ob, sg) = sorted(want - have)[0]
                        raise StepViolation("subscription-lost" + tag, f"step {si}: receiver {r} of {a} subscribed to ctx{pc // 2}.obj{ob}.sig{sg} (call returned) "
                                            f"but is not in the table")

            def probe(si):
                """oracle, part 2: one publication per live (publisher, signal); who gets it, who is it transmitted to"""
                probes = {}
                for (c, o) in sorted(proxies):
                    if c not in live or proxies[(c, o)] is None:
                        continue
                    for sg in sig_names:
                        uid[0] += 1
                        probes[uid[0]] = (c, o, sg)
                        ctxs[c].publish_signal(o, sg, uid[0])
                PC.drain(w, 2)
                got = {}
                for r, rcv in enumerate(rcvs):
                    q = list(rcv._queue)
                    for s in q[consumed[r]:]:
                        u = s.args[0]
                        if u in got.setdefault(r, set()):
                            raise StepViolation("probe-delivered-twice", f"step {si}: receiver {r} got probe {u} twice")
                        got[r].add(u)
                        pr = probes.get(u)
                        if pr is None or (s.publisher_context, s.publisher_name, s.signal_name) != pr:
                            raise StepViolation("probe-misrouted", f"step {si}: receiver {r} got {s!r}")
                    consumed[r] = len(q)
                tx = {}
                for e in tr.events:
                    if e[1] == "tx" and e[3] in probes:
                        tx.setdefault(e[3], set()).add((e[2], e[4]))
                for u, (c, o, sg) in probes.items():
                    want = {r for (r, pc, pn, sgg) in expected if (pc, pn, sgg) == (c, o, sg) and spec["rcvs"][r] in live}
                    have = {r for r in got if u in got[r]}
                    if want - have:
                        r = sorted(want - have)[0]
                        raise StepViolation("subscribed-receiver-misses-publication", f"step {si}: receiver {r} ({spec['rcvs'][r]}) is subscribed to {c}.{o}.{sg} but did not get a later publication")
                    if have - want:
                        r = sorted(have - want)[0]
                        raise StepViolation("unsubscribed-receiver-gets-publication", f"step {si}: receiver {r} ({spec['rcvs'][r]}) is not subscribed to {c}.{o}.{sg} but got a later publication")
                    want_ctx = {spec["rcvs"][r] for r in want if spec["rcvs"][r] != c}
                    ntx = len(tx.get(u, set()))
                    if ntx != len(want_ctx):
                        raise StepViolation("transmits-to-wrong-peer-set", f"step {si}: {c}.{o}.{sg} was transmitted to {ntx} peers, {len(want_ctx)} contexts have a subscribed receiver")

            def run_lane(ops, results):
                def fn():
                    for op in ops:
                        if op[0] == "pause":
                            for _ in range(op[1]):
                                w.sched.yield_point("pause")
                            continue
                        if op[0] == "subghost":
                            (_, r, pc) = op
                            c = ctxs[spec["rcvs"][r]]
                            try:
                                c.subscribe_signal(pc, "ghost", "sa", rcvs[r])
                                results.append((op, None))
                            except D.SchedAbort:
                                raise
                            except BaseException as e:  # noqa
                                results.append((op, e))
                            continue
                        (kind, r, pc, pn, sg) = op[:5]
                        v = op[5] if len(op) > 5 else 0
                        c = ctxs[spec["rcvs"][r]]
                        # spelling of the call: "" for the local context (v = 1), SignalManager directly (v = 3)
                        spelled = "" if (v == 1 and pc == spec["rcvs"][r]) else pc
                        target = c._signal_manager if v == 3 else c
                        try:
                            if kind == "sub":
                                target.subscribe_signal(spelled, pn, sg, rcvs[r])
                            else:
                                target.unsubscribe_signal(spelled, pn, sg, rcvs[r])
                            results.append((op, None))
                        except D.SchedAbort:
                            raise
                        except BaseException as e:  # noqa
                            results.append((op, e))
                return fn

            try:
                PC.drain(w, 1)
                for si, step in enumerate(spec["steps"]):
                    results = []
                    ths = [w.spawn(run_lane(ops, results), f"lane{i}") for i, ops in enumerate(step["lanes"])]
                    for m in step["main"]:
                        if m[0] == "rm":
                            (_, c, o) = m
                            if proxies.get((c, o)) is not None and c in live:
                                ctxs[c].remove_rpc_object(proxies[(c, o)])
                                proxies[(c, o)] = None
                        elif m[0] == "mk":
                            (_, c, o) = m
                            if proxies.get((c, o)) is None and c in live:
                                proxies[(c, o)] = make(c, o)
                        elif m[0] == "connect":
                            (_, a, p) = m
                            if a in live and p in live and (a, p) not in conns:
                                w.connect(ctxs[a], ctxs[p])
                                conns.add((a, p))
                        elif m[0] == "disconnect":
                            (_, a, p) = m
                            if a in live and (a, p) in conns:
                                ctxs[a].disconnect_from_peer(p)
                                conns.discard((a, p))
                        elif m[0] == "stop":
                            (_, c) = m
                            if c in live:
                                ctxs[c].stop()
                                live.discard(c)
                    for t in ths:
                        t.join()
                        if t.exc is not None:
                            raise StepViolation("lane-died:" + type(t.exc).__name__, repr(t.exc))
                    PC.drain(w, 2)
                    # -- reference semantics of what returned -------------------------------------------------
                    for (op, exc) in results:
                        if op[0] == "subghost":
                            if not isinstance(exc, QMI_SignalSubscriptionException):
                                raise StepViolation("subscribe-to-missing-publisher-did-not-fail",
                                                    f"step {si}: subscribe to {op[2]}.ghost: {exc!r}")
                            continue
                        (kind, r, pc, pn, sg) = op[:5]
                        if kind == "sub" and exc is not None and not isinstance(exc, QMI_SignalSubscriptionException):
                            raise StepViolation("subscribe-raised:" + type(exc).__name__, f"step {si}: {op}: {exc!r}")
                        if kind == "unsub" and exc is not None:
                            raise StepViolation("unsubscribe-raised:" + type(exc).__name__, f"step {si}: {op}: {exc!r}")
                    # each (receiver, key) is touched by one lane only, so the completion order is the call order per key
                    for (op, exc) in results:
                        if op[0] in ("sub", "unsub"):
                            (kind, r, pc, pn, sg) = op[:5]
                            if kind == "unsub" or exc is not None:
                                expected.discard((r, pc, pn, sg))
                            else:
                                expected.add((r, pc, pn, sg))
                    for m in step["main"]:
                        if m[0] == "rm":
                            keep = set()
                            if any(mm[0] == "mk" and mm[1:] == m[1:] for mm in step["main"]):
                                # removed and created again within this step: a subscribe that returned may have been served by
                                # the new incarnation; the table of the receiver's own context says whether it was
                                for (op, exc) in results:
                                    if op[0] == "sub" and exc is None and op[2] == m[1] and op[3] == m[2] and spec["rcvs"][op[1]] in live:
                                        loc_a = tr.real_tables(tr.cid(spec["rcvs"][op[1]]))[0]
                                        if op[1] in loc_a.get((2 * tr.cid(op[2]), tr.oid(op[3]), tr.sid(op[4])), []):
                                            keep.add((op[1], op[2], op[3], op[4]))
                            expected = {e for e in expected if not (e[1] == m[1] and e[2] == m[2]) or e in keep}
                        elif m[0] == "disconnect":
                            expected = {e for e in expected if not (spec["rcvs"][e[0]] == m[1] and e[1] == m[2])}
                        elif m[0] == "stop":
                            expected = {e for e in expected if e[1] != m[1] and spec["rcvs"][e[0]] != m[1]}
                    # a subscribe can only succeed on a live, connected, existing publisher
                    expected = {e for e in expected if e[1] in live and spec["rcvs"][e[0]] in live
                                and proxies.get((e[1], e[2])) is not None
                                and (e[1] == spec["rcvs"][e[0]] or (spec["rcvs"][e[0]], e[1]) in conns)}
                    # -- model: tables + quiescence -------------------------------------------------------------
                    tr.note_keys(spec["ctxs"], all_objs, sig_names)
                    for n in sorted(live):
                        tr.dump(tr.cid(n))
                    tr.emit(f"quiet {len(spec['ctxs'])}", "quiet")
                    check_quiescent(si, step)
                    probe(si)
                    for n in sorted(live):
                        tr.dump(tr.cid(n))
            except StepViolation as sv:
                viol.append((sv.clause, sv.detail))
            for r in range(len(rcvs)):
                tr.got(r)
            tr.active = False
            return True

    from qmi.core.pubsub import SignalManager
    tf = [SignalManager._handle_subscription_request] if trace_handler else ()
    out = run_scenario(seed, body, policy=spec.get("policy", "weighted"), change_points=change_points, trace_funcs=tf,
                       max_steps=400000, pct_depth=pct_depth)
    return out, box.get("tr"), box.get("viol", [])


def verdict(out, viol) -> list:
    """(clause, detail) list of one run: oracle violations found during the run + liveness"""
    bad = list(viol)
    if out.deadlock:
        who = "subscribe" if "event.wait" in out.deadlock else "other"
        bad.append((f"blocks-forever:{who}", out.deadlock[:300]))
    elif out.budget:
        bad.append(("step-budget-exceeded", ""))
    elif out.error is not None:
        bad.append(("scenario-error:" + type(out.error).__name__, repr(out.error)[:300]))
    for (name, e) in out.thread_errors:
        bad.append((f"thread-died:{type(e).__name__}", f"{name}: {e!r}"[:300]))
    if out.net is not None:
        for e in out.net.loop_exceptions:
            bad.append((f"socket-thread-exception:{type(e).__name__}", repr(e)[:300]))
    return bad


# the targeted history for DESIGN §7(l): a subscribe racing with the removal of its publisher
RACE_SPEC = {"ctxs": ["P", "PA"], "objs": {"P": ["pm1"]}, "rcvs": ["PA", "PA"],
             "steps": [{"main": [["rm", "P", "pm1"]], "lanes": [[["sub", 0, "P", "pm1", "sa"]]]},
                       {"main": [["mk", "P", "pm1"]], "lanes": []},
                       {"main": [], "lanes": [[["sub", 1, "P", "pm1", "sa"]]]}],
             "policy": "pct"}

# the targeted history for the stale removal notice: the publisher is removed and created again by one thread while the
# subscriber gives its subscription up and subscribes again; the notice of the old incarnation (sent late, when the removing
# thread is pre-empted between the lock section of handle_object_removed and send_message) can meet the pending new request
STALE_SPEC = {"ctxs": ["P", "PA"], "objs": {"P": ["pm1"]}, "rcvs": ["PA"],
              "steps": [{"main": [], "lanes": [[["sub", 0, "P", "pm1", "sa"]]]},
                        {"main": [["rm", "P", "pm1"], ["mk", "P", "pm1"]],
                         "lanes": [[["unsub", 0, "P", "pm1", "sa"], ["sub", 0, "P", "pm1", "sa"]]]}],
              "policy": "weighted"}


def resend_clears_mark():
    """Obligation tied to the source (model: `handleReplyStep`, theorems `marked_success_is_resent`, `resend_consumes_mark`): in
    `SignalManager._handle_subscription_reply` the mark `publisher_removed` of the pending request is cleared, under the
    lock, on the path on which the subscribe request is sent again - so that a further re-send needs a further removal
    notice (an action of the environment), which is the termination argument of the repeat.  Accepted shapes: the
    assignment `pending_request.publisher_removed = False` stands (a) unconditionally in the `with self._lock` block,
    after the statement that computes `retry` from the mark, or (b) in the `if` block that builds the new
    QMI_SignalSubscriptionRequest.  Anything else (e.g. clearing only when the request completes) raises."""
    import ast
    from harness.core import REPO
    tree = ast.parse((REPO / "qmi/core/pubsub.py").read_text())
    cls = next((n for n in tree.body if isinstance(n, ast.ClassDef) and n.name == "SignalManager"), None)
    fn = cls and next((n for n in cls.body if isinstance(n, ast.FunctionDef) and n.name == "_handle_subscription_reply"), None)
    if fn is None:
        raise RuntimeError("SignalManager._handle_subscription_reply not found in qmi/core/pubsub.py")
    withs = [n for n in fn.body if isinstance(n, ast.With)
             and any(isinstance(i.context_expr, ast.Attribute) and i.context_expr.attr == "_lock" for i in n.items)]
    if len(withs) != 1:
        raise RuntimeError("_handle_subscription_reply: expected one `with self._lock` block")
    body = withs[0].body

    def mentions_mark(node):
        return any(isinstance(x, ast.Attribute) and x.attr == "publisher_removed" for x in ast.walk(node))

    def clears_mark(node):
        return (isinstance(node, ast.Assign) and len(node.targets) == 1 and isinstance(node.targets[0], ast.Attribute)
                and node.targets[0].attr == "publisher_removed" and isinstance(node.value, ast.Constant) and node.value.value is False)

    def builds_request(node):
        return any(isinstance(x, ast.Call) and isinstance(x.func, ast.Name) and x.func.id == "QMI_SignalSubscriptionRequest"
                   for x in ast.walk(node))

    uses = [i for i, st in enumerate(body) if mentions_mark(st) and not clears_mark(st)]
    if not uses:
        return "no-mark"          # the source does not use the mark at all (tree before 3b40385): nothing to clear
    first_use = uses[0]
    resend = [i for i, st in enumerate(body) if isinstance(st, ast.If) and builds_request(st)]
    if len(resend) != 1:
        raise RuntimeError("_handle_subscription_reply: expected one `if` block that builds the repeated request")
    # (a) unconditional, after the mark has been read, not after the block that re-sends
    if any(clears_mark(st) and first_use < i < resend[0] for i, st in enumerate(body)):
        return "unconditional"
    # (b) in the block that builds the new request (top level of that block)
    if any(clears_mark(st) for st in body[resend[0]].body):
        return "in-resend-block"
    where = [ast.unparse(st.test) for st in body if isinstance(st, ast.If) and any(clears_mark(x) for x in ast.walk(st))]
    raise RuntimeError("_handle_subscription_reply: the mark `publisher_removed` is not cleared on the path that sends the subscribe "
                       "request again (model: the re-send consumes the mark, `marked_success_is_resent`); it is cleared only under: "
                       + (" ; ".join(where) if where else "nowhere"))


class C08(Prop):
    id = "C08"
    lean_modules = ["QmiModel.Props.C08"]
    driver = "drv_c08"
    modelled_not_verified = [
        "message framing / pickling (C06) and RPC traffic sharing the connections; the model carries whole pubsub messages",
        "connect_to_peer (handshake + both registrations) is one atomic model action; QMI_Context.stop is two instants (router marked "
        "inactive: sends raise at once; then `close_all` runs); "
        "a context that stops while one of *its own* threads is inside subscribe is outside the property's quantifier (DESIGN §7c)",
        "sendall fails only when the other end has closed (simulated network); request ids are fresh counters; a KeyError of "
        "_handle_subscription_reply (unknown request id) is a contained no-op",
        "quiescent consistency is PROVED for the model (quiescent_consistency: simulation onto a finite abstraction of the protocol, "
        "Lemmas/C08Proto..C08Sim10) under the hypothesis that no live context is half-way through its stop; on the implementation the "
        "oracle checks it per history (table iff in both directions, probes, transmitted peers); "
        "termination of the internal activity is PROVED for the model (activity_terminates / subscribe_terminates_along_runs: a "
        "lexicographic measure, Lemmas/C08Term1..4; the re-send is paid for by the mark of the pending request, which only a removal "
        "notice - an action of the environment - sets: resend_consumes_mark); on the implementation the source obligation "
        "`resend_clears_mark` (AST of _handle_subscription_reply) ties the clearing of the mark to the re-send path, and a run that exceeds "
        "the scheduler's step budget is reported (step-budget-exceeded)",
        "the deterministic scheduler, the simulated network and the tap layer (harness/props/pubsub_common.py)",
    ]

    def translate(self, ctx: Ctx) -> list:
        # no generated file: the obligation is a shape of the source that the model relies on; unknown shapes fail loudly
        shape = resend_clears_mark()
        ctx.log(f"source obligation: the re-send of a marked success clears the mark ({shape})")
        return []

    def _run_batch(self, ctx: Ctx, cases: list, res: Result, tag: str):
        from harness.props import pubsub_common as PC
        drv = LeanDriver(self.driver)
        all_lines, spans = [], []
        for (seed, spec, cps, th) in cases:
            out, tr, viol = run_c08(seed, spec, change_points=cps, trace_handler=th)
            case = {"seed": seed, "spec": spec, "change_points": cps, "trace_handler": th}
            if tr is None:
                res.broken.append(Broken("correspondence", "C08.harness", f"scenario did not start: {out.error!r}", case=case))
                continue
            if isinstance(out.error, PC.HarnessError):
                res.broken.append(Broken("correspondence", "C08.taps", repr(out.error), case=case))
                continue
            bad = verdict(out, viol)
            kinds = [m[0] for st in spec["steps"] for m in st["main"]]
            res.note_case(("c08", seed, json.dumps(spec, sort_keys=True), cps),
                          nontrivial=len(kinds) > 0 and any(st["lanes"] for st in spec["steps"]))
            res.count("histories_" + tag)
            res.count("steps", len(spec["steps"]))
            res.count("model_steps_replayed", len(tr.lines))
            for k in kinds:
                res.count("main_" + k)
            for st in spec["steps"]:
                for lane in st["lanes"]:
                    for op in lane:
                        res.count("lane_" + op[0])
            for l in tr.lines:
                if l.startswith("dump"):
                    res.count("table_dumps")
                elif l.startswith("eof"):
                    res.count("eof_events")
                elif l.startswith("arrive") and " rem " in l:
                    res.count("removal_notices_arrived")
            for i, l in enumerate(tr.lines):
                if l.endswith(" W") and tr.impl[i] == "ok wait-failed":
                    res.count("subscribe_failed_waits")
            if len(res.samples) < 3:
                res.sample({"seed": seed, "contexts": spec["ctxs"], "steps": spec["steps"][:3], "log_head": tr.lines[:20]})
            for (clause, detail) in bad[:1]:
                sig = f"C08:{clause}"
                if sum(1 for f in res.failures if f.signature == sig) < 1:
                    res.failures.append(Failure(sig, f"seed={seed} policy={spec['policy']} change_points={cps}: {detail}",
                                                {"kind": "c08", **case, "clause": clause}))
            if out.deadlock or out.budget or out.error is not None:
                continue
            spans.append((len(all_lines), tr, case))
            all_lines += ["init"] + tr.lines
        if not all_lines:
            return
        model = drv.run(all_lines)
        for (start, tr, case) in spans:
            mo = model[start + 1: start + 1 + len(tr.lines)]
            res.traces_validated += 1
            k = PC.compare(tr, mo)
            if k is not None and sum(1 for b in res.broken if b.stage == "correspondence") < 3:
                ctxt = "; ".join(f"{tr.lines[i]} => impl[{tr.impl[i]}] model[{mo[i]}]" for i in range(max(0, k - 4), k + 1))
                res.broken.append(Broken("correspondence", "PubSub.step vs SignalManager (trace refinement + tables)",
                                         f"log line {k}: {ctxt}", case=case))

    def _race_sweep(self, ctx: Ctx, res: Result, seeds, stride: int = 1):
        """Targeted sweep for DESIGN §7(l): priority scheduling, the demotion point swept over every line boundary of
        `_handle_subscription_request` (found by a reference run that records where the socket thread is)."""
        for seed in seeds:
            ks = self._handler_steps(seed)
            ks = ks[: (len(ks) + 1) // 2]          # the first of the two requests of the history is the racing one
            res.count("race_sweep_points", len(ks))
            n0 = len(res.failures)
            self._run_batch(ctx, [(seed, RACE_SPEC, [k], True) for k in ks[::stride]], res, "race_sweep")
            if len(res.failures) > n0:
                break                              # found once: enough (the same window at other seeds adds nothing)

    @staticmethod
    def _handler_steps(seed):
        """global step indices at which some thread sits at a line of SignalManager._handle_subscription_request"""
        from harness import detsched as D
        ks = []
        orig = D.Sched.yield_point

        def yp(self, label, *a, **k):
            if label.startswith("line:_handle_subscription_request"):
                ks.append(self.steps + 1)
            return orig(self, label, *a, **k)
        D.Sched.yield_point = yp
        try:
            run_c08(seed, RACE_SPEC, change_points=[], trace_handler=True)
        finally:
            D.Sched.yield_point = orig
        return sorted(set(ks))

    def correspondence(self, ctx: Ctx) -> Result:
        res = Result(rule="history = (contexts, publishers, receivers, steps of one main-lane operation racing with subscriber lanes, "
                          "scheduling policy) from the seeded PRNG; after each step: drain, table dump, probe publications; non-trivial = "
                          "at least one removal/connect/disconnect/stop step and one subscriber lane; distinct by (seed, history)")
        # the name alphabet first (shared with C07): the tables are keyed by "<context>.<publisher>.<signal>" strings, the model
        # by triples; the live is_valid_object_name must accept exactly what the model's validName accepts
        from harness.props import c07 as C7
        n_names, bad_names = C7.compare_name_alphabet(self.driver)
        res.count("names_compared_with_validName", n_names)
        if bad_names:
            shown = ", ".join(f"{n!r}: live {lv} model {mv}" for (n, lv, mv) in bad_names[:6])
            res.broken.append(Broken("correspondence", "PubSub.validName vs qmi.core.util.is_valid_object_name",
                                     f"{len(bad_names)} of {n_names} names judged differently, e.g. {shown}",
                                     case={"kind": "name-alphabet",
                                           "accepted_chars": [ord(c) for c in C7.newly_accepted_chars(bad_names)]}))
            return res
        n = ctx.scale(550, 5000)
        cases = [(ctx.rng.randrange(1 << 30), gen_spec(ctx.rng, not ctx.quick), None, False) for _ in range(n)]
        for i in range(0, len(cases), 50):
            self._run_batch(ctx, cases[i:i + 50], res, "random")
        # fixed histories with name families in prefix relation (pm < pm1 < pm10, sa < sa2, P < PA): removal of the
        # shorter-named object / disconnect from the shorter-named context must not touch the longer-named one
        fixed = []
        for (short, long_) in (("pm1", "pm10"), ("pm", "pm1"), ("pm", "pm10")):
            fixed.append({"ctxs": ["P", "PA", "B"], "objs": {"P": [short, long_], "PA": [long_]}, "rcvs": ["PA", "B", "B", "P"],
                          "kinds": {f"P.{short}": "task", f"P.{long_}": "inst", f"PA.{long_}": "task"},
                          "steps": [{"main": [], "lanes": [[["sub", 0, "P", long_, "sa"], ["sub", 0, "P", short, "sa"], ["sub", 0, "P", long_, "sa2"]],
                                                           [["sub", 1, "P", long_, "sa"], ["sub", 2, "PA", long_, "sa"], ["sub", 3, "P", long_, "sa2"]]]},
                                    {"main": [["rm", "P", short]], "lanes": []},
                                    {"main": [], "lanes": [[["unsub", 0, "P", long_, "sa"]], [["sub", 2, "P", long_, "sa"]]]},
                                    {"main": [["disconnect", "B", "P"]], "lanes": []},
                                    {"main": [["mk", "P", short]], "lanes": [[["sub", 0, "P", short, "sa2"]]]},
                                    {"main": [["rm", "P", long_]], "lanes": []}],
                          "policy": "weighted"})
        self._run_batch(ctx, [(ctx.rng.randrange(1 << 30), sp, None, False) for sp in fixed for _ in range(ctx.scale(2, 10))],
                        res, "prefix_names")
        # targeted sweep of the subscribe-vs-removal window (every run; this is how §7(l) is re-found)
        base = ctx.rng.randrange(1 << 20)
        self._race_sweep(ctx, res, [base + i for i in range(ctx.scale(16, 40))])
        # targeted schedules for the stale removal notice (removal + re-creation in one thread racing with unsubscribe +
        # subscribe in another): fixed seeds first (the window is hit by about 1% of the weighted schedules: 13 of the seeds
        # 0..1499 on the tree without a22664f, the first at 340), then seeded ones
        n0 = len(res.failures)
        for lo in range(0, ctx.scale(640, 2048), 64):
            self._run_batch(ctx, [(s, STALE_SPEC, None, False) for s in range(lo, lo + 64)], res, "stale_notice")
            if len(res.failures) > n0:
                break
        else:
            self._run_batch(ctx, [(ctx.rng.randrange(1 << 30), STALE_SPEC, None, False) for _ in range(ctx.scale(32, 200))],
                            res, "stale_notice")
        return res

    def search(self, ctx: Ctx, broken) -> Result:
        res = Result()
        for b in broken:
            if b.case and b.case.get("kind") == "name-alphabet":
                # sibling names `x` / `x<c>y`: the peer keeps its receiver on the longer name, the shorter one goes away
                from harness.props import c07 as C7
                C7.search_siblings(ctx, [chr(c) for c in b.case.get("accepted_chars", [])], res, prop="C08", sides=["remote"],
                                   clause="subscriber-listens-but-publisher-does-not-transmit:name-metachar")
                if res.failures:
                    return res
        for b in broken:
            if b.case and "spec" in b.case:
                c = b.case
                out, tr, viol = run_c08(c["seed"], c["spec"], change_points=c.get("change_points"), trace_handler=c.get("trace_handler", False))
                res.note_case(("case", c["seed"]))
                for (clause, detail) in verdict(out, viol)[:1]:
                    res.failures.append(Failure(f"C08:{clause}", f"seed={c['seed']}: {detail}", {"kind": "c08", **c, "clause": clause}))
        if any(True for f in res.failures):
            return res
        # systematic: every change point of a dense history (removal, disconnect and stop each racing with subscribers)
        dense = {"ctxs": ["P", "PA"], "objs": {"P": ["pm1"]}, "rcvs": ["PA", "PA", "P"],
                 "steps": [{"main": [], "lanes": [[["sub", 0, "P", "pm1", "sa"], ["sub", 1, "P", "pm1", "sa"], ["unsub", 0, "P", "pm1", "sa"]],
                                                  [["sub", 2, "P", "pm1", "sa"]]]},
                           {"main": [], "lanes": [[["unsub", 1, "P", "pm1", "sa"], ["sub", 1, "P", "pm1", "sa"]], [["sub", 0, "P", "pm1", "sa2"]]]},
                           {"main": [["rm", "P", "pm1"]], "lanes": [[["unsub", 0, "P", "pm1", "sa2"]]]},
                           {"main": [["mk", "P", "pm1"]], "lanes": [[["sub", 0, "P", "pm1", "sa"]]]},
                           {"main": [["disconnect", "PA", "P"]], "lanes": [[["unsub", 0, "P", "pm1", "sa"], ["sub", 1, "P", "pm1", "sa2"]]]},
                           {"main": [["connect", "PA", "P"]], "lanes": []},
                           {"main": [["stop", "P"]], "lanes": [[["sub", 1, "P", "pm1", "sa"]]]}],
                 "policy": "pct"}
        r2 = Result()
        cases = []
        for seed in range(ctx.scale(2, 6)):
            for k in range(1, ctx.scale(1500, 2500), 4 if ctx.quick else 1):
                cases.append((seed, dense, [k], False))
        for i in range(0, len(cases), 100):
            self._run_batch(ctx, cases[i:i + 100], r2, "sweep")
            if r2.failures:
                break
        if not r2.failures:
            cases = [(ctx.rng.randrange(1 << 30), gen_spec(ctx.rng, True), None, False) for _ in range(ctx.scale(300, 1500))]
            self._run_batch(ctx, cases, r2, "search")
        r2.broken = []
        res.merge(r2)
        return res

    def replay(self, ctx: Ctx, rp: dict):
        if rp.get("kind") == "siblings":
            from harness.props import c07 as C7
            out, bad = C7.run_siblings(rp["seed"], chr(rp["ch"]), rp["where"], sides=rp.get("sides"), clause=rp["clause"])
            return Failure(f"C08:{bad[0][0]}", bad[0][1], rp) if bad else None
        out, tr, viol = run_c08(rp["seed"], rp["spec"], change_points=rp.get("change_points"), trace_handler=rp.get("trace_handler", False))
        bad = verdict(out, viol)
        for (clause, detail) in bad:
            if clause == rp.get("clause"):
                return Failure(f"C08:{clause}", detail, rp)
        if bad:
            return Failure(f"C08:{bad[0][0]}", bad[0][1], rp)
        return None


PROP = C08()
