"""C01 — every RPC call completes exactly once: result, exception or delivery error.

Model: lean/QmiModel/Model/Rpc.lean (interleaving transition system); theorems: Props/C01.lean.

Tie (DESIGN §5/C01, revised): the real contexts/proxies/worker/socket threads run under the deterministic
scheduler + simulated network.  For every generated scenario (caller threads × a fault: object removal, stop of
either context, orderly disconnect, unserialisable arguments / results, oversize result, lock requests incl.
force-unlock of an unlocked object) and every explored schedule, the vector of per-call outcomes observed on the
real code must be one of the terminal outcome vectors of the *model* of that scenario, computed by the Lean driver
by exhaustive exploration of the model's interleavings (validation of the model; the theorems are what is claimed).
The model's configuration bits (which loss paths exist) are *probed* on the current source on every run.

Property oracle, directly on the implementation: every call ends with exactly one outcome out of {its own value,
its own exception, locked, delivery error}; no call hangs (scheduler deadlock); no future changes after it was set;
an object that still exists serves a probe call afterwards.
"""
from __future__ import annotations

import itertools
import json

from harness.core import Broken, Ctx, Failure, LeanDriver, Prop, Result

# kinds of calls: name -> (method, worker outcome in the model, defect feature)
KINDS = {
    "f":      ("value", None),
    "boom":   ("exc", None),
    "bexc":   ("exc", None),                       # the method raises a BaseException that is not an Exception
    "is_locked": ("value", None),
    "badarg": ("value", "unpicklable-args"),      # remote only: argument cannot be pickled
    "badres": ("value", "unpicklable-result"),    # remote only: result cannot be pickled
    "bigres": ("value", "oversize-result"),       # remote only: result exceeds MAX_MESSAGE_SIZE
    "funlock": ("value", "lock-handler-crash"),   # force_unlock() on an unlocked object
    "retexc": ("value", None),                    # the method RETURNS an exception object (a value like any other)
    "lookup": ("value", None),                    # the method itself uses its context while executing (by-name look-up)
    # values that the sender can pickle but the receiver cannot unpickle (remote only): the receiving side has to turn
    # this into an outcome (on the current source: it drops the connection, every pending call ends with a delivery error)
    "unlexc": ("exc", "unloadable-reply"),        # the method raises an exception that cannot be rebuilt by the caller's side
    "unlres": ("value", "unloadable-reply"),      # the method returns such a value
    "unlarg": ("value", "unloadable-request"),    # an argument that the object's side cannot rebuild
}
UNLOADABLE = {"unloadable-reply", "unloadable-request"}
FAULTS = ["none", "remove", "stopB", "stopA", "disc"]
FAULT_PROG = {
    "none": [],
    "remove": ["unregister", "stop1", "stop2", "joinW"],
    "stopB": ["stopB", "joinB", "unregister", "stop1", "stop2", "joinW"],
    "stopA": ["stopA", "joinA"],
    "disc": ["discA", "waitDisc"],
}
SMALL_MAX = 3000
# bystander classes: (object, route).  The main scenario uses object o through srv itself ("loc") or client cli ("rem").
BY_CLASSES = ["o2loc", "o2rem", "cli2", "cli2o2"]


def project_fault(fault, cls):
    """the fault of the scenario as seen by a bystander class (other object and/or other client connection)"""
    if fault in ("none", "stopB"):
        return fault
    if fault == "remove":                      # removes object o only
        return "remove" if cls == "cli2" else "none"
    # stopA / disc hit client cli and its connection only
    return fault if cls == "o2rem" else "none"

_probe_cls = None


class UnloadableError(Exception):
    """pickles (args = (a,)) but cannot be unpickled: the constructor needs two arguments"""
    def __init__(self, a, b):
        super().__init__(a)
        self.b = b


def _unloadable_ctor(*a):
    raise RuntimeError("this value cannot be rebuilt on the receiving side")


class UnloadableValue:
    """pickles fine; unpickling raises in the receiving context"""
    def __reduce__(self):
        return (_unloadable_ctor, (1,))


class ProbeBaseExc(BaseException):
    """raised by the probe object: not an `Exception`, so `except Exception` would miss it"""


def _probe_class():
    global _probe_cls
    if _probe_cls is None:
        import _thread
        from qmi.core.rpc import QMI_RpcObject, rpc_method

        class Probe(QMI_RpcObject):
            @rpc_method
            def f(self, x):
                return ("f", x * 2)

            @rpc_method
            def boom(self, x):
                raise ValueError(("boom", x))

            @rpc_method
            def bexc(self, x):
                raise ProbeBaseExc(("bexc", x))

            @rpc_method
            def badarg(self, x, y=None):
                return ("badarg", x)

            @rpc_method
            def badres(self, x):
                return _thread.allocate_lock()

            @rpc_method
            def bigres(self, x):
                return b"x" * (2 * SMALL_MAX)

            @rpc_method
            def retexc(self, x):
                return ValueError(("retexc", x))

            @rpc_method
            def lookup(self, x):
                # a method that uses its own context while it executes (as drivers do to find a sibling object)
                try:
                    self._context.get_rpc_object_by_name(self._context.name + ".o")
                except Exception:  # noqa
                    pass
                return ("lookup", x)

            @rpc_method
            def unlexc(self, x):
                raise UnloadableError(("unlexc", x), 1)

            @rpc_method
            def unlres(self, x):
                return UnloadableValue()

            @rpc_method
            def unlarg(self, x, y=None):
                return ("unlarg", x)

            @rpc_method
            def slow(self, x, dur):
                # occupies the worker for `dur` seconds of virtual time
                from harness import detsched as D
                D.SCHED.yield_point("probe.slow", blocked_on=lambda: False, timeout=dur)
                return ("slow", x)

        _probe_cls = Probe
    return _probe_cls


def gen_scenario(rng, allow_defects=True):
    """threads: list of caller programs; a call = dict(id, place, kind, blocking)."""
    nthreads = rng.choice([1, 1, 2, 2, 3])
    ncalls = rng.choice([1, 2, 2, 3, 3, 4])
    fault = rng.choice(FAULTS)
    prelocked = rng.random() < 0.1
    defect_kind = None
    if allow_defects and rng.random() < 0.3 and not prelocked:
        defect_kind = rng.choice(["badarg", "badres", "bigres", "funlock"])
    calls = []
    for i in range(ncalls):
        place = rng.choice(["loc", "rem", "rem"])
        kind = rng.choice(["f", "f", "f", "boom", "bexc", "is_locked", "retexc", "lookup"])
        calls.append({"id": i, "place": place, "kind": kind, "blocking": rng.random() < 0.7})
    if defect_kind:
        c = rng.choice(calls)
        c["kind"] = defect_kind
        if defect_kind != "funlock":
            c["place"] = "rem"
    if not defect_kind and not prelocked and rng.random() < 0.12:
        c = rng.choice(calls)
        c["kind"] = rng.choice(["unlexc", "unlres", "unlarg"])
        if rng.random() < 0.6:
            c["place"] = "rem"
            fault = "none"
    threads = [[] for _ in range(nthreads)]
    for c in calls:
        threads[rng.randrange(nthreads)].append(c)
    threads = [t for t in threads if t]
    scn = {"threads": threads, "fault": fault, "prelocked": prelocked, "n": ncalls}
    if rng.random() < 0.45:
        # bystanders: calls that use another object and/or another client connection than the one the fault hits
        by = []
        for j in range(rng.choice([1, 2, 2, 3])):
            by.append({"id": j, "cls": rng.choice(BY_CLASSES), "kind": rng.choice(["f", "f", "boom"]),
                       "blocking": rng.random() < 0.6})
        scn["by"] = by
    if scn["fault"] in ("none", "disc", "stopA") and rng.random() < 0.35:
        # a client that connects only AFTER the fault (e.g. after client cli left with a call still in flight) and
        # issues a burst of un-waited calls: it may inherit routing state of the client that left
        scn["late"] = {"n": rng.choice([3, 6, 12]), "kind": rng.choice(["f", "f", "boom"])}
    if rng.random() < 0.3 or ("late" in scn and rng.random() < 0.6):
        # a caller that gives up (rpc_timeout) while its request is still being served: leaves a stale entry in the
        # pending table / a reply nobody waits for; the fault is injected before, between or after (virtual time)
        scn["noise"] = {"dur": 5.0, "timeout": 1.0, "delay": rng.choice([0.0, 2.0, 2.0, 2.0, 7.0])}
    return scn


def features(scn):
    fs = set()
    for t in scn["threads"]:
        for c in t:
            f = KINDS[c["kind"]][1]
            if f and not (c["place"] == "loc" and f != "lock-handler-crash"):
                fs.add(f)
    if scn["fault"] == "stopA" and any(c["place"] == "rem" for t in scn["threads"] for c in t):
        fs.add("own-context-stopped")
    return sorted(fs)


def model_line(scn, cfgbits):
    attrs, outs = [], []
    calls = sorted((c for t in scn["threads"] for c in t), key=lambda c: c["id"])
    for c in calls:
        k = c["kind"]
        rem = c["place"] == "rem"
        args_ok = 0 if (k == "badarg" and rem) else 1
        res_ok = 0 if (k == "badres" and rem) else 1
        res_big = 1 if (k == "bigres" and rem) else 0
        crash = 1 if k == "funlock" else 0
        attrs.append(f"{c['id']}:{c['place']}:{args_ok}:{res_ok}:{res_big}:{crash}")
        o = KINDS[k][0]
        if scn["prelocked"] and k not in ("is_locked", "funlock"):
            o = "locked"
        outs.append(o)
    progs = []
    for t in scn["threads"]:
        p, waits = [], []
        for c in t:
            p.append(f"call:{c['id']}")
            if c["blocking"]:
                p.append(f"wait:{c['id']}")
            else:
                waits.append(f"wait:{c['id']}")
        progs.append(",".join(p + waits))
    progs.append(",".join(FAULT_PROG[scn["fault"]]))
    return f"explore {cfgbits} {','.join(attrs)} {len(calls)} {','.join(outs)} {'|'.join(progs)}"


def by_subscenarios(scn):
    """one sub-scenario per bystander class: the class's calls (each in a thread of its own) + the projected fault"""
    subs = {}
    for cls in BY_CLASSES:
        calls = [b for b in scn.get("by", []) if b["cls"] == cls]
        if not calls:
            continue
        threads = [[{"id": k, "place": "loc" if cls == "o2loc" else "rem", "kind": b["kind"], "blocking": b["blocking"]}]
                   for k, b in enumerate(calls)]
        subs[cls] = ({"threads": threads, "fault": project_fault(scn["fault"], cls),
                      "prelocked": bool(scn["prelocked"]) and cls == "cli2", "n": len(calls)},
                     [b["id"] for b in calls])
    return subs


def run_real(scn, seed, policy="weighted", change_points=None, probe_after=True):
    """Run the scenario on the real code under the scheduler. Returns dict(vec, deadlock, problems, steps)."""
    from harness.simworld import run_scenario
    from harness import detsched as D
    import qmi.core.messaging as M
    import qmi.core.rpc as R
    from qmi.core.exceptions import QMI_MessageDeliveryException, QMI_RuntimeException

    n = scn["n"]
    vec = ["-"] * n
    by = scn.get("by", [])
    bvec = ["-"] * len(by)
    futs = {}
    bfuts = {}
    nres = []
    lres = []
    problems = []
    double_sets = []

    orig_set = R.QMI_RpcFuture._set_result

    def tap_set(self, state, result):
        before = (self._state, self._result)
        orig_set(self, state, result)
        if before[0] != R.QMI_RpcFutureState.NO_RESULT_YET and (self._state, self._result) != before:
            double_sets.append(str(self.address))

    def do_call(proxy, c):
        import _thread
        k, i = c["kind"], c["id"]
        tgt = proxy if c["blocking"] else proxy.rpc_nonblocking
        if k == "f":
            return tgt.f(i)
        if k == "boom":
            return tgt.boom(i)
        if k == "bexc":
            return tgt.bexc(i)
        if k == "badarg":
            return tgt.badarg(i, _thread.allocate_lock() if c["place"] == "rem" else None)
        if k == "badres":
            return tgt.badres(i)
        if k == "bigres":
            return tgt.bigres(i)
        if k == "retexc":
            return tgt.retexc(i)
        if k == "lookup":
            return tgt.lookup(i)
        if k == "unlexc":
            return tgt.unlexc(i)
        if k == "unlres":
            return tgt.unlres(i)
        if k == "unlarg":
            return tgt.unlarg(i, UnloadableValue() if c["place"] == "rem" else None)
        if k == "is_locked":
            if c["blocking"]:
                return proxy.is_locked()
            return None   # generator keeps lock-protocol calls blocking; see normalise()
        if k == "funlock":
            return proxy.force_unlock()
        raise AssertionError(k)

    def classify(c, fn):
        i, k = c["id"], c["kind"]
        try:
            v = fn()
        except D.SchedAbort:
            raise
        except QMI_MessageDeliveryException:
            return "d"
        except QMI_RuntimeException as e:
            if "locked" in str(e):
                return "l"
            return f"x:{type(e).__name__}"
        except ValueError as e:
            if k == "boom" and e.args == (("boom", i),):
                return "e"
            return f"x:ValueError{e.args!r}"[:60]
        except UnloadableError as e:
            if k == "unlexc" and e.args == (("unlexc", i),):
                return "e"
            return f"x:UnloadableError{e.args!r}"[:60]
        except ProbeBaseExc as e:
            if k == "bexc" and e.args == (("bexc", i),):
                return "e"
            return f"x:ProbeBaseExc{e.args!r}"[:60]
        except BaseException as e:  # noqa
            return f"x:{type(e).__name__}"
        exp = {"f": ("f", i * 2), "badarg": ("badarg", i), "unlarg": ("unlarg", i), "lookup": ("lookup", i)}
        if k == "retexc":
            return "v" if (type(v) is ValueError and v.args == (("retexc", i),)) else f"crosstalk:{v!r}"[:60]
        if k in exp and v != exp[k]:
            return f"crosstalk:{v!r}"[:60]
        if k == "is_locked" and v is not bool(scn["prelocked"]):
            return f"x:is_locked={v!r}"
        if k == "badres" and c["place"] == "loc" and type(v).__name__ != "lock":
            return f"crosstalk:{v!r}"[:60]
        if k == "bigres" and v != b"x" * (2 * SMALL_MAX):
            return "crosstalk:bigres"
        if k == "unlres" and type(v).__name__ != "UnloadableValue":
            return f"crosstalk:{v!r}"[:60]
        return "v"

    def body(w):
        srv = w.context("srv", server=True)
        srv.make_rpc_object("o", _probe_class())
        cli = w.context("cli")
        w.connect(cli, srv)
        p_loc = srv.get_rpc_object_by_name("srv.o")
        if scn["prelocked"]:
            locker = srv.get_rpc_object_by_name("srv.o")
            locker.lock()
        threads = []
        to_spawn = []       # every proxy is made before any caller runs (a caller may cost the client its connection)
        for ti, prog in enumerate(scn["threads"]):
            # one proxy per caller thread and placement
            p_l = srv.get_rpc_object_by_name("srv.o")
            p_r = cli.get_rpc_object_by_name("srv.o")

            def caller(prog=prog, p_l=p_l, p_r=p_r):
                pending = []
                for c in prog:
                    proxy = p_l if c["place"] == "loc" else p_r
                    if c["blocking"] or c["kind"] in ("is_locked", "funlock"):
                        vec[c["id"]] = classify(c, lambda: do_call(proxy, {**c, "blocking": True}))
                    else:
                        fut = do_call(proxy, c)
                        futs[c["id"]] = (c, fut)
                        pending.append((c, fut))
                for c, fut in pending:
                    vec[c["id"]] = classify(c, fut.wait)
            to_spawn.append((caller, f"caller{ti}"))
        if by:
            srv.make_rpc_object("o2", _probe_class())
            cli2 = w.context("cli2")
            w.connect(cli2, srv)
            for b in by:
                ctx_ = {"o2loc": srv, "o2rem": cli, "cli2": cli2, "cli2o2": cli2}[b["cls"]]
                p_b = ctx_.get_rpc_object_by_name("srv.o" if b["cls"] == "cli2" else "srv.o2")

                def bystander(b=b, p_b=p_b):
                    c = {"id": 100 + b["id"], "kind": b["kind"], "place": "loc" if b["cls"] == "o2loc" else "rem",
                         "blocking": b["blocking"]}
                    if b["blocking"]:
                        bvec[b["id"]] = classify(c, lambda: do_call(p_b, c))
                    else:
                        fut = do_call(p_b, c)
                        bfuts[b["id"]] = fut
                        bvec[b["id"]] = classify(c, fut.wait)
                to_spawn.append((bystander, f"by{b['id']}"))
        noise = scn.get("noise")
        if noise:
            from qmi.core.exceptions import QMI_RpcTimeoutException
            p_n = cli.get_rpc_object_by_name("srv.o")

            def noisy():
                try:
                    v = p_n.slow(99, noise["dur"], rpc_timeout=noise["timeout"])
                    nres.append("v" if v == ("slow", 99) else f"crosstalk:{v!r}"[:60])
                except D.SchedAbort:
                    raise
                except QMI_RpcTimeoutException:
                    nres.append("t")
                except QMI_MessageDeliveryException:
                    nres.append("d")
                except QMI_RuntimeException as e:
                    nres.append("l" if "locked" in str(e) else f"x:{type(e).__name__}")
                except BaseException as e:  # noqa
                    nres.append(f"x:{type(e).__name__}")
            to_spawn.insert(0, (noisy, "noise"))
        for fn_, nm_ in to_spawn:
            threads.append(w.spawn(fn_, nm_))
        if noise:
            if noise["delay"]:
                D.SCHED.yield_point("fault.delay", blocked_on=lambda: False, timeout=noise["delay"])
        f = scn["fault"]
        if f == "remove":
            srv.remove_rpc_object(p_loc)
        elif f == "stopB":
            srv.stop()
        elif f == "stopA":
            cli.stop()
        elif f == "disc":
            try:
                cli.disconnect_from_peer("srv")
            except Exception as e:  # noqa
                # a value the receiving side cannot rebuild has already cost the client this connection
                if not (type(e).__name__ == "QMI_UnknownNameException" and UNLOADABLE & set(features(scn))):
                    raise
        late = scn.get("late")
        if late:
            cli3 = w.context("cli3")
            w.connect(cli3, srv)
            p3 = cli3.get_rpc_object_by_name("srv.o")
            lf = []
            for j in range(late["n"]):
                c3 = {"id": 300 + j, "kind": late["kind"], "place": "rem", "blocking": False}
                lf.append((c3, do_call(p3, c3)))
            for c3, fut in lf:
                lres.append(classify(c3, lambda fut=fut: fut.wait(60.0)))
        for t in threads:
            t.join()
        for t in threads:
            if t.exc is not None:
                problems.append(f"caller-died:{type(t.exc).__name__}")
        # liveness probe: an object that still exists keeps serving
        if probe_after and f in ("none", "stopA", "disc") and "lock-handler-crash" not in features(scn):
            pp = srv.get_rpc_object_by_name("srv.o")
            if scn["prelocked"]:
                locker.unlock()
            r = pp.f(1000, rpc_timeout=5.0)
            if r != ("f", 2000):
                problems.append(f"probe-wrong:{r!r}")
        return True

    saved_max = M._PeerTcpConnection.MAX_MESSAGE_SIZE
    M._PeerTcpConnection.MAX_MESSAGE_SIZE = SMALL_MAX
    R.QMI_RpcFuture._set_result = tap_set
    try:
        out = run_scenario(seed, body, policy=policy, change_points=change_points, max_steps=60000)
    finally:
        R.QMI_RpcFuture._set_result = orig_set
        M._PeerTcpConnection.MAX_MESSAGE_SIZE = saved_max
    # non-blocking calls whose wait() was never reached (the caller hung on an earlier call): read the future itself
    for i, (c, fut) in futs.items():
        if vec[i] == "-" and fut._state != R.QMI_RpcFutureState.NO_RESULT_YET:
            st = fut._state
            if st == R.QMI_RpcFutureState.RESULT_IS_VALUE:
                vec[i] = "v"
            elif st == R.QMI_RpcFutureState.OBJECT_IS_LOCKED:
                vec[i] = "l"
            elif isinstance(fut._result, QMI_MessageDeliveryException):
                vec[i] = "d"
            else:
                vec[i] = "e"
    if double_sets:
        problems.append("completed-twice")
    if out.error is not None:
        problems.append(f"scenario-error:{type(out.error).__name__}:{str(out.error)[:80]}")
    if out.budget:
        problems.append("step-budget")
    return {"vec": "".join(v if len(v) == 1 else "x" for v in vec), "raw": list(vec), "deadlock": out.deadlock,
            "bvec": "".join(v if len(v) == 1 else "x" for v in bvec), "braw": list(bvec),
            "noise": (nres[0] if nres else "-") if scn.get("noise") else None,
            "late": list(lres) if scn.get("late") else None,
            "problems": problems, "steps": out.sched.steps if out.sched else 0,
            "loop_exc": [type(e).__name__ for e in (out.net.loop_exceptions if out.net else [])],
            "thread_errors": [f"{n}:{type(e).__name__}" for n, e in out.thread_errors]}


def live_bounds():
    """every finite bound a request passes on its way to the worker, read from the live code: `maxlen` of the worker's
    queue of a freshly made object and every small MAX_* / *_MAX / *LIMIT* integer of rpc.py (module and classes)"""
    import collections
    import qmi.core.rpc as R
    from qmi.core.context import QMI_Context
    bounds = {}
    for owner in [R] + [v for v in vars(R).values() if isinstance(v, type) and v.__module__ == R.__name__]:
        for k, v in vars(owner).items():
            if isinstance(v, int) and not isinstance(v, bool) and any(t in k.upper() for t in ("MAX", "LIMIT", "PENDING", "QUEUE")) \
                    and 0 < v <= 200000:
                bounds[f"{getattr(owner, '__name__', 'rpc')}.{k}"] = v
    ctx = QMI_Context("c01bounds")
    ctx.start()
    try:
        ctx.make_rpc_object("o", _probe_class())
        mgr = ctx._rpc_object_map.get("o")
        for holder in (mgr, getattr(mgr, "_rpc_thread", None)):
            for k, v in (vars(holder).items() if holder is not None else []):
                if isinstance(v, collections.deque) and v.maxlen is not None:
                    bounds[f"{type(holder).__name__}.{k}.maxlen"] = v.maxlen
    finally:
        ctx.stop()
    return bounds


def run_burst(n, seed, place="loc"):
    """n un-waited calls behind a worker that is busy: every one of them must get its own outcome"""
    from harness.simworld import run_scenario
    from harness import detsched as D
    got = {}
    info = {}

    def body(w):
        srv = w.context("srv", server=True)
        srv.make_rpc_object("o", _probe_class())
        if place == "loc":
            p = srv.get_rpc_object_by_name("srv.o")
        else:
            cli = w.context("cli")
            w.connect(cli, srv)
            p = cli.get_rpc_object_by_name("srv.o")
        hold = p.rpc_nonblocking.slow(-1, 5.0)
        futs = [p.rpc_nonblocking.f(i) for i in range(n)]
        info["issued"] = len(futs)
        got[-1] = hold.wait(120.0)
        for i, fut in enumerate(futs):
            try:
                got[i] = fut.wait(120.0)
            except D.SchedAbort:
                raise
            except BaseException as e:  # noqa
                got[i] = f"x:{type(e).__name__}"
        return True

    out = run_scenario(seed, body, policy="weighted", max_steps=4000000)
    bad = [(i, got.get(i, "-")) for i in range(n) if got.get(i, "-") != ("f", i * 2)]
    return bad, out


def normalise(scn):
    """lock-protocol calls are always blocking in the real proxy API"""
    for t in scn["threads"]:
        for c in t:
            if c["kind"] in ("is_locked", "funlock"):
                c["blocking"] = True
    return scn


ACTIVE_DEFECTS = {"lock-handler-crash", "unpicklable-args", "unpicklable-result", "oversize-result"}


def oracle(scn, r):
    """Property clauses evaluated on the real outcome. Returns list of (signature, summary)."""
    out = []
    feats = features(scn)
    for v in r["raw"]:
        if v.startswith("crosstalk"):
            out.append(("other-call's-outcome", f"a call received {v}"))
        elif v.startswith("x:"):
            out.append((f"unexpected-outcome:{v[2:].split('(')[0]}", f"outcome {v} is neither own value/exception, locked nor delivery error"))
    unl = bool(UNLOADABLE & set(feats))
    if unl:
        for t in scn["threads"]:
            for c in t:
                if KINDS[c["kind"]][1] in UNLOADABLE and c["place"] == "rem":
                    v = r["raw"][c["id"]]
                    if v in ("v", "e") or v.startswith("crosstalk"):
                        out.append(("unloadable-value-delivered", f"call {c} whose value cannot be rebuilt on the receiving side ended with {v}"))
    bnat = {"f": "v", "boom": "e"}
    for b, v in zip(scn.get("by", []), r.get("braw", [])):
        pf = project_fault(scn["fault"], b["cls"])
        if v.startswith("crosstalk"):
            out.append(("other-call's-outcome", f"bystander {b} received {v}"))
        elif v.startswith("x:"):
            out.append((f"unexpected-outcome:{v[2:].split('(')[0]}", f"bystander {b}: outcome {v}"))
        elif v == "-":
            cause = "own-context-stopped" if (pf == "stopA" and b["cls"] == "o2rem") else "bystander:" + b["cls"]
            out.append(("call-waits-forever:" + cause, f"bystander call {b} has no outcome (fault {scn['fault']} seen as {pf}); "
                                                       f"scheduler: {str(r['deadlock'])[:120]}"))
        elif pf == "none" and v != ("l" if (scn["prelocked"] and b["cls"] == "cli2") else bnat[b["kind"]]) \
                and not (ACTIVE_DEFECTS & set(feats)) and not (unl and b["cls"] == "o2rem" and v == "d"):
            out.append(("bystander-affected:" + b["cls"], f"call {b} to another object / over another connection than the one hit by "
                                                           f"fault {scn['fault']} ended with {v}, expected {bnat[b['kind']]}"))
    if r.get("late") is not None:
        lt = scn["late"]
        exp = "l" if scn["prelocked"] else bnat[lt["kind"]]
        if len(r["late"]) < lt["n"]:
            out.append(("call-waits-forever:late-client", f"a client that connected after fault {scn['fault']} got outcomes for only "
                                                          f"{len(r['late'])} of its {lt['n']} calls; scheduler: {str(r['deadlock'])[:120]}"))
        for v in r["late"]:
            if v.startswith("crosstalk"):
                out.append(("other-call's-outcome", f"a call of a client that connected after fault {scn['fault']} received {v}"))
                break
            if v.startswith("x:"):
                out.append((f"unexpected-outcome:{v[2:].split('(')[0]}", f"late client: outcome {v}"))
                break
            if v != exp and not (ACTIVE_DEFECTS & set(feats)):
                out.append(("bystander-affected:late-client", f"a call of a client that connected after fault {scn['fault']} ended with {v}, expected {exp}"))
                break
    nz = r.get("noise")
    if nz is not None:
        if nz == "-":
            out.append(("call-waits-forever:gave-up-caller", f"the call with rpc_timeout has no outcome; scheduler: {str(r['deadlock'])[:120]}"))
        elif nz.startswith(("x:", "crosstalk")):
            out.append((f"unexpected-outcome:{nz[2:].split('(')[0]}", f"call with rpc_timeout: outcome {nz}"))
    late_short = r.get("late") is not None and len(r["late"]) < scn["late"]["n"]
    if "-" in r["vec"] or (r["deadlock"] and "-" not in r.get("bvec", "") and nz != "-" and not late_short):
        # attribute every hanging call to a cause; one finding per distinct cause
        crashed = any("_RpcThread" in t for t in r["thread_errors"])
        has_funlock = "lock-handler-crash" in feats
        causes = set()
        for t in scn["threads"]:
            for c in t:
                if r["vec"][c["id"]] != "-":
                    continue
                own = KINDS[c["kind"]][1]
                # a defect feature explains a hang only while the probe shows that loss path still exists in the source
                if own == "lock-handler-crash" and crashed and own in ACTIVE_DEFECTS:
                    causes.add(own)
                elif own and own != "lock-handler-crash" and c["place"] == "rem" and own in ACTIVE_DEFECTS:
                    causes.add(own)
                elif crashed and has_funlock and "lock-handler-crash" in ACTIVE_DEFECTS:
                    causes.add("lock-handler-crash")
                elif scn["fault"] == "stopA" and c["place"] == "rem":
                    causes.add("own-context-stopped")
                else:
                    causes.add("no-fault-feature")
                break       # later calls of this thread were never issued
        if not causes:
            causes.add("no-fault-feature" if not feats else "+".join(feats))
        for cause in sorted(causes):
            out.append(("call-waits-forever:" + cause,
                        f"calls without outcome ({r['vec']}), cause {cause}; scheduler: {str(r['deadlock'])[:160]}"))
    for p in r["problems"]:
        out.append((p.split(":")[0] if p.startswith(("probe", "caller")) else p, p))
    if scn["fault"] == "none" and not feats and not r["deadlock"]:
        # nothing was stopped, removed or disconnected: every call must have been served
        calls = sorted((c for t in scn["threads"] for c in t), key=lambda c: c["id"])
        for c, v in zip(calls, r["vec"]):
            exp = "l" if (scn["prelocked"] and c["kind"] not in ("is_locked",)) else {"value": "v", "exc": "e"}[KINDS[c["kind"]][0]]
            if v != exp:
                out.append(("existing-object-refused-call", f"call {c} ended with {v}, expected {exp}"))
    return out


PROBES = [
    # (bit index, scenario) — does the current source still have this loss path?
    (0, {"threads": [[{"id": 0, "place": "loc", "kind": "funlock", "blocking": True}]], "fault": "none", "prelocked": False, "n": 1}),
    (1, {"threads": [[{"id": 0, "place": "rem", "kind": "badarg", "blocking": True}]], "fault": "none", "prelocked": False, "n": 1}),
    (2, {"threads": [[{"id": 0, "place": "rem", "kind": "bigres", "blocking": True}]], "fault": "none", "prelocked": False, "n": 1}),
]


def probe_cfg():
    bits = ["0", "0", "0"]
    for i, scn in PROBES:
        r = run_real(scn, 0, probe_after=False)
        if r["deadlock"] or "-" in r["vec"]:
            bits[i] = "1"
    # bit 1 covers both directions of pickling; check the result direction too and insist they agree
    r = run_real({"threads": [[{"id": 0, "place": "rem", "kind": "badres", "blocking": True}]], "fault": "none",
                  "prelocked": False, "n": 1}, 0, probe_after=False)
    res_bit = "1" if (r["deadlock"] or "-" in r["vec"]) else "0"
    return "".join(bits), res_bit


def send_lock_present():
    """Read from the AST of the current source whether MessageRouter serialises `send_message` (checks + hand-over to the
    socket-manager thread) with `stop()` (queueing close_all + marking the router inactive) by one lock.
    True -> the model is the sub-system `ReachL` (theorems `*_locked`); False -> plain `Reach` (theorems with `lost`)."""
    import ast
    from harness.core import REPO
    tree = ast.parse((REPO / "qmi/core/messaging.py").read_text())
    cls = next((n for n in tree.body if isinstance(n, ast.ClassDef) and n.name == "MessageRouter"), None)
    if cls is None:
        raise RuntimeError("MessageRouter not found in qmi/core/messaging.py")
    fns = {n.name: n for n in cls.body if isinstance(n, ast.FunctionDef)}
    if "send_message" not in fns or "stop" not in fns:
        raise RuntimeError("MessageRouter.send_message / stop not found")

    def lock_attr(w):
        for it in w.items:
            e = it.context_expr
            if isinstance(e, ast.Attribute) and isinstance(e.value, ast.Name) and e.value.id == "self":
                return e.attr
        return None

    def locks_around(fn, pred):
        """names of `with self.<lock>` blocks enclosing every node of fn that satisfies pred (None if no such node)"""
        found = []

        def walk(node, held):
            if isinstance(node, ast.With):
                la = lock_attr(node)
                held2 = held | ({la} if la else set())
                for b in node.body:
                    walk(b, held2)
                return
            if pred(node):
                found.append(held)
            for c in ast.iter_child_nodes(node):
                walk(c, held)
        walk(fn, frozenset())
        if not found:
            return None
        out = set(found[0])
        for h in found[1:]:
            out &= h
        return out

    def is_call(node, name):
        return isinstance(node, ast.Call) and isinstance(node.func, ast.Attribute) and node.func.attr == name

    def reads_sm(node):
        return isinstance(node, ast.Attribute) and node.attr == "_socket_manager" and isinstance(node.ctx, ast.Load)

    def clears_sm(node):
        return (isinstance(node, ast.Assign) and any(isinstance(t, ast.Attribute) and t.attr == "_socket_manager" for t in node.targets)
                and isinstance(node.value, ast.Constant) and node.value.value is None)

    hand = locks_around(fns["send_message"], lambda n: is_call(n, "run_in_thread_arg") or is_call(n, "run_in_thread"))
    chk = locks_around(fns["send_message"], reads_sm)
    clr = locks_around(fns["stop"], clears_sm)
    qca = locks_around(fns["stop"], lambda n: is_call(n, "run_in_thread") or is_call(n, "run_in_thread_arg"))
    if hand is None or chk is None or clr is None or qca is None:
        raise RuntimeError(f"unrecognised shape of MessageRouter.send_message/stop: hand-over={hand} check={chk} clear={clr} close_all={qca}")
    return bool(hand & chk & clr & qca)


def _probe_and_set():
    cfgbits, res_bit = probe_cfg()
    try:
        locked = send_lock_present()
    except Exception as e:  # noqa
        _probe_and_set.lock_error = str(e)
        locked = False
    else:
        _probe_and_set.lock_error = None
    cfgbits = cfgbits + ("1" if locked else "0")
    ACTIVE_DEFECTS.clear()
    if cfgbits[0] == "1":
        ACTIVE_DEFECTS.add("lock-handler-crash")
    if cfgbits[1] == "1":
        ACTIVE_DEFECTS.add("unpicklable-args")
    if res_bit == "1":
        ACTIVE_DEFECTS.add("unpicklable-result")
    if cfgbits[2] == "1":
        ACTIVE_DEFECTS.add("oversize-result")
    return cfgbits, res_bit


class C01(Prop):
    id = "C01"
    lean_modules = ["QmiModel.Props.C01"]
    driver = "drv_c01"
    modelled_not_verified = [
        "the send/stop lock of MessageRouter (de03010) is read from the AST (with-blocks around the checks, the hand-over and the clearing of _socket_manager); that threading.Lock gives mutual exclusion is a premise",
        "values that pickle on the sending side but cannot be rebuilt on the receiving side are outside the model (oracle only: "
        "every call still gets exactly one outcome, the affected call a delivery error)",
        "the model has one object and one peer connection; calls to a second object and over a second client connection "
        "('bystanders') are checked on the real code against an independent copy of the model under the projected fault",
        "pickle: a value either serialises or raises; asyncio: call_soon_threadsafe is FIFO, callbacks queued after stop() are dropped",
        "the OS socket (simulated network in the harness); random 64-bit request ids assumed distinct",
        "atomicity of model actions follows the locks in the code (_stop_lock, _cv, map locks); validated by outcome-set inclusion",
    ]
    extra_trusted = ["bounded exhaustive exploration of the model by the Lean driver is used only to validate the model "
                     "against the implementation's observed outcome vectors"]

    def _campaign(self, ctx: Ctx, res: Result, n_scen: int, sched_per: int, cfgbits: str):
        drv = LeanDriver(self.driver)
        scns = [normalise(gen_scenario(ctx.rng)) for _ in range(n_scen)]
        lines = [model_line(s, cfgbits) for s in scns]
        subs = [by_subscenarios(s) for s in scns]
        sublines = [{cls: model_line(sub, cfgbits) for cls, (sub, _) in sd.items()} for sd in subs]
        uniq = sorted(set(lines) | {l for sl in sublines for l in sl.values()})
        answers = dict(zip(uniq, drv.run(uniq, timeout=1200)))
        sig_seen = {}
        for si, (scn, line) in enumerate(zip(scns, lines)):
            ans = answers[line]
            allowed = set(ans.split(" ")[0].split(";"))
            if "BUDGET" in allowed or ans.startswith("bad-op"):
                res.broken.append(Broken("correspondence", "drv_c01.explore", f"{ans} for {line}"))
                continue
            seen_vecs = set()
            for k in range(sched_per):
                seed = f"{ctx.seed}:{si}:{k}"
                policy = "pct" if k % 3 == 2 else "weighted"
                r = run_real(scn, seed, policy=policy)
                seen_vecs.add(r["vec"])
                res.note_case((line, r["vec"], k < 2), nontrivial=scn["fault"] != "none" or bool(features(scn)))
                res.count("runs")
                res.count("fault_" + scn["fault"])
                res.count("steps", r["steps"])
                for f in features(scn):
                    res.count("feature_" + f)
                if r["deadlock"]:
                    res.count("deadlocks_observed")
                res.traces_validated += 1
                unl = bool(UNLOADABLE & set(features(scn)))
                if unl:
                    res.count("unloadable_value_runs")
                if r["vec"] not in allowed and not unl:
                    res.broken.append(Broken("correspondence", "Rpc.explore vs real outcome vector",
                                             f"real {r['vec']} not in model set {sorted(allowed)} (cfg {cfgbits})",
                                             case={"scn": scn, "seed": seed, "policy": policy}))
                for cls, (sub, ids) in subs[si].items():
                    sans = answers[sublines[si][cls]]
                    sallowed = set(sans.split(" ")[0].split(";"))
                    svec = "".join(r["bvec"][j] for j in ids)
                    res.count("bystander_calls", len(ids))
                    res.count("bystander_" + cls)
                    if "BUDGET" in sallowed or sans.startswith("bad-op"):
                        res.broken.append(Broken("correspondence", "drv_c01.explore", f"{sans} for {sublines[si][cls]}"))
                    elif svec not in sallowed and not (unl and cls == "o2rem"):
                        res.broken.append(Broken("correspondence", "Rpc.explore vs real outcome vector (bystander class)",
                                                 f"class {cls}: real {svec} not in model set {sorted(sallowed)} (fault {scn['fault']} "
                                                 f"projected to {sub['fault']}, cfg {cfgbits})",
                                                 case={"scn": scn, "seed": seed, "policy": policy}))
                for sig, summ in oracle(scn, r):
                    if sig_seen.get(sig, 0) < 1:
                        sig_seen[sig] = sig_seen.get(sig, 0) + 1
                        res.failures.append(Failure(sig, f"{summ} | scenario {json.dumps(scn)} seed {seed}",
                                                    {"scn": scn, "seed": seed, "policy": policy}))
            res.count("model_vectors_total", len(allowed))
            res.count("model_vectors_observed", len(allowed & seen_vecs))
            if si < 4:
                res.sample({"scenario": scn, "model_terminal_vectors": sorted(allowed), "observed": sorted(seen_vecs)})

    def correspondence(self, ctx: Ctx) -> Result:
        res = Result(rule="scenario = caller threads (1-3) × calls (1-4: local/remote, blocking/non-blocking, value/exception/"
                          "lock query/unserialisable args or result/oversize result/force-unlock) × fault (remove, stop of either "
                          "context, disconnect) × pre-locked; each run under several seeded schedules (weighted + PCT); case = "
                          "(scenario, observed outcome vector); non-trivial = has a fault or a defect feature")
        cfgbits, res_bit = _probe_and_set()
        res.extra["probed_model_cfg"] = {"lockCrash": cfgbits[0], "pickleEscapes(args)": cfgbits[1],
                                         "pickleEscapes(result)": res_bit, "oversizeReplyDropped": cfgbits[2],
                                         "sendLocked (AST of MessageRouter.send_message/stop)": cfgbits[3]}
        if _probe_and_set.lock_error:
            res.broken.append(Broken("translate", "C01.send_lock_present", _probe_and_set.lock_error))
        res.extra["applicable_theorems"] = (
            "calls_complete_locked / no_loss_locked / nothing_lost_locked (sub-system ReachL) apply when the three loss bits are 0 "
            "and sendLocked is 1; with sendLocked 0 the theorems with the ghost set `lost` (calls_complete, "
            "lost_only_when_client_stopped) apply and client_stop_loses_request is a reachable loss; with a loss bit set the "
            "corresponding pinned_*_hangs witness applies and is reported as a finding by the oracle")
        if cfgbits[1] != res_bit:
            res.broken.append(Broken("correspondence", "probe_cfg", f"pickle escape differs by direction: args={cfgbits[1]} result={res_bit}; "
                                     "the model has one bit for both"))
        self._campaign(ctx, res, ctx.scale(110, 2500), ctx.scale(6, 12), cfgbits)
        self._sweeps(ctx, res, cfgbits)
        self._bursts(ctx, res)
        self._fixed(ctx, res)
        return res

    def _fixed(self, ctx: Ctx, res: Result):
        """fixed corpus, first on every seed's evidence: one remote call per value kind the receiving side cannot handle, alone and
        next to an ordinary call, without any other fault (oracle only)"""
        seen = {f.signature for f in res.failures}
        for k in ("unlarg", "unlres", "unlexc", "badarg", "badres", "bigres"):
            for extra in ([], [{"id": 1, "place": "rem", "kind": "f", "blocking": True}]):
                scn = normalise({"threads": [[{"id": 0, "place": "rem", "kind": k, "blocking": True}] + extra], "fault": "none",
                                 "prelocked": False, "n": 1 + len(extra)})
                for j in range(2):
                    r = run_real(scn, f"fixed:{k}:{j}")
                    res.note_case(("fixed", k, len(extra), r["vec"]))
                    res.count("fixed_corpus_runs")
                    for sig, summ in oracle(scn, r):
                        if sig not in seen:
                            seen.add(sig)
                            res.failures.append(Failure(sig, f"{summ} | scenario {json.dumps(scn)}", {"scn": scn, "seed": f"fixed:{k}:{j}"}))

    def _bursts(self, ctx: Ctx, res: Result):
        """queue-depth boundaries: more un-waited calls than any finite bound declared in the live code (or a fixed large
        burst when none is declared) behind a busy worker; every call must get its own outcome"""
        try:
            bounds = live_bounds()
        except Exception as e:  # noqa
            res.broken.append(Broken("harness", "C01.live_bounds", repr(e)[:200]))
            bounds = {}
        res.extra["live_queue_bounds"] = bounds or "none declared (worker queue unbounded)"
        sizes = sorted({b + 3 for b in bounds.values()} | ({1500} if not bounds else set()))
        if not ctx.quick:
            sizes = sorted(set(sizes) | {12000})
        for n in sizes:
            for place in (("loc", "rem") if n <= 3000 else ("loc",)):
                bad, out = run_burst(n, f"burst:{ctx.seed}:{n}", place)
                res.note_case(("burst", n, place))
                res.count("burst_calls", n)
                if bad or out.deadlock or out.error is not None:
                    i, v = bad[0] if bad else (-1, "?")
                    res.failures.append(Failure(
                        "call-waits-forever:queue-overflow" if (not bad or str(v) in ("-", "x:QMI_RpcTimeoutException")) else "other-call's-outcome",
                        f"burst of {n} un-waited {place} calls behind a busy worker: {len(bad)} calls without their own outcome, first: call {i} -> {v!r}"
                        f" (live bounds {bounds}); scheduler: {str(out.deadlock)[:100]} {str(out.error)[:100]}",
                        {"burst": n, "place": place, "seed": f"burst:{ctx.seed}:{n}"}))

    def _sweeps(self, ctx: Ctx, res: Result, cfgbits: str):
        """The fault at *every* point relative to the call: PCT with one change point k, for all k."""
        drv = LeanDriver(self.driver)
        bases = []
        for fault in ("remove", "stopB", "stopA", "disc"):
            for place, blocking in (("rem", True), ("rem", False), ("loc", True)):
                bases.append(normalise({"threads": [[{"id": 0, "place": place, "kind": "f", "blocking": blocking}],
                                                    [{"id": 1, "place": "rem" if place == "loc" else "loc", "kind": "boom", "blocking": True}]],
                                        "fault": fault, "prelocked": False, "n": 2}))
        if not ctx.quick:
            for fault in ("remove", "stopB", "disc"):
                bases.append(normalise({"threads": [[{"id": 0, "place": "rem", "kind": "f", "blocking": False},
                                                     {"id": 1, "place": "rem", "kind": "boom", "blocking": False},
                                                     {"id": 2, "place": "loc", "kind": "f", "blocking": True}]],
                                        "fault": fault, "prelocked": False, "n": 3}))
        lines = [model_line(b, cfgbits) for b in bases]
        answers = drv.run(lines, timeout=1200)
        stride = 1 if not ctx.quick else 2
        sig_seen = {f.signature for f in res.failures}
        for scn, line, ans in zip(bases, lines, answers):
            allowed = set(ans.split(" ")[0].split(";"))
            k, steps, seen = ctx.rng.randrange(stride), 10 ** 9, set()
            while k <= steps + 2 and k < 1500:
                r = run_real(scn, f"sweep:{ctx.seed}", policy="pct", change_points=[k])
                steps = r["steps"]
                seen.add(r["vec"])
                res.note_case((line, "sweep", r["vec"], k % 7))
                res.count("sweep_runs")
                res.traces_validated += 1
                if r["vec"] not in allowed:
                    res.broken.append(Broken("correspondence", "Rpc.explore vs real outcome vector (sweep)",
                                             f"real {r['vec']} not in model set {sorted(allowed)} (cfg {cfgbits})",
                                             case={"scn": scn, "seed": f"sweep:{ctx.seed}", "policy": "pct", "change_points": [k]}))
                for sig, summ in oracle(scn, r):
                    if sig not in sig_seen:
                        sig_seen.add(sig)
                        res.failures.append(Failure(sig, f"{summ} | scenario {json.dumps(scn)} change_point {k}",
                                                    {"scn": scn, "seed": f"sweep:{ctx.seed}", "policy": "pct", "change_points": [k]}))
                k += stride
            res.count("sweep_vectors_total", len(allowed))
            res.count("sweep_vectors_observed", len(allowed & seen))

    def search(self, ctx: Ctx, broken) -> Result:
        res = Result()
        _probe_and_set()
        cases = [b.case for b in broken if b.case and "scn" in b.case]
        base = cases[:6] or [{"scn": normalise(gen_scenario(ctx.rng, allow_defects=False)), "seed": "s"} for _ in range(6)]
        for c in base:
            scn = c["scn"]
            for k in range(0, 400, 1):
                r = run_real(scn, f"sweep:{k}", policy="pct", change_points=[k])
                res.note_case((json.dumps(scn), r["vec"]))
                for sig, summ in oracle(scn, r):
                    res.failures.append(Failure(sig, f"{summ} | scenario {json.dumps(scn)} change_point {k}",
                                                {"scn": scn, "seed": f"sweep:{k}", "policy": "pct", "change_points": [k]}))
                if res.failures:
                    return res
                if r["steps"] and k > r["steps"]:
                    break
        return res

    def replay(self, ctx: Ctx, rp: dict):
        if "burst" in rp:
            bad, out = run_burst(rp["burst"], rp["seed"], rp.get("place", "loc"))
            if bad or out.deadlock or out.error is not None:
                return Failure("call-waits-forever:queue-overflow", f"burst of {rp['burst']}: {len(bad)} calls without their own outcome", rp)
            return None
        _probe_and_set()
        r = run_real(rp["scn"], rp["seed"], policy=rp.get("policy", "weighted"), change_points=rp.get("change_points"))
        fs = oracle(rp["scn"], r)
        if fs:
            return Failure(fs[0][0], fs[0][1], rp)
        return None


PROP = C01()
