"""C02 — a proxy call behaves like a direct call, locally and across contexts.

Model: lean/QmiModel/Model/Forward.lean; theorems: Props/C02.lean; driver: Drv/C02.lean.
Tie: (1) differential testing — the same test class is instantiated directly and behind local / peer proxies
(simulated network under the deterministic scheduler; real loopback TCP in the thorough tier), blocking and
non-blocking, and every outcome is compared (type and value / exception type, args, attributes);
(2) the message-level trace of every run (taps in _c02_taps.py) is replayed on the Lean model, which must reproduce
every routing decision, rewritten address, pending-table size and stub name;
(3) Gen/StubBinding.lean is regenerated from the AST of the two proxy constructors (closure per name vs. loop variable).

Value fidelity across `pickle` is validated differentially, not proved: the theorems assume decode(encode v) = v.
Values that plain `pickle.loads(pickle.dumps(v))` does not reproduce are outside the property's quantifier; they are
detected first, excluded from the oracle and counted in the evidence.
"""
from __future__ import annotations

import ast
import json
import random
import types

from harness import core
from harness.core import Broken, Ctx, Failure, LeanDriver, Prop, Result, diff_streams
from harness.props import _c02_taps as T
from harness.props import _c02_values as V

KW_POOL = ["a", "b", "c", "x", "y", "name", "value", "timeout", "args", "kwargs", "k_1", "Z", "data", "tag",
           "context", "method_name", "rpc_object_address", "rpc_lock_token", "message", "request_id"]
RESERVED_KW = {"rpc_timeout", "self"}       # documented proxy-side keyword / not a keyword at all
VARIANTS = [("local", "blk"), ("local", "nb"), ("peer", "blk"), ("peer", "nb"), ("local", "nbrev"), ("peer", "nbrev")]

BINDING = ["perName", "perName"]             # (blocking proxy, non-blocking proxy): set by translate() from the AST
HELPER_PARAMS = [[], []]                      # likewise: helper parameters a caller keyword can collide with (none since 266e9a5)

_CLS = None


def obj_class():
    """The test class (defined lazily: qmi must be imported after core.ensure_repo_on_path())."""
    global _CLS
    if _CLS is not None:
        return _CLS
    import functools
    from qmi.core.rpc import QMI_RpcObject, rpc_method

    def traced(fn):
        """functools.wraps-style decorator: the wrapper inherits fn.__dict__, i.e. keeps the RPC marker"""
        @functools.wraps(fn)
        def wrapper(*a, **k):
            return ("traced", fn(*a, **k))
        return wrapper

    class C02Base(QMI_RpcObject):
        """every KIND of member an interface can advertise is defined once here (inherited) and once in the subclass"""

        @rpc_method
        def k_inherited(self, *args, **kwargs):
            return ("k_inherited", args, kwargs)

        @rpc_method
        def k_overridden(self, *args, **kwargs):
            return ("base-version", args, kwargs)

        @staticmethod
        @rpc_method
        def k_static_inherited(*args, **kwargs):
            return ("k_static_inherited", args, kwargs)

    class C02Obj(C02Base):
        @rpc_method
        def k_overridden(self, *args, **kwargs):
            return ("k_overridden", len(args), args, kwargs)

        @staticmethod
        @rpc_method
        def k_static(*args, **kwargs):
            return ("k_static", len(args), args, kwargs)

        @rpc_method
        @staticmethod
        def k_static_marker_outside(*args, **kwargs):
            return ("k_static_marker_outside", len(args), args, kwargs)

        @staticmethod
        @rpc_method
        def k_static_fixed(a, b=2, *rest, c=3, **kw):
            return ("k_static_fixed", a, b, rest, c, kw)

        @rpc_method
        def k_kwonly(self, a, b=2, *rest, c, d=4, **kw):
            return ("k_kwonly", a, b, rest, c, d, kw)

        @rpc_method
        @traced
        def k_wrapped_inner(self, *args, **kwargs):
            return ("k_wrapped_inner", len(args), args, kwargs)

        @traced
        @rpc_method
        def k_wrapped_outer(self, *args, **kwargs):
            return ("k_wrapped_outer", len(args), args, kwargs)

        def __init__(self, context, name):
            super().__init__(context, name)
            self._n = 0
            self._log = []

        @rpc_method
        def echo(self, *args, **kwargs):
            return (args, kwargs)

        @rpc_method
        def ident(self, x):
            return x

        @rpc_method
        def shape(self, a, b=None, *rest, c="dflt", **kw):
            return {"a": a, "b": b, "rest": rest, "c": c, "kw": kw}

        @rpc_method
        def pick(self, i, *args):
            return args[i]

        @rpc_method
        def combine(self, x, y):
            import numpy
            with numpy.errstate(all="ignore"):
                return x + y

        @rpc_method
        def describe(self, *args, **kwargs):
            return [type(a).__name__ for a in args] + sorted(kwargs) + [len(args)]

        @rpc_method
        def raise_it(self, exc):
            raise exc

        @rpc_method
        def raise_new(self, name, *args):
            raise V.exc_class(name)(*args)

        @rpc_method
        def accumulate(self, tag, value=None):
            self._n += 1
            self._log.append(tag)
            return (self._n, tuple(self._log), value)

        @rpc_method
        def state(self):
            return (self._n, tuple(self._log))

        @rpc_method
        def tagged(self, tag, payload=None):
            return ("tagged", tag, payload)

        @rpc_method
        def hold(self, tag):
            g = _GATE[0]
            if g is not None:
                g.wait(60.0)
            return ("held", tag)

        @rpc_method
        def blob(self, n, fill=80):
            return bytes([fill]) * n

        @rpc_method
        def size_of(self, x):
            return len(x)

        @rpc_method
        def raise_from(self, exc, cause):
            raise exc from cause

        @rpc_method
        def get_self(self):
            return self

        @rpc_method
        def get_proxy(self):
            return self._context.get_rpc_object_by_name(f"{self._context.name}.{self._name}")

        @rpc_method
        def get_future(self):
            return self._context.get_rpc_object_by_name(f"{self._context.name}.{self._name}").rpc_nonblocking.state()

        @rpc_method
        def __enter__(self):
            self._log.append("enter")
            return len(self._log)

        @rpc_method
        def __exit__(self, *args, **kwargs):
            self._log.append("exit")

        @rpc_method
        def zz_last(self, *args, **kwargs):
            return "zz_last"

    _CLS = C02Obj
    return _CLS


def method_names():
    from qmi.core.rpc import make_interface_descriptor
    return [d.name for d in make_interface_descriptor(obj_class()).methods]


# ---------------------------------------------------------------------------
# call / script generation
# ---------------------------------------------------------------------------

COLLIDING = ["context", "method_name", "rpc_object_address", "rpc_lock_token"]


def _kwnames(rng, n):
    """keyword names, including the four that used to collide with the helpers' own parameters (fixed by 266e9a5)"""
    return rng.sample(KW_POOL, n)


KIND_METHODS = ["k_inherited", "k_overridden", "k_static_inherited", "k_static", "k_static_marker_outside", "k_static_fixed",
                "k_kwonly", "k_wrapped_inner", "k_wrapped_outer"]
_ADVERTISED_KINDS = None


def advertised_kinds():
    """the member kinds that make_interface_descriptor advertises on this tree (whatever is advertised must behave like
    the direct call obj.m(*a, **k))"""
    global _ADVERTISED_KINDS
    if _ADVERTISED_KINDS is None:
        names = set(method_names())
        _ADVERTISED_KINDS = [m for m in KIND_METHODS if m in names]
    return _ADVERTISED_KINDS


def gen_kind_call(rng, qn, m=None):
    gv = lambda d=1: V.gen_value(rng, d, qmi_names=qn)  # noqa
    m = m or rng.choice(advertised_kinds())
    a = [gv() for _ in range(rng.choice([0, 1, 1, 2, 2, 3, 4]))]
    k = [[n, gv()] for n in rng.sample(["x", "y", "c", "d", "zeta"], rng.choice([0, 0, 1, 2]))]
    if m == "k_kwonly" and rng.random() < 0.8 and not any(n == "c" for n, _ in k):
        k.append(["c", gv()])
    return {"m": m, "a": a, "k": k}


def gen_call(rng, qn, big=False):
    if rng.random() < 0.14 and advertised_kinds():
        return gen_kind_call(rng, qn)
    gv = lambda d=2: V.gen_value(rng, d, qmi_names=qn, big=big)  # noqa
    m = rng.choices(["echo", "ident", "shape", "pick", "combine", "describe", "raise_it", "raise_new", "accumulate",
                     "state", "tagged", "zz_last"], weights=[26, 10, 16, 5, 8, 5, 12, 6, 8, 2, 2, 1])[0]
    a, k = [], []
    if m in ("echo", "describe", "zz_last"):
        style = rng.choice(["pos", "kw", "mixed"])
        if style in ("pos", "mixed"):
            a = [gv(3 if rng.random() < 0.3 else 2) for _ in range(rng.choice([0, 1, 1, 2, 3, 3, 4, 5, 7]))]
        if style in ("kw", "mixed"):
            k = [[n, gv()] for n in _kwnames(rng, rng.choice([1, 1, 2, 3, 5]))]
    elif m == "ident":
        r = rng.random()
        if r < 0.6:
            a = [gv(3)]
        elif r < 0.85:
            k = [["x", gv(3)]]
        elif r < 0.9:
            a = []                                          # TypeError: missing argument
        elif r < 0.95:
            a = [gv(1), gv(1)]                              # TypeError: too many
        else:
            k = [["y", gv(1)]]                              # TypeError: unexpected keyword
    elif m == "shape":
        r = rng.random()
        if r < 0.35:
            a = [gv() for _ in range(rng.choice([1, 2, 3, 4, 5]))]
        elif r < 0.6:
            k = [[n, gv()] for n in rng.sample(["a", "b", "c", "extra", "zeta"], rng.randint(1, 5))]
            if not any(n == "a" for n, _ in k) and rng.random() < 0.8:
                k.append(["a", gv()])
        else:
            a = [gv() for _ in range(rng.choice([1, 2, 3, 4]))]
            k = [[n, gv()] for n in rng.sample(["c", "extra", "zeta", "b"] if len(a) < 2 else ["c", "extra", "zeta"], rng.randint(1, 3))]
            if rng.random() < 0.05:
                k.append(["a", gv(1)])                      # TypeError: multiple values
    elif m == "pick":
        n = rng.randint(0, 5)
        a = [["int", str(rng.randint(-1, n))]] + [gv() for _ in range(n)]
    elif m == "combine":
        r = rng.random()
        if r < 0.2:
            a = [["int", str(V._gen_int(rng))], ["int", str(V._gen_int(rng))]]
        elif r < 0.35:
            a = [["str", V._gen_str(rng)], ["str", V._gen_str(rng)]]
        elif r < 0.5:
            a = [["list", [gv(1)]], ["list", [gv(1), gv(1)]]]
        elif r < 0.6:
            a = [["bytes", V._gen_bytes_hex(rng)], ["bytes", V._gen_bytes_hex(rng)]]
        elif r < 0.75:
            dt, sh = rng.choice(V.DTYPES[:11]), list(rng.choice(V.SHAPES))
            a = [["nd", dt, sh, rng.randint(0, 9999), rng.choice(V.LAYOUTS)], ["nd", dt, sh, rng.randint(0, 9999), "C"]]
        elif r < 0.85:
            a = [["float", rng.choice(V.SPECIAL_FLOATS)], ["float", rng.choice(V.SPECIAL_FLOATS)]]
        else:
            a = [gv(1), gv(1)]                              # mostly TypeError
        if rng.random() < 0.3:
            if rng.random() < 0.5:
                k, a = [["x", a[0]], ["y", a[1]]], []
            else:
                k, a = [["y", a[1]]], a[:1]
    elif m == "raise_it":
        if rng.random() < 0.93:
            a = [V.gen_exc(rng, 2, qn)]
        else:
            a = [gv(1)]                                     # TypeError: exceptions must derive from BaseException
        if rng.random() < 0.2:
            k, a = [["exc", a[0]]], []
    elif m == "raise_new":
        nm = rng.choice(qn + V.BUILTIN_EXC[:12] + ["AttrError", "KwInitError", "NoSuchException"])
        a = [["str", [ord(c) for c in nm]]] + [(["str", V._gen_str(rng)] if rng.random() < 0.6 else gv(1))
                                                for _ in range(rng.choice([0, 1, 1, 2]))]
    elif m == "accumulate":
        a = [["str", V._gen_str(rng)[:6]]]
        if rng.random() < 0.6:
            a.append(gv())
        elif rng.random() < 0.5:
            k = [["value", gv()]]
    elif m == "tagged":
        a = [["int", str(rng.randint(0, 99))]]
        if rng.random() < 0.7:
            k = [["payload", gv()]]
    return {"m": m, "a": a, "k": k}


def gen_script(rng, qn, n_calls, big=False):
    return [gen_call(rng, qn, big) for _ in range(n_calls)]


def build_call(c):
    return tuple(V.build(s) for s in c["a"]), {n: V.build(s) for n, s in c["k"]}


def call_style(c):
    return "pos" if c["a"] and not c["k"] else "kw" if c["k"] and not c["a"] else "mixed" if c["a"] else "noargs"


# ---------------------------------------------------------------------------
# running: direct / proxies
# ---------------------------------------------------------------------------

def _outcome(fn):
    from harness import detsched as D
    try:
        return ("val", fn())
    except D.SchedAbort:
        raise
    except BaseException as e:  # noqa - an exception is an outcome
        return ("exc", e)


def new_direct():
    return obj_class()(types.SimpleNamespace(name="direct"), "direct")


def run_direct(script):
    obj = new_direct()
    outs = []
    for c in script:
        args, kwargs = build_call(c)
        outs.append(_outcome(lambda: getattr(obj, c["m"])(*args, **kwargs)))
    return outs


def filter_scope(script):
    """Drop the calls whose arguments or direct outcome plain pickle does not reproduce (outside the quantifier).
    Returns (kept, dropped)."""
    kept, dropped = [], []
    obj = new_direct()
    for c in script:
        args, kwargs = build_call(c)
        ok = V.pickle_roundtrips((args, kwargs))
        if ok:
            out = _outcome(lambda: getattr(obj, c["m"])(*args, **kwargs))
            ok = V.pickle_roundtrips(out[1])
            if not ok:                      # the call ran on the scratch object: rebuild its state
                obj = new_direct()
                for c2 in kept:
                    a2, k2 = build_call(c2)
                    _outcome(lambda: getattr(obj, c2["m"])(*a2, **k2))
        (kept if ok else dropped).append(c)
    return kept, dropped


def compare(d, p):
    """None if the proxy outcome `p` equals the direct outcome `d`, else the oracle clause that fails."""
    if p[0] == "hang":
        return "no-outcome"
    if d[0] != p[0]:
        return f"{d[0]}-became-{p[0]}:{type(p[1]).__name__}"
    if V.same(d[1], p[1]):
        return None
    return ("result-" if d[0] == "val" else "") + V.diff_clause(d[1], p[1])


def _run_calls(trace, proxy, pids, mode, script, outs):
    """Execute the script through `proxy`; append outcomes to `outs` as they become known."""
    from harness import detsched as D
    if mode == "blk":
        for c in script:
            args, kwargs = build_call(c)
            outs.append(_outcome(lambda: T.call_stub(trace, pids[0], proxy, c["m"], args, kwargs)))
        return
    nb = proxy.rpc_nonblocking
    chunk = 1 if mode == "nb" else 3 if mode == "nbrev" else len(script)          # "nball": everything outstanding at once
    i = 0
    while i < len(script):
        part = script[i:i + chunk]
        futs = []
        for c in part:
            args, kwargs = build_call(c)
            futs.append(_outcome(lambda: T.call_stub(trace, pids[1], nb, c["m"], args, kwargs)))
        res = [None] * len(part)
        for j in (range(len(part)) if mode == "nb" else reversed(range(len(part)))):      # nbrev / nball: wait in reverse
            f = futs[j]
            res[j] = f if f[0] == "exc" else _outcome(f[1].wait)
        outs.extend(res)
        i += chunk


def run_proxied(plan, variants, real_tcp=False, want_trace=True):
    """Run plan['script'] behind proxies, one fresh object per variant.  Returns (results, trace, outcome-info)."""
    script, names = plan["script"], plan.get("names", ["srv", "cli"])
    lock = plan.get("lock")
    results = {v: [] for v in variants}
    trace = T.Trace() if want_trace else None
    mnames = method_names()
    binding = plan.get("binding", BINDING)

    def body(w):
        srv = w.context(names[0], server=True)
        cli = None
        cls = obj_class()
        for vi, (placement, mode) in enumerate(variants):
            oname = f"obj{vi}"
            made = srv.make_rpc_object(oname, cls)
            if placement == "local":
                proxy = made if vi % 2 == 0 else srv.get_rpc_object_by_name(f"{names[0]}.{oname}")
            else:
                if cli is None:
                    cli = w.context(names[1])
                    w.connect(cli, srv)
                proxy = cli.get_rpc_object_by_name(f"{names[0]}.{oname}")
            pids = ((T.note_proxy(trace, mnames, binding[0], "blk", plan.get("params", HELPER_PARAMS)[0]),
                     T.note_proxy(trace, mnames, binding[1], "nb", plan.get("params", HELPER_PARAMS)[1])) if trace else (0, 0))
            if lock == "auto":
                assert proxy.lock()
            elif lock:
                assert proxy.lock(lock_token=lock)
            _run_calls(trace, proxy, pids, mode, script, results[(placement, mode)])
            if lock:
                proxy.unlock()
        if trace:
            trace.enabled = False
        return True

    T.TRACE = trace
    try:
        if real_tcp:
            info = _run_real(body)
        else:
            from harness.simworld import run_scenario
            out = run_scenario(plan.get("seed", 0), body, policy=plan.get("policy", "weighted"))
            info = {"deadlock": out.deadlock, "budget": out.budget, "error": out.error,
                    "thread_errors": out.thread_errors, "loop_exceptions": list(out.net.loop_exceptions) if out.net else []}
    finally:
        T.TRACE = None
    for v in variants:                       # a variant cut short by a deadlock: the next call had no outcome
        if len(results[v]) < len(script) and (info.get("deadlock") or info.get("budget") or info.get("error")):
            results[v].append(("hang", info.get("deadlock") or repr(info.get("error")) or "step budget"))
    return results, trace, info


class _RealWorld:
    """the subset of harness.simworld.World used by the scenario bodies, over real threads and loopback TCP"""

    def __init__(self):
        self.contexts = []

    def context(self, name, server=False):
        from qmi.core.context import QMI_Context
        from qmi.core.config_defs import CfgQmi, CfgContext
        cfg = CfgQmi(contexts={name: CfgContext(tcp_server_port=0)}) if server else None
        ctx = QMI_Context(name, cfg) if cfg is not None else QMI_Context(name)
        ctx.start()
        self.contexts.append(ctx)
        return ctx

    def connect(self, cli, srv):
        cli.connect_to_peer(srv.name, "127.0.0.1:%d" % srv.get_tcp_server_port())

    def spawn(self, fn, name="caller"):
        import threading
        box = types.SimpleNamespace(value=None, exc=None)

        def run():
            try:
                box.value = fn()
            except BaseException as e:  # noqa
                box.exc = e
        th = threading.Thread(target=run, daemon=True, name=name)
        box.join = lambda timeout=60: th.join(timeout)
        box.thread = th
        th.start()
        return box


def _run_real(body):
    """Run a scenario body on real loopback TCP (ephemeral port) under a watchdog thread."""
    import logging
    import threading
    w = _RealWorld()
    box = {}

    def main():
        try:
            box["value"] = body(w)
        except BaseException as e:  # noqa
            box["error"] = e
        finally:
            for c in reversed(w.contexts):
                try:
                    c.stop()
                except BaseException:  # noqa
                    pass
    prev = logging.root.manager.disable
    logging.disable(logging.CRITICAL)
    try:
        th = threading.Thread(target=main, daemon=True)      # contexts are created, started and stopped in this thread
        th.start()
        th.join(120)
    finally:
        logging.disable(prev)
    return {"deadlock": "watchdog: scenario did not finish in 120 s" if th.is_alive() else None, "budget": False,
            "error": box.get("error"), "thread_errors": [], "loop_exceptions": []}


# ---------------------------------------------------------------------------
# concurrent callers: each one must receive the outcome of its own invocation
# ---------------------------------------------------------------------------

def gen_conc_plan(rng, qn, seed, thorough=False):
    n_callers = rng.choice([2, 2, 3, 3, 4, 5, 6] if not thorough else [2, 3, 4, 6, 8, 12])
    callers = []
    for ci in range(n_callers):
        where = rng.choice(["local", "cliA", "cliA", "cliB"])
        mode = rng.choice(["blk", "nb", "nbrev"])
        ops = []
        for j in range(rng.randint(1, 4)):
            kind = rng.choices(["acc", "tag", "echo"], weights=[6, 2, 2])[0]
            ops.append([kind, V.gen_value(rng, 1, qmi_names=qn)])
        callers.append({"where": where, "mode": mode, "ops": ops, "own_proxy": rng.random() < 0.5})
    return {"seed": seed, "policy": rng.choice(["weighted", "weighted", "pct"]), "callers": callers,
            "same_name": rng.random() < 0.7, "change_points": None,
            "rid_bits": rng.choice([64, 64, 3, 1, 0])}


class _LowEntropy:
    """stand-in for the `random` module inside qmi.core.messaging: request ids drawn from 2**bits values, so that they
    collide.  Nothing in the property allows correlation to depend on the request id being unique across futures."""

    def __init__(self, seed, bits):
        self._r = random.Random(seed)
        self._bits = bits

    def getrandbits(self, n):
        return self._r.getrandbits(self._bits) if self._bits else 0

    def __getattr__(self, k):
        return getattr(random, k)


def _conc_call_spec(ci, j, op):
    kind, payload = op
    tag = ["str", [ord(ch) for ch in f"{ci}.{j}"]]
    if kind == "acc":
        return {"m": "accumulate", "a": [tag], "k": [["value", payload]]}
    if kind == "tag":
        return {"m": "tagged", "a": [tag, payload], "k": []}
    return {"m": "echo", "a": [tag], "k": [["data", payload]]}


def run_concurrent(plan, real_tcp=False, want_trace=True):
    """Returns (per-caller outcome lists, final state outcome, trace, info)."""
    callers = plan["callers"]
    results = [[] for _ in callers]
    final = []
    trace = T.Trace() if want_trace else None
    mnames = method_names()
    binding = plan.get("binding", BINDING)
    params = plan.get("params", HELPER_PARAMS)

    def body(w):
        srv = w.context("srv", server=True)
        made = srv.make_rpc_object("shared", obj_class())
        ctxs = {"local": srv}
        for nm in ("cliA", "cliB"):
            if any(c["where"] == nm for c in callers):
                ctxs[nm] = w.context("cli" if plan.get("same_name", True) else nm)
                w.connect(ctxs[nm], srv)

        def mkproxy(where):
            p = made if where == "local" else ctxs[where].get_rpc_object_by_name("srv.shared")
            pids = ((T.note_proxy(trace, mnames, binding[0], "blk", params[0]),
                     T.note_proxy(trace, mnames, binding[1], "nb", params[1])) if trace else (0, 0))
            return p, pids
        shared = {wh: mkproxy(wh) for wh in ctxs}
        threads = []
        for ci, c in enumerate(callers):
            proxy, pids = mkproxy(c["where"]) if c["own_proxy"] else shared[c["where"]]
            script = [_conc_call_spec(ci, j, op) for j, op in enumerate(c["ops"])]
            threads.append(w.spawn((lambda proxy=proxy, pids=pids, c=c, script=script, ci=ci:
                                    _run_calls(trace, proxy, pids, c["mode"], script, results[ci])), f"caller{ci}"))
        for t in threads:
            t.join()
        final.append(_outcome(lambda: made.state()))
        if trace:
            trace.enabled = False
        return True

    T.TRACE = trace
    import qmi.core.messaging as M
    saved_random = M.random
    if plan.get("rid_bits", 64) < 64:
        M.random = _LowEntropy(plan["seed"], plan["rid_bits"])      # request ids collide; addresses must still route
    try:
        if real_tcp:
            info = _run_real(body)
        else:
            from harness.simworld import run_scenario
            out = run_scenario(plan["seed"], body, policy=plan.get("policy", "weighted"),
                               change_points=plan.get("change_points"))
            info = {"deadlock": out.deadlock, "budget": out.budget, "error": out.error,
                    "thread_errors": out.thread_errors, "loop_exceptions": list(out.net.loop_exceptions) if out.net else []}
    finally:
        T.TRACE = None
        M.random = saved_random
    return results, (final[0] if final else None), trace, info


def conc_oracle(plan, results, final, info):
    """None, or (clause, detail): every caller got the outcome of *its own* invocation, and all outcomes together are
    what a direct object gives when the accumulate calls are made in the order the object processed them."""
    callers = plan["callers"]
    if info.get("deadlock") or info.get("budget"):
        return "no-outcome", f"deadlock/budget: {info.get('deadlock')}"
    if info.get("error") is not None:
        return "scenario-error", repr(info["error"])
    acc = []          # (n, ci, j, outcome)
    for ci, c in enumerate(callers):
        if len(results[ci]) != len(c["ops"]):
            return "no-outcome", f"caller {ci}: {len(results[ci])} outcomes for {len(c['ops'])} calls"
        for j, (op, out) in enumerate(zip(c["ops"], results[ci])):
            spec = _conc_call_spec(ci, j, op)
            tag = f"{ci}.{j}"
            if op[0] == "acc":
                if out[0] != "val" or not (isinstance(out[1], tuple) and len(out[1]) == 3):
                    return "wrong-outcome", f"caller {ci} call {j}: {out!r}"
                n, log, _ = out[1]
                if not (isinstance(log, tuple) and log and log[-1] == tag and n == len(log)):
                    return "foreign-outcome", f"caller {ci} call {j} (tag {tag}) received {out[1]!r}"
                acc.append((n, ci, j, out))
            else:
                d = run_direct([spec])[0]
                cl = compare(d, out)
                if cl:
                    own = out[0] == "val" and isinstance(out[1], tuple) and tag in repr(out[1])
                    return ("wrong-outcome" if own else "foreign-outcome"), f"caller {ci} call {j} (tag {tag}): {cl}: {out!r}"
    acc.sort(key=lambda e: e[0])
    if [e[0] for e in acc] != list(range(1, len(acc) + 1)):
        return "not-serialisable", f"call numbers {[e[0] for e in acc]}"
    obj = new_direct()
    for n, ci, j, out in acc:
        a, k = build_call(_conc_call_spec(ci, j, callers[ci]["ops"][j]))
        d = _outcome(lambda: obj.accumulate(*a, **k))
        cl = compare(d, out)
        if cl:
            return "not-serialisable", f"caller {ci} call {j}: direct replay in processing order gives {d!r}, proxy gave {out!r} ({cl})"
    d = _outcome(obj.state)
    if final is None or compare(d, final):
        return "final-state", f"direct {d!r} vs {final!r}"
    for ci, c in enumerate(callers):            # program order per caller
        ns = [e[0] for e in acc if e[1] == ci]
        if c["mode"] != "nbrev" and ns != sorted(ns):
            return "caller-order", f"caller {ci}: its calls were processed in order {ns}"
    return None


# ---------------------------------------------------------------------------
# client churn: connect / disconnect / reconnect histories, concurrent tagged calls after every step
# ---------------------------------------------------------------------------

_SLOW = None
_GATE = [None]          # the gate of the running churn scenario (the slow object lives in this process)


def slow_class():
    """RPC object with a method that stays pending until the scenario opens the gate."""
    global _SLOW
    if _SLOW is not None:
        return _SLOW
    from qmi.core.rpc import QMI_RpcObject, rpc_method

    class C02Slow(QMI_RpcObject):
        @rpc_method
        def hold(self, tag):
            g = _GATE[0]
            if g is not None:
                g.wait(60.0)
            return ("held", tag)

    _SLOW = C02Slow
    return _SLOW


def gen_churn_plan(rng, qn, seed, thorough=False):
    n_cli = rng.randint(3, 5)
    names = [rng.choice(["cli", "cli", "ca", "cb", "cc"]) for _ in range(n_cli)]
    connected = set()
    steps = []
    first = rng.sample(range(n_cli), rng.choice([2, 2, 3]))
    for k in first:
        steps.append(["connect", k])
        connected.add(k)
    for _ in range(rng.randint(2, 5 if not thorough else 8)):
        r = rng.random()
        if connected and (r < 0.5 or len(connected) == n_cli):
            # leaving in connection order (oldest first) is what makes a later alias computed from the *number* of
            # connections collide; mix with random leavers
            k = min(connected) if rng.random() < 0.5 else rng.choice(sorted(connected))
            steps.append(["disconnect", k])
            connected.discard(k)
        else:
            k = rng.choice([i for i in range(n_cli) if i not in connected])
            steps.append(["connect", k])
            connected.add(k)
    rounds = []
    for _ in steps:
        calls = {}
        for k in range(n_cli):
            cs = []
            for _c in range(rng.choice([1, 1, 2])):
                cs.append([[rng.choice(["hold", "hold", "tag", "nbtag"]), V.gen_value(rng, 1, qmi_names=qn)]
                           for _o in range(rng.randint(1, 3))])
            calls[str(k)] = cs
        rounds.append(calls)
    pend = rng.random() < 0.3
    # colliding request ids only with quiescent churn: the per-connection pending table is keyed by request id, so an
    # error reply on connection loss exists once per *id* (64 random bits in reality; C01 owns that table)
    return {"seed": seed, "policy": rng.choice(["weighted", "weighted", "pct"]), "names": names, "steps": steps,
            "rounds": rounds, "equalise": rng.random() < 0.7, "pending_at_disconnect": pend,
            "rid_bits": 64 if pend else rng.choice([64, 64, 64, 2])}


def run_churn(plan, real_tcp=False, want_trace=True):
    """Returns (records, trace, info); a record = dict(round, client, tag, kind, outcome, may_fail)."""
    records = []
    want_trace = want_trace and not plan.get("pending_at_disconnect")      # see the note in correspondence()
    trace = T.Trace() if want_trace else None
    binding = plan.get("binding", BINDING)
    params = plan.get("params", HELPER_PARAMS)

    def body(w):
        import threading
        from harness import detsched as D
        sim = not real_tcp

        def quiesce():
            if sim:
                D.TIME_SHIM.sleep(0.01)          # fires only when nothing else can run: everything pending is parked
            else:
                import time as _t
                _t.sleep(0.15)
        srv = w.context("srv", server=True)
        srv.make_rpc_object("fast", obj_class())
        srv.make_rpc_object("slow", slow_class())
        fnames = method_names()
        from qmi.core.rpc import make_interface_descriptor
        snames = [d.name for d in make_interface_descriptor(slow_class()).methods]
        clients = [None] * len(plan["names"])
        proxies = [None] * len(plan["names"])
        connected = set()
        for si, (action, k) in enumerate(plan["steps"]):
            pending_before = None
            if action == "connect":
                if clients[k] is None:
                    clients[k] = w.context(plan["names"][k])
                w.connect(clients[k], srv)
                connected.add(k)
                if proxies[k] is None:
                    pf = clients[k].get_rpc_object_by_name("srv.fast")
                    ps = clients[k].get_rpc_object_by_name("srv.slow")
                    pid = ((T.note_proxy(trace, fnames, binding[0], "blk", params[0]),
                            T.note_proxy(trace, fnames, binding[1], "nb", params[1]),
                            T.note_proxy(trace, snames, binding[1], "nb", params[1])) if trace else (0, 0, 0))
                    proxies[k] = (pf, ps, pid)
            elif not plan.get("pending_at_disconnect"):
                clients[k].disconnect_from_peer("srv")
                connected.discard(k)
                quiesce()                        # the server notices the closed connection
            else:
                pending_before = k               # disconnect while this client's calls of the round are pending (below)
            if plan.get("equalise") and connected:
                top = max(clients[c]._unique_counters.get("$future_", 0) for c in connected)
                for c in connected:
                    while clients[c]._unique_counters.get("$future_", 0) < top:
                        clients[c].make_unique_address("$future_")
            # one round of concurrent tagged calls from every connected client
            gate = D.Event() if sim else threading.Event()
            _GATE[0] = gate
            threads = []
            for c in sorted(connected):
                pf, ps, pid = proxies[c]
                for ci, ops in enumerate(plan["rounds"][si].get(str(c), [])):
                    def caller(c=c, ci=ci, ops=ops, pf=pf, ps=ps, pid=pid):
                        futs = []
                        for j, (kind, payload) in enumerate(ops):
                            tag = f"r{si}.c{c}.{ci}.{j}"
                            rec = {"round": si, "client": c, "tag": tag, "kind": kind, "payload": payload,
                                   "outcome": None, "may_fail": pending_before == c}
                            records.append(rec)
                            if kind == "hold":
                                futs.append((rec, _outcome(lambda: T.call_stub(trace, pid[2], ps.rpc_nonblocking, "hold", (tag,), {}))))
                            elif kind == "nbtag":
                                futs.append((rec, _outcome(lambda: T.call_stub(trace, pid[1], pf.rpc_nonblocking, "tagged", (tag,),
                                                                              {"payload": V.build(payload)}))))
                            else:
                                rec["outcome"] = _outcome(lambda: T.call_stub(trace, pid[0], pf, "tagged", (tag, V.build(payload)), {}))
                        for rec, f in reversed(futs):
                            rec["outcome"] = f if f[0] == "exc" else _outcome(f[1].wait)
                    threads.append(w.spawn(caller, f"r{si}c{c}_{ci}"))
            quiesce()                            # every hold() is pending now (gate closed); fast calls are done
            if pending_before is not None:
                clients[pending_before].disconnect_from_peer("srv")
                connected.discard(pending_before)
                quiesce()
            gate.set()
            for t in threads:
                t.join()
        _GATE[0] = None
        if trace:
            trace.enabled = False
        return True

    T.TRACE = trace
    import qmi.core.messaging as M
    saved_random = M.random
    if plan.get("rid_bits", 64) < 64:
        M.random = _LowEntropy(plan["seed"], plan["rid_bits"])
    try:
        if real_tcp:
            info = _run_real(body)
        else:
            from harness.simworld import run_scenario
            out = run_scenario(plan["seed"], body, policy=plan.get("policy", "weighted"),
                               change_points=plan.get("change_points"))
            info = {"deadlock": out.deadlock, "budget": out.budget, "error": out.error,
                    "thread_errors": out.thread_errors, "loop_exceptions": list(out.net.loop_exceptions) if out.net else []}
    finally:
        T.TRACE = None
        M.random = saved_random
        g = _GATE[0]
        _GATE[0] = None
        if g is not None and real_tcp:
            g.set()
    return records, trace, info


def churn_oracle(plan, records, info):
    """None or (clause, detail): every caller got the outcome carrying its own tag (or a delivery error when its own
    connection was the one closed under it), nobody got somebody else's value, no call is left without an outcome."""
    from qmi.core.exceptions import QMI_MessageDeliveryException
    foreign = None
    for r in records:
        out = r["outcome"]
        if out is None:
            continue
        exp = ("val", ("held", r["tag"])) if r["kind"] == "hold" else ("val", ("tagged", r["tag"], V.build(r["payload"])))
        if compare(exp, out) is None:
            continue
        if r["may_fail"] and out[0] == "exc" and isinstance(out[1], QMI_MessageDeliveryException):
            continue
        other = [q["tag"] for q in records if q is not r and q["tag"] in repr(out[1])] if out[0] == "val" else []
        if other:
            foreign = ("foreign-outcome", f"caller {r['tag']} ({r['kind']}, client {r['client']}) received {out[1]!r:.200}, "
                                          f"the outcome of {other[0]}")
            break
        if foreign is None:
            foreign = ("wrong-outcome", f"caller {r['tag']} ({r['kind']}, client {r['client']}, round {r['round']}) got "
                                        f"{out[0]} {out[1]!r:.200}")
    if foreign and foreign[0] == "foreign-outcome":
        return foreign
    missing = [r["tag"] for r in records if r["outcome"] is None]
    if info.get("deadlock") or info.get("budget") or missing:
        return "no-outcome", f"calls without outcome: {missing[:6]}; {str(info.get('deadlock'))[:200]}"
    if foreign:
        return foreign
    if info.get("error") is not None:
        return "scenario-error", repr(info["error"])[:300]
    return None


# ---------------------------------------------------------------------------
# rpc_timeout: in time = direct call; too late = QMI_RpcTimeoutException, the late reply touches nobody
# ---------------------------------------------------------------------------

def gen_timeout_plan(rng, qn, seed):
    return {"seed": seed, "policy": rng.choice(["weighted", "pct"]), "t1_where": rng.choice(["local", "peer"]),
            "pending": [rng.choice(["local", "peer"]) for _ in range(rng.randint(1, 3))],
            "payload": V.gen_value(rng, 1, qmi_names=qn), "t1_mode": rng.choice(["blk", "nbwait"])}


def run_timeouts(plan, real_tcp=False, want_trace=True):
    """Returns (checks, trace, info); a check = (name, expected, outcome)."""
    checks = []
    trace = T.Trace() if want_trace else None
    binding, params = plan.get("binding", BINDING), plan.get("params", HELPER_PARAMS)
    payload = plan["payload"]

    def body(w):
        import threading
        from harness import detsched as D
        from qmi.core.exceptions import QMI_RpcTimeoutException
        from qmi.core.rpc import make_interface_descriptor
        sim = not real_tcp
        short, long_ = (2.0, 500.0) if sim else (0.3, 60.0)
        srv = w.context("srv", server=True)
        lf = srv.make_rpc_object("fast", obj_class())
        ls = srv.make_rpc_object("slow", slow_class())
        cli = w.context("cli")
        w.connect(cli, srv)
        fn, sn = method_names(), [d.name for d in make_interface_descriptor(slow_class()).methods]
        prox = {"local": (lf, ls), "peer": (cli.get_rpc_object_by_name("srv.fast"), cli.get_rpc_object_by_name("srv.slow"))}
        pid = {}
        for wh in prox:
            pid[wh] = ((T.note_proxy(trace, fn, binding[0], "blk", params[0]), T.note_proxy(trace, fn, binding[1], "nb", params[1]),
                        T.note_proxy(trace, sn, binding[0], "blk", params[0]), T.note_proxy(trace, sn, binding[1], "nb", params[1]))
                       if trace else (0, 0, 0, 0))
        gate = D.Event() if sim else threading.Event()
        _GATE[0] = gate
        threads = []
        for i, wh in enumerate(plan["pending"]):
            def pend(i=i, wh=wh):
                f = T.call_stub(trace, pid[wh][3], prox[wh][1].rpc_nonblocking, "hold", (f"pend{i}",), {})
                checks.append((f"pending{i}:{wh}", ("val", ("held", f"pend{i}")), _outcome(f.wait)))
            threads.append(w.spawn(pend, f"pend{i}"))
        for wh in ("local", "peer"):
            def intime(wh=wh):
                out = _outcome(lambda: T.call_stub(trace, pid[wh][0], prox[wh][0], "tagged", (f"intime-{wh}",),
                                                   {"payload": V.build(payload), "rpc_timeout": long_}))
                checks.append((f"in-time:{wh}", ("val", ("tagged", f"intime-{wh}", V.build(payload))), out))
                out = _outcome(lambda: T.call_stub(trace, pid[wh][1], prox[wh][0].rpc_nonblocking, "tagged", ("x",), {"rpc_timeout": 1.0}))
                checks.append((f"nonblocking-rpc_timeout:{wh}", ("exctype", RuntimeError), out))
            threads.append(w.spawn(intime, f"intime-{wh}"))
        wh = plan["t1_where"]

        def t1():
            if plan["t1_mode"] == "blk":
                out = _outcome(lambda: T.call_stub(trace, pid[wh][2], prox[wh][1], "hold", ("T1",), {"rpc_timeout": short}))
            else:
                f = T.call_stub(trace, pid[wh][3], prox[wh][1].rpc_nonblocking, "hold", ("T1",), {})
                out = _outcome(lambda: f.wait(short))
            checks.append((f"too-late:{wh}:{plan['t1_mode']}", ("exctype", QMI_RpcTimeoutException), out))
            out = _outcome(lambda: T.call_stub(trace, pid[wh][0], prox[wh][0], "tagged", ("T1-after",), {}))
            checks.append((f"after-timeout:{wh}", ("val", ("tagged", "T1-after", None)), out))
        th = w.spawn(t1, "t1")
        th.join()
        gate.set()
        for t in threads:
            t.join()
        out = _outcome(lambda: T.call_stub(trace, pid[wh][2], prox[wh][1], "hold", ("T1-again",), {"rpc_timeout": long_}))
        checks.append((f"after-late-reply:{wh}", ("val", ("held", "T1-again")), out))
        _GATE[0] = None
        if trace:
            trace.enabled = False
        return True

    T.TRACE = trace
    try:
        if real_tcp:
            info = _run_real(body)
        else:
            from harness.simworld import run_scenario
            out = run_scenario(plan["seed"], body, policy=plan.get("policy", "weighted"))
            info = {"deadlock": out.deadlock, "budget": out.budget, "error": out.error,
                    "thread_errors": out.thread_errors, "loop_exceptions": list(out.net.loop_exceptions) if out.net else []}
    finally:
        T.TRACE = None
        g = _GATE[0]
        _GATE[0] = None
        if g is not None and real_tcp:
            g.set()
    return checks, trace, info


def checks_oracle(checks, info, expected_count=None):
    """None or (clause, detail) for a list of (name, expected, outcome)"""
    if info.get("deadlock") or info.get("budget"):
        return "no-outcome", f"{str(info.get('deadlock'))[:300]} (checks done: {[c[0] for c in checks]})"
    if info.get("error") is not None:
        return "scenario-error", repr(info["error"])[:300]
    for name, exp, out in checks:
        if exp[0] == "exctype":
            ok = out[0] == "exc" and type(out[1]) is exp[1]
        elif exp[0] == "true":
            ok = bool(out)
        else:
            ok = compare(exp, out) is None
        if not ok:
            return name.split(":")[0], f"{name}: expected {exp!r:.200}, got {out!r:.200}"
    if expected_count is not None and len(checks) != expected_count:
        return "no-outcome", f"{len(checks)} checks of {expected_count} completed"
    return None


# ---------------------------------------------------------------------------
# fixed corpus: locks / tokens in sync, context-manager protocol, chained exceptions, special return values
# ---------------------------------------------------------------------------

def run_corpus(seed, real_tcp=False):
    """Returns (checks, observations, trace, info)."""
    checks, obs = [], {}
    trace = T.Trace()

    def body(w):
        from qmi.core.exceptions import QMI_RuntimeException
        srv = w.context("srv", server=True)
        cli = w.context("cli")
        w.connect(cli, srv)
        fn = method_names()

        def mk(name):
            made = srv.make_rpc_object(name, obj_class())
            other = srv.get_rpc_object_by_name(f"srv.{name}")
            peer = cli.get_rpc_object_by_name(f"srv.{name}")
            return made, other, peer
        pids = (T.note_proxy(trace, fn, BINDING[0], "blk", HELPER_PARAMS[0]), T.note_proxy(trace, fn, BINDING[1], "nb", HELPER_PARAMS[1]))

        def call(p, m, *a, **k):
            return _outcome(lambda: T.call_stub(trace, pids[0], p, m, a, k))

        def callnb(p, m, *a, **k):
            f = _outcome(lambda: T.call_stub(trace, pids[1], p.rpc_nonblocking, m, a, k))
            return f if f[0] == "exc" else _outcome(f[1].wait)
        # ---- every kind of member the interface advertises (static, inherited, overridden, keyword-only, wrapped) ---------
        p, q, r = mk("kinds")
        for m in advertised_kinds():
            for a, k in (((), {}), ((1,), {}), ((1, 2), {"c": 3}), ((1, 2, 3, 4), {"c": 5, "zeta": 6}), ((), {"c": 1, "a": 2})):
                d = _outcome(lambda: getattr(new_direct(), m)(*a, **k))
                checks.append((f"member-kind:local:{m}{len(a)}+{len(k)}", d, call(p, m, *a, **k)))
                checks.append((f"member-kind:peer:{m}{len(a)}+{len(k)}", d, callnb(r, m, *a, **k)))
        locked = ("exctype", QMI_RuntimeException)
        # ---- locks: the token both stubs forward is the one lock() obtained -------------------------------------
        for who in ("local", "peer"):
            p, q, r = mk(f"lk{who}")
            owner, stranger, far = (p, q, r) if who == "local" else (r, p, q)
            checks.append((f"lock:{who}:granted", ("true",), owner.lock()))
            checks.append((f"lock-token-sync:{who}:after-lock", ("true",),
                           owner._lock_token is not None and owner._lock_token == owner.rpc_nonblocking._lock_token))
            checks.append((f"lock:{who}:owner-blocking", ("val", ((1,), {"k": 2})), call(owner, "echo", 1, k=2)))
            checks.append((f"lock:{who}:owner-nonblocking", ("val", ((1,), {"k": 2})), callnb(owner, "echo", 1, k=2)))
            checks.append((f"lock:{who}:stranger-blocking-refused", locked, call(stranger, "echo", 1)))
            checks.append((f"lock:{who}:stranger-nonblocking-refused", locked, callnb(stranger, "echo", 1)))
            checks.append((f"lock:{who}:stranger2-refused", locked, call(far, "accumulate", "x")))
            checks.append((f"lock:{who}:second-lock-denied", ("true",), stranger.lock() is False))
            checks.append((f"lock:{who}:state-untouched-by-refused-calls", ("val", (0, ())), call(owner, "state")))
            checks.append((f"lock:{who}:unlock", ("true",), owner.unlock()))
            checks.append((f"lock-token-sync:{who}:after-unlock", ("true",),
                           owner._lock_token is None and owner.rpc_nonblocking._lock_token is None))
            checks.append((f"lock:{who}:stranger-after-unlock", ("val", ((1,), {})), call(stranger, "echo", 1)))
            checks.append((f"lock:{who}:custom-token", ("true",), owner.lock(lock_token="tok")))
            checks.append((f"lock-token-sync:{who}:custom", ("true",), owner._lock_token == owner.rpc_nonblocking._lock_token))
            checks.append((f"lock:{who}:owner-custom-nonblocking", ("val", ((), {"z": None})), callnb(owner, "echo", z=None)))
            stranger.force_unlock()
            checks.append((f"lock:{who}:after-force-unlock", ("val", ((2,), {})), callnb(stranger, "echo", 2)))
        # ---- context-manager protocol ---------------------------------------------------------------------------
        direct = new_direct()
        with direct:
            direct.accumulate("body")
        try:
            with direct:
                raise KeyError("boom")
        except KeyError:
            pass
        want = direct.state()
        for who in ("local", "peer"):
            p, q, r = mk(f"cm{who}")
            px = p if who == "local" else r
            with px as bound:
                checks.append((f"context-manager:{who}:as-binds-the-proxy", ("true",), bound is px))
                px.accumulate("body")
            try:
                with px:
                    raise KeyError("boom")
            except KeyError:
                pass
            checks.append((f"context-manager:{who}:enter-exit-forwarded-like-direct", ("val", want), call(px, "state")))
        # ---- chained exceptions: type, args and attributes travel; __cause__ / __traceback__ do not (pickle) ------------
        p, q, r = mk("exc")
        for who, px in (("local", p), ("peer", r)):
            e = V.build(["exc", "QMI_InstrumentException", [["str", [98, 97, 100]], ["int", "7"]], [["detail", ["int", "5"]]], []])
            out = call(px, "raise_from", e, ValueError("root cause"))
            d = _outcome(lambda: new_direct().raise_from(
                V.build(["exc", "QMI_InstrumentException", [["str", [98, 97, 100]], ["int", "7"]], [["detail", ["int", "5"]]], []]),
                ValueError("root cause")))
            checks.append((f"chained-exception:{who}:type-args-attributes", d, out))
            if out[0] == "exc":
                obs[f"chained_exception_{who}_cause_carried"] = out[1].__cause__ is not None
                obs[f"chained_exception_{who}_traceback_carried"] = out[1].__traceback__ is not None
        # ---- return values that are the object itself / a proxy / a future ----------------------------------------------
        p, q, r = mk("ret")
        served = srv._rpc_object_map["ret"].rpc_object()
        out = call(p, "get_self")
        checks.append(("special-return:local:self-is-the-served-object", ("true",), out[0] == "val" and out[1] is served))
        out = call(p, "get_proxy")
        checks.append(("special-return:local:proxy-usable", ("true",), out[0] == "val" and out[1].state() == (0, ())))
        out = call(p, "get_future")
        checks.append(("special-return:local:future-usable", ("true",), out[0] == "val" and out[1].wait() == (0, ())))
        for m in ("get_self", "get_proxy", "get_future"):
            out = call(r, m)                          # not picklable: outside the quantifier — but the call must END
            obs[f"special_return_peer_{m}"] = f"{out[0]}:{type(out[1]).__name__}"
            checks.append((f"special-return:peer:{m}-has-an-outcome", ("true",), out[0] in ("val", "exc")))
        checks.append(("special-return:peer:object-still-serves", ("val", (0, ())), call(r, "state")))
        # ---- `with` on a peer proxy of a QMI_Instrument: __enter__ returns the (unpicklable) instrument -------------------
        from qmi.core.instrument import QMI_Instrument
        ip = srv.make_rpc_object("instr", QMI_Instrument)
        ir = cli.get_rpc_object_by_name("srv.instr")
        try:
            with ir:
                pass
            obs["with_peer_instrument_proxy"] = "works"
        except BaseException as e:  # noqa
            if type(e).__name__ in ("SchedAbort", "Deadlock", "StepBudget"):
                raise
            obs["with_peer_instrument_proxy"] = f"raises {type(e).__name__}; instrument left open: {ip.is_open()}"
            if ip.is_open():
                ip.close()
        trace.enabled = False
        return True

    T.TRACE = trace
    try:
        if real_tcp:
            info = _run_real(body)
        else:
            from harness.simworld import run_scenario
            out = run_scenario(seed, body)
            info = {"deadlock": out.deadlock, "budget": out.budget, "error": out.error,
                    "thread_errors": out.thread_errors, "loop_exceptions": list(out.net.loop_exceptions) if out.net else []}
    finally:
        T.TRACE = None
    return checks, obs, trace, info


# ---------------------------------------------------------------------------
# boundaries that live in the source: message size limit, queue bounds
# ---------------------------------------------------------------------------

def run_size_boundary(plan, want_trace=True):
    """Peer calls whose pickled request / reply size is swept across the size limit (exactly L, L-1 … L-16, L+1 …).
    What the statement allows is decided from what the *sender* did: a message it put on the wire must arrive (outcome =
    direct call); a message it refused gives QMI_MessageDeliveryException.  Returns (checks, offsets hit, info)."""
    import qmi.core.messaging as M
    checks, hit = [], []
    trace = T.Trace()
    limit = plan.get("limit")
    saved = M._PeerTcpConnection.MAX_MESSAGE_SIZE
    L = limit if limit is not None else saved
    offsets = plan.get("offsets")              # None = every size from L-18 to L+3

    def body(w):
        from qmi.core.exceptions import QMI_MessageDeliveryException
        srv = w.context("srv", server=True)
        srv.make_rpc_object("obj", obj_class())
        cli = w.context("cli")
        w.connect(cli, srv)
        r = cli.get_rpc_object_by_name("srv.obj")
        pid = T.note_proxy(trace, method_names(), BINDING[0], "blk", HELPER_PARAMS[0])
        M._PeerTcpConnection.MAX_MESSAGE_SIZE = L
        direct = new_direct()

        def one(kind, n):
            """returns (sent size or None if refused, outcome)"""
            mark = len(trace.sizes)
            if kind == "reply":
                out = _outcome(lambda: T.call_stub(trace, pid, r, "blob", (n,), {}))
                d = _outcome(lambda: direct.blob(n))
                want = "mrep"
            else:
                out = _outcome(lambda: T.call_stub(trace, pid, r, "size_of", (bytes(n),), {}))
                d = _outcome(lambda: direct.size_of(bytes(n)))
                want = "mreq"
            recs = [x for x in trace.sizes[mark:] if x[0] == want]
            size = recs[-1][1] if recs else None
            return size, d, out
        for kind in plan.get("kinds", ["reply", "request"]):
            n0 = max(L - 600, 10)
            size, d, out = one(kind, n0)
            if size is None or compare(d, out):
                checks.append((f"size-boundary:{kind}:calibration size={size} direct={d!r:.60} proxy={out!r:.120}", ("true",), False))
                return True
            overhead = size - n0
            ns = [L - overhead - k for k in (offsets if offsets is not None else range(18, -4, -1))]
            for n in ns:
                size, d, out = one(kind, n)
                if size is not None:
                    hit.append((kind, L - size))
                    checks.append((f"size-boundary:{kind}:sent-with-{L - size}-bytes-to-spare-must-arrive", d, out))
                else:
                    hit.append((kind, "refused"))
                    checks.append((f"size-boundary:{kind}:refused-by-sender-gives-delivery-error",
                                   ("exctype", QMI_MessageDeliveryException), out))
                if checks_oracle(checks[-1:], {}) is not None:
                    return True                       # the connection is most likely gone; stop here
        trace.enabled = False
        return True

    T.TRACE = trace
    try:
        from harness.simworld import run_scenario
        out = run_scenario(plan.get("seed", 0), body, max_steps=plan.get("max_steps", 400000),
                           split_prob=plan.get("split_prob", 0.7))
        info = {"deadlock": out.deadlock, "budget": out.budget, "error": out.error,
                "thread_errors": out.thread_errors, "loop_exceptions": list(out.net.loop_exceptions) if out.net else []}
    finally:
        T.TRACE = None
        M._PeerTcpConnection.MAX_MESSAGE_SIZE = saved
    return checks, hit, (trace if want_trace else None), info


def live_queue_bounds(ctx, name):
    """finite bounds of every deque / Queue reachable from the live objects a request or reply passes through"""
    import collections
    import queue
    mgr = ctx._rpc_object_map[name]
    roots = [mgr, getattr(mgr, "_rpc_thread", None), ctx._message_router, getattr(ctx._message_router, "_thread", None),
             getattr(ctx._message_router, "_socket_manager", None), ctx]
    out = []
    for o in roots:
        if o is None:
            continue
        for k, v in list(vars(o).items()):
            if isinstance(v, collections.deque) and v.maxlen is not None:
                out.append((f"{type(o).__name__}.{k}", v.maxlen))
            elif isinstance(v, queue.Queue) and v.maxsize > 0:
                out.append((f"{type(o).__name__}.{k}", v.maxsize))
    return out


def run_burst(plan):
    """q+1 un-waited calls behind a parked worker for every finite bound q found on the live objects (and for every small
    MAX_* constant), else a fixed large burst; same-context placement, real threads (no scheduler needed: every call
    must simply get its own outcome).  Returns (checks, facts, info)."""
    checks, facts = [], {}

    def body(w):
        import threading
        ctx = w.context("srv")
        p = ctx.make_rpc_object("slow", slow_class())
        bounds = live_queue_bounds(ctx, "slow")
        consts = [(n, v) for n, v, _, _ in live_limits() if v <= 100000]
        facts["finite_queue_bounds"] = bounds
        facts["small_max_constants"] = consts
        qs = sorted({b for _, b in bounds} | {v for _, v in consts})
        n_burst = (max(qs) + 1) if qs else plan.get("fixed_burst", 12000)
        n_burst = min(n_burst, plan.get("cap", 60000))
        facts["burst"] = n_burst
        gate = threading.Event()
        _GATE[0] = gate
        park = p.rpc_nonblocking.hold("park")
        futs = [p.rpc_nonblocking.hold(i) for i in range(n_burst)]
        gate.set()
        checks.append(("burst:parked-call", ("val", ("held", "park")), _outcome(lambda: park.wait(60.0))))
        bad = 0
        for i, f in enumerate(futs):
            out = _outcome(lambda: f.wait(20.0 if bad == 0 else 0.0))
            if compare(("val", ("held", i)), out):
                bad += 1
                if bad == 1:
                    checks.append((f"burst:call-{i}-of-{n_burst}-behind-a-parked-worker-gets-its-own-outcome", ("val", ("held", i)), out))
        facts["calls_without_own_outcome"] = bad
        _GATE[0] = None
        return True
    info = _run_real(body)
    g = _GATE[0]
    _GATE[0] = None
    if g is not None:
        g.set()
    return checks, facts, info


# ---------------------------------------------------------------------------
# proxies with a HISTORY: lock / unlock / hand-over / force_unlock / with / timeout / delivery error / reconnect,
# by the same and by other proxies; after every step every proxy is probed against the direct call
# ---------------------------------------------------------------------------

def gen_history_plan(rng, qn, seed):
    n_prox = 4                      # 0: proxy from make_rpc_object, 1: same context by name, 2: peer "cli", 3: peer "cli" (2nd context, same name) or "cb"
    toks = ["tok", "other-tok"]
    ops = []
    for _ in range(rng.randint(5, 12)):
        i = rng.randrange(n_prox)
        r = rng.random()
        if r < 0.22:
            ops.append(["lock", i])
        elif r < 0.32:
            ops.append(["lock_custom", i, rng.choice(toks)])
        elif r < 0.47:
            ops.append(["unlock", i])
        elif r < 0.60:
            ops.append(["unlock_custom", i, rng.choice(toks)])          # the documented hand-over release
        elif r < 0.74:
            ops.append(["force_unlock", i])
        elif r < 0.80:
            ops.append(["with", i])
        elif r < 0.88:
            ops.append(["timeout", i])
        elif r < 0.94:
            ops.append(["reconnect", rng.choice([2, 3])])
        else:
            ops.append(["delivery_error", rng.choice([2, 3])])
    return {"seed": seed, "policy": rng.choice(["weighted", "pct"]), "ops": ops, "same_name": rng.random() < 0.5,
            "payload": V.gen_value(rng, 1, qmi_names=qn)}


def run_history(plan, real_tcp=False, want_trace=True):
    """Returns (records, trace, info).  record = dict(step, proxy, tag, mode, outcome, connected)."""
    records = []
    trace = T.Trace()
    payload = plan["payload"]

    def body(w):
        import threading
        from harness import detsched as D
        sim = not real_tcp

        def quiesce():
            if sim:
                D.TIME_SHIM.sleep(0.01)
            else:
                import time as _t
                _t.sleep(0.15)
        srv = w.context("srv", server=True)
        made = srv.make_rpc_object("obj", obj_class())
        c2 = w.context("cli")
        c3 = w.context("cli" if plan.get("same_name") else "cb")
        w.connect(c2, srv)
        w.connect(c3, srv)
        ctxs = [srv, srv, c2, c3]
        prox = [made, srv.get_rpc_object_by_name("srv.obj"), c2.get_rpc_object_by_name("srv.obj"), c3.get_rpc_object_by_name("srv.obj")]
        fn = method_names()
        pids = [(T.note_proxy(trace, fn, BINDING[0], "blk", HELPER_PARAMS[0]), T.note_proxy(trace, fn, BINDING[1], "nb", HELPER_PARAMS[1]))
                for _ in prox]
        connected = [True] * 4
        gate = D.Event() if sim else threading.Event()
        gate.set()
        _GATE[0] = gate
        counter = [0]

        def probe(step):
            for i, p in enumerate(prox):
                counter[0] += 1
                mode = "blk" if (counter[0] + i) % 2 else "nb"
                tag = f"s{step}.p{i}.{counter[0]}"
                rec = {"step": step, "proxy": i, "tag": tag, "mode": mode, "connected": connected[i], "outcome": None}
                records.append(rec)
                if mode == "blk":
                    rec["outcome"] = _outcome(lambda: T.call_stub(trace, pids[i][0], p, "tagged", (tag,), {"payload": V.build(payload)}))
                else:
                    f = _outcome(lambda: T.call_stub(trace, pids[i][1], p.rpc_nonblocking, "tagged", (tag,), {"payload": V.build(payload)}))
                    rec["outcome"] = f if f[0] == "exc" else _outcome(f[1].wait)
        probe(0)
        for step, op in enumerate(plan["ops"], start=1):
            kind, i = op[0], op[1]
            p = prox[i]
            try:
                if not connected[i] and kind not in ("reconnect",):
                    pass                                    # a disconnected proxy's lock requests would only fail; skip
                elif kind == "lock":
                    p.lock()
                elif kind == "lock_custom":
                    p.lock(lock_token=op[2])
                elif kind == "unlock":
                    p.unlock()
                elif kind == "unlock_custom":
                    p.unlock(lock_token=op[2])
                elif kind == "force_unlock":
                    p.force_unlock()
                elif kind == "with":
                    try:
                        with p:
                            pass
                    except D.SchedAbort:
                        raise
                    except BaseException:  # noqa - refused under a foreign lock: part of the history, judged by the probes
                        pass
                elif kind == "timeout":
                    gate.clear()
                    _outcome(lambda: p.hold("late", rpc_timeout=2.0 if sim else 0.2))
                    gate.set()
                    quiesce()
                elif kind == "reconnect":
                    c = ctxs[i]
                    if connected[i]:
                        c.disconnect_from_peer("srv")
                        quiesce()
                    w.connect(c, srv)
                    connected[i] = True
                elif kind == "delivery_error":
                    c = ctxs[i]
                    if connected[i]:
                        c.disconnect_from_peer("srv")
                        quiesce()
                        connected[i] = False
            except D.SchedAbort:
                raise
            probe(step)
        _GATE[0] = None
        trace.enabled = False
        return True

    T.TRACE = trace
    try:
        if real_tcp:
            info = _run_real(body)
        else:
            from harness.simworld import run_scenario
            out = run_scenario(plan["seed"], body, policy=plan.get("policy", "weighted"))
            info = {"deadlock": out.deadlock, "budget": out.budget, "error": out.error,
                    "thread_errors": out.thread_errors, "loop_exceptions": list(out.net.loop_exceptions) if out.net else []}
    finally:
        T.TRACE = None
        g = _GATE[0]
        _GATE[0] = None
        if g is not None and real_tcp:
            g.set()
    return records, trace, info


def history_oracle(plan, records, trace, info):
    """None or (clause, detail).  For every probe call: what the object's lock was when the call was dispatched and which
    token the call carried are read at `_handle_method_rpc_request`; whenever the object is free, or locked with this
    call's token, the outcome must be the direct call's; otherwise it must be the 'locked by another proxy' refusal.
    A call made through a disconnected context must end in a delivery error; no call may stay without an outcome."""
    from qmi.core.exceptions import QMI_MessageDeliveryException, QMI_RuntimeException
    if info.get("deadlock") or info.get("budget"):
        return "no-outcome", f"{str(info.get('deadlock'))[:300]}"
    if info.get("error") is not None:
        return "scenario-error", repr(info["error"])[:300]
    payload = V.build(plan["payload"])
    for r in records:
        out = r["outcome"]
        where = f"step {r['step']} ({(['start'] + plan['ops'])[r['step']]}), proxy {r['proxy']}, {r['mode']}"
        if out is None:
            return "no-outcome", f"{where}: call {r['tag']} has no outcome"
        ex = trace.execs.get(r["tag"])
        if not r["connected"]:
            if not (out[0] == "exc" and isinstance(out[1], QMI_MessageDeliveryException)):
                return "disconnected-proxy", f"{where}: expected a delivery error, got {out!r:.200}"
            continue
        if ex is None:
            return "not-dispatched", f"{where}: the call never reached the object; outcome {out!r:.200}"
        lock, reqtok = ex
        if lock is None or lock == reqtok:
            cl = compare(("val", ("tagged", r["tag"], payload)), out)
            if cl:
                state = "object free" if lock is None else "object locked by this proxy"
                stale = "" if reqtok is None or lock is not None else f", proxy still sends the token {reqtok} of an earlier lock()"
                return "compatible-call-differs-from-direct", (f"{where}: {state}{stale}: direct call returns "
                                                               f"('tagged', {r['tag']!r}, …), proxy gave {out!r:.200}")
        else:
            if not (out[0] == "exc" and type(out[1]) is QMI_RuntimeException and "locked" in str(out[1])):
                return "incompatible-call-not-refused", f"{where}: object locked with {lock}, call carried {reqtok}: {out!r:.200}"
    return None


# ---------------------------------------------------------------------------
# a departed client's method is still EXECUTING when the next client calls: nobody may inherit its reply
# ---------------------------------------------------------------------------

def gen_inherit_plan(rng, seed):
    n_dep = rng.randint(1, 3)
    return {"seed": seed, "policy": rng.choice(["weighted", "pct"]), "stayer": rng.random() < 0.4,
            "departed": [{"name": rng.choice(["cli", "ca"]), "holds": rng.randint(1, 2)} for _ in range(n_dep)],
            "newcomers": [{"name": rng.choice(["cli", "cb"]), "holds": rng.randint(1, 3)} for _ in range(rng.randint(1, 2))],
            "leave_order": rng.sample(range(n_dep), n_dep)}


def run_inherit(plan, real_tcp=False):
    """Clients A1..An each start hold() calls (parked behind a closed gate) and disconnect; fresh clients B.. connect with
    the same call sequence (so their context-local future names coincide with the departed clients') and start their own
    hold() calls; only then the gate opens, so the departed clients' methods finish FIRST.  Every value names its call.
    Returns (records, info); record = dict(who, tag, outcome, departed)."""
    records = []

    def body(w):
        import threading
        from harness import detsched as D
        sim = not real_tcp

        def quiesce():
            if sim:
                D.TIME_SHIM.sleep(0.01)
            else:
                import time as _t
                _t.sleep(0.2)
        srv = w.context("srv", server=True)
        srv.make_rpc_object("slow", slow_class())
        gate = D.Event() if sim else threading.Event()
        _GATE[0] = gate
        waits = []

        def join(label, cfg, departed):
            ctx = w.context(cfg["name"])
            w.connect(ctx, srv)
            p = ctx.get_rpc_object_by_name("srv.slow")
            for j in range(cfg["holds"]):
                tag = f"{label}.call{j}"
                rec = {"who": label, "tag": tag, "outcome": None, "departed": departed}
                records.append(rec)
                f = _outcome(lambda: p.rpc_nonblocking.hold(tag))
                waits.append((rec, f))
            return ctx
        if plan.get("stayer"):
            join("stayer", {"name": "cs", "holds": 1}, False)
        gone = [join(f"departed{i}", cfg, True) for i, cfg in enumerate(plan["departed"])]
        quiesce()                                  # the first hold() is executing (parked on the gate), the others queue
        for i in plan["leave_order"]:
            gone[i].disconnect_from_peer("srv")
            quiesce()                              # the server has noticed
        for i, cfg in enumerate(plan["newcomers"]):
            join(f"newcomer{i}", cfg, False)
        quiesce()
        gate.set()                                 # now the departed clients' methods finish first, then the newcomers'
        for rec, f in waits:
            rec["outcome"] = f if f[0] == "exc" else _outcome(lambda: f[1].wait(120.0 if sim else 30.0))
        _GATE[0] = None
        return True

    if real_tcp:
        info = _run_real(body)
    else:
        from harness.simworld import run_scenario
        out = run_scenario(plan["seed"], body, policy=plan.get("policy", "weighted"))
        info = {"deadlock": out.deadlock, "budget": out.budget, "error": out.error,
                "thread_errors": out.thread_errors, "loop_exceptions": list(out.net.loop_exceptions) if out.net else []}
    g = _GATE[0]
    _GATE[0] = None
    if g is not None and real_tcp:
        g.set()
    return records, info


def inherit_oracle(plan, records, info):
    from qmi.core.exceptions import QMI_MessageDeliveryException
    first = None
    for r in records:
        out = r["outcome"]
        if out is None:
            continue
        if compare(("val", ("held", r["tag"])), out) is None:
            continue
        if r["departed"] and out[0] == "exc" and isinstance(out[1], QMI_MessageDeliveryException):
            continue
        if out[0] == "val" and any(q["tag"] in repr(out[1]) for q in records if q is not r):
            return "foreign-outcome", f"{r['tag']} received {out[1]!r:.120}: the outcome of another client's call"
        first = first or ("wrong-outcome", f"{r['tag']} got {out[0]} {out[1]!r:.200}")
    missing = [r["tag"] for r in records if r["outcome"] is None]
    if info.get("deadlock") or info.get("budget") or missing:
        return "no-outcome", f"calls without outcome: {missing[:5]}; {str(info.get('deadlock'))[:200]}"
    if first:
        return first
    if info.get("error") is not None:
        return "scenario-error", repr(info["error"])[:300]
    return None


# ---------------------------------------------------------------------------
# translator: how the stubs are bound, and which helper parameters a caller keyword can collide with
# ---------------------------------------------------------------------------

def _names_in(node):
    return {n.id for n in ast.walk(node) if isinstance(n, ast.Name)}


def extract_stub_facts(src: str, class_name: str):
    """(binding, helper parameter names) for one proxy class, from the AST of rpc.py.  Raises on unknown shapes."""
    tree = ast.parse(src)
    cls = next((n for n in tree.body if isinstance(n, ast.ClassDef) and n.name == class_name), None)
    if cls is None:
        raise ValueError(f"class {class_name} not found")
    init = next((n for n in cls.body if isinstance(n, ast.FunctionDef) and n.name == "__init__"), None)
    if init is None:
        raise ValueError(f"{class_name}.__init__ not found")
    loops = [n for n in ast.walk(init) if isinstance(n, ast.For) and isinstance(n.iter, ast.Attribute)
             and n.iter.attr == "methods" and isinstance(n.target, ast.Name)]
    if len(loops) != 1:
        raise ValueError(f"{class_name}.__init__: expected one loop over `….methods`, found {len(loops)}")
    loop = loops[0]
    loopvar = loop.target.id
    # the value that ends up in `setattr(self, <name>, X.__get__(self))`
    sets = [n for n in ast.walk(loop) if isinstance(n, ast.Call) and isinstance(n.func, ast.Name) and n.func.id == "setattr"
            and len(n.args) == 3 and isinstance(n.args[2], ast.Call) and isinstance(n.args[2].func, ast.Attribute)
            and n.args[2].func.attr == "__get__"]
    if len(sets) != 1 or not isinstance(sets[0].args[2].func.value, ast.Name):
        raise ValueError(f"{class_name}.__init__: cannot find `setattr(self, name, <fn>.__get__(self))` in the loop")
    fnvar = sets[0].args[2].func.value.id
    assigns = [n for n in loop.body if isinstance(n, ast.Assign) and len(n.targets) == 1
               and isinstance(n.targets[0], ast.Name) and n.targets[0].id == fnvar]
    defs_in_loop = [n for n in loop.body if isinstance(n, ast.FunctionDef) and n.name == fnvar]
    nested = {n.name: n for n in init.body if isinstance(n, ast.FunctionDef)}

    def closure_of(fn_node, bound):
        """the function object created: (lambda/def node, names bound per creation)"""
        return fn_node, bound

    lam, per_creation = None, set()
    if len(assigns) == 1:
        val = assigns[0].value
        if isinstance(val, ast.Lambda):
            lam = val
            per_creation = {a.arg for a in val.args.args + val.args.kwonlyargs if a.arg != "self"} - {"args", "kwargs"}
            defaults = val.args.defaults + [d for d in val.args.kw_defaults if d is not None]
            # `lambda self, *a, n=loopvar.name, **k:` binds per creation through the default
            per_creation = {a.arg for a, _ in zip(reversed(val.args.args + val.args.kwonlyargs), reversed(defaults))}
        elif isinstance(val, ast.Call) and isinstance(val.func, ast.Name) and val.func.id in nested:
            maker = nested[val.func.id]
            rets = [n for n in ast.walk(maker) if isinstance(n, ast.Return) and n.value is not None]
            if len(rets) != 1:
                raise ValueError(f"{class_name}: {maker.name} must have one return")
            rv = rets[0].value
            if isinstance(rv, ast.Name):
                inner = [n for n in maker.body if isinstance(n, ast.FunctionDef) and n.name == rv.id]
                if len(inner) != 1:
                    raise ValueError(f"{class_name}: {maker.name} returns an unknown name")
                lam = inner[0]
            elif isinstance(rv, ast.Lambda):
                lam = rv
            else:
                raise ValueError(f"{class_name}: {maker.name} returns neither a lambda nor a nested def")
            per_creation = {a.arg for a in maker.args.args}
            if not val.args or loopvar not in _names_in(val.args[0]):
                raise ValueError(f"{class_name}: {maker.name}(…) is not called with the loop variable's name")
        elif isinstance(val, ast.Call) and isinstance(val.func, ast.Attribute) and val.func.attr == "partial":
            raise ValueError(f"{class_name}: functools.partial stubs are not understood by the translator")
        else:
            raise ValueError(f"{class_name}: stub is created by an expression the translator does not understand")
    elif len(defs_in_loop) == 1:
        lam = defs_in_loop[0]
    else:
        raise ValueError(f"{class_name}.__init__: cannot find how `{fnvar}` is created")
    body = lam.body if isinstance(lam, ast.Lambda) else lam
    calls = [n for n in ast.walk(body) if isinstance(n, ast.Call) and isinstance(n.func, ast.Name)
             and n.func.id.endswith("rpc_method_call")]
    if len(calls) != 1:
        raise ValueError(f"{class_name}: the stub must call exactly one *_rpc_method_call helper")
    call = calls[0]
    if len(call.args) < 3:
        raise ValueError(f"{class_name}: helper call has too few positional arguments")
    name_arg_names = _names_in(call.args[2])
    if name_arg_names & per_creation and loopvar not in name_arg_names:
        binding = "perName"
    elif loopvar in name_arg_names:
        binding = "loopVariable"
    else:
        raise ValueError(f"{class_name}: cannot tell where the method name passed to {call.func.id} comes from")
    if not any(isinstance(a, ast.Starred) for a in call.args) or not any(k.arg is None for k in call.keywords):
        raise ValueError(f"{class_name}: the stub does not forward *args and **kwargs")
    helper = next((n for n in tree.body if isinstance(n, ast.FunctionDef) and n.name == call.func.id), None)
    if helper is None:
        raise ValueError(f"helper {call.func.id} not found at module level")
    n_pos = sum(1 for a in call.args if not isinstance(a, ast.Starred))
    if helper.args.vararg is None or helper.args.kwarg is None or len(helper.args.posonlyargs) + len(helper.args.args) != n_pos:
        raise ValueError(f"helper {helper.name}: signature does not match the stub's call")
    return binding, [a.arg for a in helper.args.args]


# ---------------------------------------------------------------------------
# translator 2: the limits in the source (size checks, queue bounds, MAX_* constants)
# ---------------------------------------------------------------------------

LIMIT_FILES = ["qmi/core/rpc.py", "qmi/core/messaging.py", "qmi/core/context.py"]
QUEUE_CTORS = {"deque": ("maxlen", 1), "Queue": ("maxsize", 0), "LifoQueue": ("maxsize", 0), "PriorityQueue": ("maxsize", 0)}


def _enclosing_sites(tree):
    """node -> 'Class.func' for every node"""
    site = {}

    def walk(node, name):
        for ch in ast.iter_child_nodes(node):
            nm = name
            if isinstance(ch, (ast.ClassDef, ast.FunctionDef, ast.AsyncFunctionDef)):
                nm = f"{name}.{ch.name}" if name else ch.name
            site[ch] = nm
            walk(ch, nm)
    walk(tree, "")
    return site


def _resolve_const(expr, modname):
    """value of a bound expression: literal, or a (class / module) constant looked up in the live module"""
    if isinstance(expr, ast.Constant):
        return expr.value
    import importlib
    mod = importlib.import_module(modname)
    if isinstance(expr, ast.Name):
        return getattr(mod, expr.id, None)
    if isinstance(expr, ast.Attribute):
        for obj in [mod] + [c for c in vars(mod).values() if isinstance(c, type)]:
            v = getattr(obj, expr.attr, None)
            if isinstance(v, int):
                return v
    return None


def extract_queues(files):
    """every deque / Queue constructed in the files: (site, bound or None)"""
    out = []
    for rel, src in files:
        tree = ast.parse(src)
        site = _enclosing_sites(tree)
        modname = rel[:-3].replace("/", ".")
        for node in ast.walk(tree):
            if not isinstance(node, ast.Call):
                continue
            fn = node.func.id if isinstance(node.func, ast.Name) else node.func.attr if isinstance(node.func, ast.Attribute) else None
            if fn not in QUEUE_CTORS:
                continue
            kw, pos = QUEUE_CTORS[fn]
            bexpr = next((k.value for k in node.keywords if k.arg == kw), None)
            if bexpr is None and len(node.args) > pos:
                bexpr = node.args[pos]
            if any(k.arg is None for k in node.keywords):
                raise ValueError(f"{rel}:{node.lineno}: {fn}(**…) — cannot tell whether it is bounded")
            bound = None
            if bexpr is not None:
                v = _resolve_const(bexpr, modname)
                if v is None and not (isinstance(bexpr, ast.Constant) and bexpr.value is None):
                    raise ValueError(f"{rel}:{node.lineno}: bound of {fn}(…) is not a constant the translator can resolve")
                bound = int(v) if v else None              # maxlen=None / maxsize=0 mean unbounded
            out.append((f"{rel.split('/')[-1]}:{site.get(node, '?')}:{fn}", bound))
    return out


def _inline(expr, func, lineno):
    """replace local names by the expression last assigned to them before `lineno` (single-target assignments)"""
    for _ in range(6):
        if not isinstance(expr, ast.Name):
            break
        best = None
        for n in ast.walk(func):
            if isinstance(n, ast.Assign) and len(n.targets) == 1 and isinstance(n.targets[0], ast.Name) \
                    and n.targets[0].id == expr.id and n.lineno < lineno and (best is None or n.lineno > best.lineno):
                best = n
        if best is None:
            break
        expr, lineno = best.value, best.lineno
    return expr, lineno


def _size_quantity(expr, func, lineno):
    """(kind, offset): kind 'sender' for len(pickle.dumps(..)), 'receiver' for int.from_bytes(recv_buf[1:9]); offset c for c + <that>"""
    expr, lineno = _inline(expr, func, lineno)
    if isinstance(expr, ast.BinOp) and isinstance(expr.op, ast.Add):
        for a, b in ((expr.left, expr.right), (expr.right, expr.left)):
            if isinstance(a, ast.Constant) and isinstance(a.value, int):
                kind, off = _size_quantity(b, func, lineno)
                return kind, off + a.value
        raise ValueError("size expression is a sum the translator does not understand")
    if isinstance(expr, ast.Call) and isinstance(expr.func, ast.Name) and expr.func.id == "len" and len(expr.args) == 1:
        inner, _ = _inline(expr.args[0], func, lineno)
        if isinstance(inner, ast.Call) and isinstance(inner.func, ast.Attribute) and inner.func.attr == "dumps":
            return "sender", 0
    if isinstance(expr, ast.Call) and isinstance(expr.func, ast.Attribute) and expr.func.attr == "from_bytes" and expr.args:
        a = expr.args[0]
        if isinstance(a, ast.Subscript) and isinstance(a.slice, ast.Slice) and isinstance(a.slice.lower, ast.Constant) \
                and isinstance(a.slice.upper, ast.Constant) and (a.slice.lower.value, a.slice.upper.value) == (1, 9):
            return "receiver", 0
    raise ValueError(f"line {lineno}: size expression compared with MAX_MESSAGE_SIZE is not understood: {ast.dump(expr)[:120]}")


def extract_size_checks(src):
    """every comparison against MAX_MESSAGE_SIZE in messaging.py: (site, is_sender, offset, strict)"""
    tree = ast.parse(src)
    site = _enclosing_sites(tree)
    funcs = {n: n for n in ast.walk(tree) if isinstance(n, (ast.FunctionDef, ast.AsyncFunctionDef))}
    out = []
    for func in funcs:
        for node in ast.walk(func):
            if not isinstance(node, ast.Compare) or len(node.ops) != 1:
                continue
            l, r, op = node.left, node.comparators[0], node.ops[0]
            is_lim = lambda e: isinstance(e, ast.Attribute) and e.attr == "MAX_MESSAGE_SIZE"  # noqa
            if is_lim(r) and isinstance(op, (ast.Gt, ast.GtE)):
                e, strict = l, isinstance(op, ast.Gt)
            elif is_lim(l) and isinstance(op, (ast.Lt, ast.LtE)):
                e, strict = r, isinstance(op, ast.Lt)
            elif is_lim(l) or is_lim(r):
                raise ValueError(f"line {node.lineno}: comparison with MAX_MESSAGE_SIZE of a kind the translator does not understand")
            else:
                continue
            if any(site.get(node, "").startswith(site.get(f2, "") + ".") for f2 in funcs if f2 is not func and site.get(f2)):
                pass
            kind, off = _size_quantity(e, func, node.lineno)
            out.append((site.get(node, "?"), kind == "sender", off, strict))
    # a function nested in another is visited twice: de-duplicate
    return sorted(set(out))


def live_limits():
    """every MAX_* integer constant at module or class level of qmi.core.rpc / qmi.core.messaging (live import)"""
    import importlib
    out = []
    for modname in ("qmi.core.rpc", "qmi.core.messaging"):
        mod = importlib.import_module(modname)
        for k, v in vars(mod).items():
            if k.startswith("MAX_") and isinstance(v, int) and not isinstance(v, bool):
                out.append((f"{modname.split('.')[-1]}.{k}", v, mod, k))
            if isinstance(v, type) and v.__module__ == modname:
                for ck, cv in vars(v).items():
                    if ck.startswith("MAX_") and isinstance(cv, int) and not isinstance(cv, bool):
                        out.append((f"{modname.split('.')[-1]}.{v.__name__}.{ck}", cv, v, ck))
    return sorted(out, key=lambda t: t[0])


def _lean_list(xs):
    return "[" + ", ".join(json.dumps(x) for x in xs) + "]"


# ---------------------------------------------------------------------------
# failures: signature, shrinking
# ---------------------------------------------------------------------------

def signature(variant, call, clause, d, p):
    import re
    if p[0] == "exc" and d[0] == "val" and isinstance(p[1], TypeError):
        m = re.search(r"rpc_method_call\(\) got multiple values for argument '(\w+)'", str(p[1]))
        if m and any(n == m.group(1) for n, _ in call["k"]):
            return f"keyword-argument-named-like-helper-parameter:{m.group(1)}"
    return f"proxy-vs-direct:{variant[0]}:{call['m']}:{clause}"


def eval_script(plan, variants, real_tcp=False):
    """Oracle on one script: list of (variant, call index, signature, detail)."""
    script = plan["script"]
    d = run_direct(script)
    res, _, info = run_proxied(plan, variants, real_tcp=real_tcp, want_trace=False)
    return _script_failures(plan, variants, d, res, info)


def _script_failures(plan, variants, d, res, info):
    script = plan["script"]
    out = []
    hung = False
    for v in variants:
        outs = res[v]
        if hung:
            break
        for i, c in enumerate(script):
            if i >= len(outs):
                break
            cl = compare(d[i], outs[i])
            if cl:
                out.append((v, i, signature(v, c, cl, d[i], outs[i]),
                            f"direct: {d[i][0]} {d[i][1]!r:.300}  proxy: {outs[i][0]} {outs[i][1]!r:.300}"))
                if outs[i][0] == "hang":
                    hung = True
                    break
    if info.get("error") is not None and not out:
        out.append((variants[0], 0, f"scenario-error:{type(info['error']).__name__}", repr(info["error"])[:300]))
    return out


def shrink_script_failure(plan, variant, idx, sig, real_tcp=False, budget=70):
    """Smallest script / values that still fail with the same signature."""
    evals = [0]

    def fails(script):
        if evals[0] >= budget:
            return False
        evals[0] += 1
        p2 = dict(plan, script=script)
        try:
            return any(f[2] == sig for f in eval_script(p2, [variant], real_tcp))
        except Exception:  # noqa
            return False
    script = plan["script"][: idx + 1]
    if fails(script[-1:]):
        script = script[-1:]
    else:
        i = 0
        while i < len(script) - 1:
            cand = script[:i] + script[i + 1:]
            if fails(cand):
                script = cand
            else:
                i += 1
    changed = True
    while changed and evals[0] < budget:
        changed = False
        c = script[-1]
        for pos in range(len(c["a"]) + len(c["k"])):
            cur = c["a"][pos] if pos < len(c["a"]) else c["k"][pos - len(c["a"])][1]
            for cand in V.shrink_candidates(cur)[:8]:
                c2 = {"m": c["m"], "a": list(c["a"]), "k": [list(x) for x in c["k"]]}
                if pos < len(c["a"]):
                    c2["a"][pos] = cand
                else:
                    c2["k"][pos - len(c["a"])][1] = cand
                if fails(script[:-1] + [c2]):
                    script = script[:-1] + [c2]
                    c = c2
                    changed = True
                    break
        # drop whole arguments
        for pos in reversed(range(len(c["a"]) + len(c["k"]))):
            c2 = {"m": c["m"], "a": list(c["a"]), "k": [list(x) for x in c["k"]]}
            if pos < len(c["a"]):
                del c2["a"][pos]
            else:
                del c2["k"][pos - len(c["a"])]
            if fails(script[:-1] + [c2]):
                script = script[:-1] + [c2]
                c = c2
                changed = True
    return script


# ---------------------------------------------------------------------------
# the check
# ---------------------------------------------------------------------------

CTX_NAMES = [["srv", "cli"], ["srv", "cli"], ["alpha-1", "beta_2"], ["S", "C(1)"], ["cli2", "cli"], ["node_b", "node_a"]]

CATALOGUE = [
    ["none"], ["bool", True], ["int", "0"], ["int", str(2 ** 64)], ["int", str(-2 ** 2049)], ["float", "nan"], ["float", "-0.0"],
    ["float", "inf"], ["float", "0.1"], ["complex", "-0.0", "1e-300"], ["str", []], ["str", [97, 0x1F600, 0x10FFFF]],
    ["bytes", ""], ["bytes", "50" * 20], ["bytearray", "00ff"], ["list", [["int", "1"], ["list", []]]],
    ["tuple", [["int", "1"], ["str", [98]], ["none"]]], ["dict", [[["str", [107]], ["list", [["int", "2"]]]], [["int", "3"], ["none"]]]],
    ["set", [["int", "1"], ["str", [97]]]], ["frozenset", [["int", "5"]]], ["range", 0, 5, 2],
    ["nd", "float64", [2, 3], 1, "C"], ["nd", "float32", [3], 2, "step"], ["nd", "int16", [2, 3], 3, "F"],
    ["nd", "complex64", [3], 4, "C"], ["nd", "<U5", [2], 5, "C"], ["nd", "rec", [2], 6, "C"], ["nd", "bool", [0], 7, "C"],
    ["nd", "int64", [], 8, "C"], ["npscalar", "float32", 9, 0], ["npscalar", "int8", 10, 1],
    ["nt", "Point", [["int", "1"], ["float", "2.5"]]], ["nt", "Reading", [["int", "1"], ["none"], ["str", [86]]]],
    ["enum", "Color", "BLUE"], ["enum", "Level", "HIGH"], ["enum", "Perm", 5],
    ["dc", "Sample", [["str", [115]], ["list", [["int", "1"]]], ["none"]]], ["dc", "Key", [["int", "1"], ["str", [107]]]],
    ["exc", "ValueError", [["str", [120]], ["int", "2"]], [], []],
    ["exc", "AttrError", [["str", [120]]], [["detail", ["int", "5"]]], []],
    ["exc", "KwInitError", [["str", [120]]], [], [["code", ["int", "7"]]]],
    ["shared", ["list", [["int", "1"]]]], ["selfref", ["int", "1"]],
]


import contextlib as _contextlib


@_contextlib.contextmanager
def _null():
    yield


class C02(Prop):
    id = "C02"
    lean_modules = ["QmiModel.Props.C02"]
    driver = "drv_c02"
    modelled_not_verified = [
        "pickle: value fidelity across pickle.dumps/loads is VALIDATED DIFFERENTIALLY (sampled values), NOT PROVED; the "
        "theorems assume decode (encode v) = some v for the values of the call; __cause__/__context__ of an exception are "
        "not carried by pickle (observed and recorded; type, args and attributes are compared)",
        "framing of the pickled bytes (identity in this model; property C06 owns it), the OS socket / simulated network",
        "Python argument binding of the generated lambda stubs (*args/**kwargs against the helper signature) is modelled by "
        "stubKwargs; binding kind and helper parameter list are regenerated from the AST on every run",
        "_RpcThread's request FIFO and threads (C01/C03); the lock protocol of the object (C04) — here the object's lock state is "
        "an input of dispatch, the proxy side (which token both stubs forward) is modelled (ProxyTokens) and checked",
        "time: a deadline is modelled as the moment waitUntilDeadline is evaluated; the virtual clock of the scheduler decides "
        "when that is (real clock in the loopback-TCP tier)",
        "failure branches of _SocketManager.send_message (message cannot be pickled / is too big / OS error) belong to C01; "
        "pickle.dumps is total in this model (the trace driver only checks the address rewrite of such a send)",
    ]
    extra_trusted = [
        "assumption named by proxy_eq_direct: pickle round-trips the argument, result and exception values of the call "
        "(values for which plain pickle.loads(pickle.dumps(v)) is not equal to v are outside the property's quantifier; "
        "they are detected, excluded from the oracle and counted in the evidence)",
        "harness/props/_c02_taps.py (taps) and _c02_values.py (value generator and the equality used by the oracle)",
    ]

    # -- translator ---------------------------------------------------------------------------------------
    def translate(self, ctx: Ctx):
        global BINDING, HELPER_PARAMS
        src = (core.REPO / "qmi/core/rpc.py").read_text()
        b1, p1 = extract_stub_facts(src, "QMI_RpcProxy")
        b2, p2 = extract_stub_facts(src, "QMI_RpcNonBlockingProxy")
        BINDING, HELPER_PARAMS = [b1, b2], [p1, p2]
        text = ("import QmiModel.Model.Forward\n"
                "/-! GENERATED by harness/props/c02.py (translate) from the AST of qmi/core/rpc.py — do not edit.\n"
                "How the forwarding stubs of the two proxy classes capture the method name, and the\n"
                "positional-or-keyword parameters of the helper they call (a caller keyword of that name collides). -/\n"
                "namespace QmiModel.Gen.StubBinding\nopen QmiModel.Forward\n\n"
                f"def blockingBinding : Binding := .{b1}\n"
                f"def nonBlockingBinding : Binding := .{b2}\n"
                f"def blockingHelperParams : List String := {_lean_list(p1)}\n"
                f"def nonBlockingHelperParams : List String := {_lean_list(p2)}\n\n"
                "end QmiModel.Gen.StubBinding\n")
        path = core.LEAN / "QmiModel/Gen/StubBinding.lean"
        core.write_if_changed(path, text)
        # limits
        files = [(rel, (core.REPO / rel).read_text()) for rel in LIMIT_FILES]
        queues = extract_queues(files)
        checks = extract_size_checks(dict(files)["qmi/core/messaging.py"])
        limits = live_limits()
        b = lambda x: "true" if x else "false"  # noqa
        text2 = ("import QmiModel.Model.Forward\n"
                 "/-! GENERATED by harness/props/c02.py (translate) from qmi/core/{rpc,messaging,context}.py — do not edit.\n"
                 "The comparisons against MAX_MESSAGE_SIZE, every deque/Queue constructed on the RPC path, every MAX_* constant. -/\n"
                 "namespace QmiModel.Gen.C02Limits\nopen QmiModel.Forward\n\n"
                 "def sizeChecks : List SizeCheck := [" +
                 ", ".join(f'{{ site := {json.dumps(st)}, sender := {b(sd)}, offset := {off}, strict := {b(stc)} }}' for st, sd, off, stc in checks) + "]\n"
                 "def queues : List QueueDecl := [" +
                 ", ".join(f'{{ site := {json.dumps(st)}, bound := {"none" if bd is None else f"some {bd}"} }}' for st, bd in queues) + "]\n"
                 "def limits : List (String × Nat) := [" + ", ".join(f"({json.dumps(n)}, {v})" for n, v, _, _ in limits) + "]\n\n"
                 "end QmiModel.Gen.C02Limits\n")
        path2 = core.LEAN / "QmiModel/Gen/C02Limits.lean"
        core.write_if_changed(path2, text2)
        return [path, path2]

    # -- correspondence -----------------------------------------------------------------------------------
    def _note_failure(self, res, seen, plan, v, i, sig, detail, real_tcp=False):
        if sig in seen:
            seen[sig] += 1
            return
        seen[sig] = 1
        if len(seen) > 10:                   # enough distinct failing inputs reported; the rest is counted only
            return
        small = shrink_script_failure(plan, v, i, sig, real_tcp)
        rp = {"kind": "script", "plan": dict(plan, script=small), "variant": list(v), "real_tcp": real_tcp}
        try:
            again = [f for f in eval_script(rp["plan"], [v], real_tcp) if f[2] == sig]
            detail = again[0][3] if again else detail
        except Exception:  # noqa
            pass
        res.failures.append(Failure(sig, f"{v[0]} proxy, {v[1]} call of {small[-1]['m']}: {detail} "
                                         f"[script of {len(small)} call(s), last: {json.dumps(small[-1])[:300]}]", rp))

    def _scripts(self, ctx, res, n_scripts, n_calls, seen, lines, outs, spans, real_tcp=False, big=False):
        rng = ctx.rng
        qn = V.qmi_exception_names()
        for si in range(n_scripts):
            raw = gen_script(rng, qn, n_calls, big)
            script, dropped = filter_scope(raw)
            res.count("calls_generated", len(raw))
            res.count("calls_outside_pickle_scope_excluded", len(dropped))
            for c in dropped:
                ks = []
                for s in c["a"] + [s for _, s in c["k"]]:
                    V.walk_kinds(s, ks)
                for k in set(ks):
                    if k.startswith("unpicklable") or k in ("nd:>i4", "nd:>f8"):
                        res.count(f"outside_scope_due_to_{k}")
            if not script:
                continue
            rot = si % 3
            variants = [VARIANTS[(2 * rot + j) % 6] for j in range(4)]
            plan = {"script": script, "seed": rng.randrange(1 << 30), "lock": rng.choice([None, None, None, "auto", "tok-7"]),
                    "names": rng.choice(CTX_NAMES), "policy": rng.choice(["weighted", "pct"])}
            d = run_direct(script)
            results, trace, info = run_proxied(plan, variants, real_tcp=real_tcp)
            for f in _script_failures(plan, variants, d, results, info):
                self._note_failure(res, seen, plan, f[0], f[1], f[2], f[3], real_tcp)
            if info.get("thread_errors"):
                res.count("scenarios_with_thread_errors")
            if info.get("loop_exceptions"):
                res.count("scenarios_with_event_loop_exceptions")
            l, o = trace.lines()
            spans.append((len(lines), len(l), {"kind": "script", "plan": plan, "variants": [list(v) for v in variants], "real_tcp": real_tcp}))
            lines += l
            outs += o
            if len(lines) > 250000:
                self._diff(res, lines, outs, spans)
            res.traces_validated += 1
            res.count("scenarios_tcp" if real_tcp else "scenarios_simnet")
            for v in variants:
                res.count(f"calls_via_{v[0]}_{v[1]}", len(results[v]))
            for c, dd in zip(script, d):
                ks = []
                for s in c["a"] + [s for _, s in c["k"]]:
                    V.walk_kinds(s, ks)
                for k in ks:
                    res.count("value_" + k)
                res.count("method_" + c["m"])
                res.count("style_" + call_style(c))
                res.count("direct_outcome_" + dd[0])
                if dd[0] == "exc":
                    res.count("exception_" + type(dd[1]).__name__)
                res.note_case(("call", json.dumps(c, sort_keys=True)), nontrivial=bool(c["a"] or c["k"]))
            if plan["lock"]:
                res.count("scripts_with_object_locked_by_the_calling_proxy")
            if si < 2 and not real_tcp:
                res.sample({"script": [json.dumps(c)[:200] for c in script[:3]], "variants": variants,
                            "direct_outcomes": [f"{o_[0]}:{o_[1]!r:.80}" for o_ in d[:3]]})

    def _concurrent(self, ctx, res, n, seen, lines, outs, spans, real_tcp=False, thorough=False):
        rng = ctx.rng
        qn = V.qmi_exception_names()
        for i in range(n):
            plan = gen_conc_plan(rng, qn, rng.randrange(1 << 30), thorough)
            for c in plan["callers"]:                        # payloads inside the pickle scope only
                for op in c["ops"]:
                    tries = 0
                    while not V.pickle_roundtrips(V.build(op[1])):
                        res.count("calls_outside_pickle_scope_excluded")
                        tries += 1
                        op[1] = V.gen_value(rng, 1, qmi_names=qn) if tries < 5 else ["int", "1"]
            results, final, trace, info = run_concurrent(plan, real_tcp=real_tcp)
            r = conc_oracle(plan, results, final, info)
            ncalls = sum(len(c["ops"]) for c in plan["callers"])
            res.note_case(("conc", json.dumps(plan, sort_keys=True)), nontrivial=len(plan["callers"]) >= 2)
            res.count("concurrent_scenarios" + ("_tcp" if real_tcp else ""))
            res.count("concurrent_calls", ncalls)
            res.count(f"concurrent_callers_{len(plan['callers'])}")
            if plan.get("rid_bits", 64) < 64:
                res.count("concurrent_scenarios_with_colliding_request_ids")
            if len({c["where"] for c in plan["callers"]} & {"cliA", "cliB"}) == 2 and plan["same_name"]:
                res.count("concurrent_scenarios_with_two_same_named_client_contexts")
            if r:
                sig = f"concurrent:{r[0]}"
                if sig not in seen:
                    seen[sig] = 1
                    small = self._shrink_conc(plan, r[0], real_tcp)
                    res.failures.append(Failure(sig, f"{len(small['callers'])} concurrent callers, seed {small['seed']}: {r[1][:400]}",
                                                {"kind": "conc", "plan": small, "real_tcp": real_tcp}))
                else:
                    seen[sig] += 1
            l, o = trace.lines()
            spans.append((len(lines), len(l), {"kind": "conc", "plan": plan, "real_tcp": real_tcp}))
            lines += l
            outs += o
            if len(lines) > 250000:
                self._diff(res, lines, outs, spans)
            res.traces_validated += 1
            if i < 1 and not real_tcp:
                res.sample({"concurrent_plan": json.dumps(plan)[:400]})

    def _add_trace(self, res, trace, case, lines, outs, spans):
        if trace is None:
            return
        l, o = trace.lines()
        spans.append((len(lines), len(l), case))
        lines += l
        outs += o
        res.traces_validated += 1
        if len(lines) > 250000:
            self._diff(res, lines, outs, spans)

    def _corpus(self, ctx, res, seen, lines, outs, spans, real_tcp=False):
        """fixed corpus, first on every seed: locks / tokens, context manager, chained exceptions, special return values"""
        for seed in ((ctx.seed, ctx.seed + 1000) if not real_tcp else (ctx.seed,)):
            checks, obs, trace, info = run_corpus(seed, real_tcp=real_tcp)
            r = checks_oracle(checks, info)
            res.count("corpus_checks" + ("_tcp" if real_tcp else ""), len(checks))
            res.note_case(("corpus", seed, real_tcp))
            res.extra.setdefault("observations", {}).update(obs)
            if r and f"corpus:{r[0]}" not in seen:
                seen[f"corpus:{r[0]}"] = 1
                res.failures.append(Failure(f"corpus:{r[0]}", f"fixed corpus (seed {seed}): {r[1][:400]}",
                                            {"kind": "corpus", "seed": seed, "real_tcp": real_tcp}))
            self._add_trace(res, trace, {"kind": "corpus", "seed": seed, "real_tcp": real_tcp}, lines, outs, spans)

    def _inherit(self, ctx, res, n, seen, real_tcp=False):
        rng = ctx.rng
        fixed = [{"seed": 1, "policy": "weighted", "stayer": False, "departed": [{"name": "ca", "holds": 1}],
                  "newcomers": [{"name": "cb", "holds": 1}], "leave_order": [0]},
                 {"seed": 2, "policy": "pct", "stayer": True, "departed": [{"name": "cli", "holds": 2}, {"name": "cli", "holds": 1}],
                  "newcomers": [{"name": "cli", "holds": 2}], "leave_order": [0, 1]}] if not real_tcp else []
        for k in range(len(fixed) + n):
            plan = fixed[k] if k < len(fixed) else gen_inherit_plan(rng, rng.randrange(1 << 30))
            records, info = run_inherit(plan, real_tcp=real_tcp)
            r = inherit_oracle(plan, records, info)
            res.note_case(("inherit", json.dumps(plan, sort_keys=True)))
            res.count("departed_client_still_executing_scenarios" + ("_tcp" if real_tcp else ""))
            res.count("departed_client_calls", len(records))
            if r and f"departed:{r[0]}" not in seen:
                seen[f"departed:{r[0]}"] = 1
                res.failures.append(Failure(f"departed:{r[0]}", f"departed clients {plan['departed']} leave in order {plan['leave_order']} with "
                                            f"their methods still executing, newcomers {plan['newcomers']}: {r[1][:300]}",
                                            {"kind": "inherit", "plan": plan, "real_tcp": real_tcp}))

    def _histories(self, ctx, res, n, seen, lines, outs, spans, real_tcp=False):
        rng = ctx.rng
        qn = V.qmi_exception_names()
        fixed = [  # the canonical ones first: owner locks, somebody else releases, owner calls
            [["lock", 0], ["force_unlock", 1]], [["lock", 2], ["force_unlock", 0]], [["lock_custom", 1, "tok"], ["unlock_custom", 0, "tok"]],
            [["lock_custom", 2, "tok"], ["unlock_custom", 3, "tok"]], [["lock", 3], ["reconnect", 3], ["force_unlock", 2]],
            [["lock", 0], ["timeout", 0], ["unlock", 0], ["with", 1]], [["lock", 2], ["delivery_error", 2], ["force_unlock", 1], ["reconnect", 2]],
        ] if not real_tcp else [[["lock", 2], ["force_unlock", 0]]]
        for k in range(len(fixed) + n):
            plan = gen_history_plan(rng, qn, rng.randrange(1 << 30))
            if k < len(fixed):
                plan["ops"] = fixed[k]
                plan["same_name"] = True
            if not V.pickle_roundtrips(V.build(plan["payload"])):
                plan["payload"] = ["int", "1"]
            records, trace, info = run_history(plan, real_tcp=real_tcp)
            r = history_oracle(plan, records, trace, info)
            res.note_case(("history", json.dumps(plan, sort_keys=True)))
            res.count("history_scenarios" + ("_tcp" if real_tcp else ""))
            res.count("history_probe_calls", len(records))
            for rec in records:
                ex = trace.execs.get(rec["tag"])
                if ex is not None:
                    lock, tok = ex
                    res.count("history_probe_object_" + ("free" if lock is None else "locked") + "_proxy_token_" +
                              ("none" if tok is None else "own" if tok == lock else "stale_or_foreign"))
            for op in plan["ops"]:
                res.count("history_op_" + op[0])
            if r and f"history:{r[0]}" not in seen:
                seen[f"history:{r[0]}"] = 1
                small = self._shrink_history(plan, r[0], real_tcp)
                rr = history_oracle(small, *self._rerun_history(small, real_tcp)) or r
                res.failures.append(Failure(f"history:{r[0]}", f"proxy history {small['ops']}: {rr[1][:400]}",
                                            {"kind": "history", "plan": small, "real_tcp": real_tcp}))
            self._add_trace(res, trace, {"kind": "history", "plan": plan, "real_tcp": real_tcp}, lines, outs, spans)

    def _rerun_history(self, plan, real_tcp):
        records, trace, info = run_history(plan, real_tcp=real_tcp)
        return records, trace, info

    def _shrink_history(self, plan, clause, real_tcp):
        def fails(p):
            try:
                r = history_oracle(p, *self._rerun_history(p, real_tcp))
                return r is not None and r[0] == clause
            except Exception:  # noqa
                return False
        cur, budget, i = plan, 30, 0
        while i < len(cur["ops"]) and budget > 0:
            cand = dict(cur, ops=cur["ops"][:i] + cur["ops"][i + 1:])
            budget -= 1
            if fails(cand):
                cur = cand
            else:
                i += 1
        return cur

    def _limits(self, ctx, res, seen, lines, outs, spans):
        """cases AT every limit that lives in the source (read from the live code on this run)"""
        lims = live_limits()
        res.extra["limits_read_from_live_code"] = [(n, v) for n, v, _, _ in lims]
        plans = [{"seed": ctx.rng.randrange(1 << 30), "limit": ctx.rng.randint(3000, 20000)} for _ in range(ctx.scale(2, 12))]
        plans.append({"seed": ctx.rng.randrange(1 << 30), "limit": None, "offsets": [17, 16, 10, 9, 8, 7, 2, 1, 0, -1],
                      "max_steps": 60000000, "split_prob": 0.0})          # the real MAX_MESSAGE_SIZE of the connection class
        for plan in plans:
            checks, hit, trace, info = run_size_boundary(plan)
            r = checks_oracle(checks, info)
            res.note_case(("size-boundary", json.dumps(plan, sort_keys=True)))
            res.count("size_boundary_scenarios")
            res.count("size_boundary_calls", len(checks))
            for kind, off in hit:
                res.count(f"size_boundary_{kind}_{'refused_by_sender' if off == 'refused' else 'bytes_to_spare_' + str(off)}")
            if r and f"limit:{r[0]}" not in seen:
                seen[f"limit:{r[0]}"] = 1
                res.failures.append(Failure(f"limit:{r[0]}", f"message size limit {plan['limit'] or 'as in the source'}: {r[1][:400]}",
                                            {"kind": "size", "plan": plan}))
            if plan["limit"] is not None:
                self._add_trace(res, trace, {"kind": "size", "plan": plan}, lines, outs, spans)
        bplan = {"fixed_burst": 12000}
        checks, facts, info = run_burst(bplan)
        r = checks_oracle(checks, info)
        res.extra["burst_facts"] = facts
        res.note_case(("burst", facts.get("burst")))
        res.count("burst_calls_behind_parked_worker", facts.get("burst", 0))
        if r and f"limit:{r[0]}" not in seen:
            seen[f"limit:{r[0]}"] = 1
            res.failures.append(Failure(f"limit:{r[0]}", f"burst of {facts.get('burst')} un-waited calls (bounds found: "
                                                         f"{facts.get('finite_queue_bounds')}, {facts.get('small_max_constants')}): {r[1][:300]}",
                                        {"kind": "burst", "plan": bplan}))

    def _timeouts(self, ctx, res, n, seen, lines, outs, spans, real_tcp=False):
        rng = ctx.rng
        qn = V.qmi_exception_names()
        for i in range(n):
            plan = gen_timeout_plan(rng, qn, rng.randrange(1 << 30))
            if not V.pickle_roundtrips(V.build(plan["payload"])):
                plan["payload"] = ["int", "1"]
            checks, trace, info = run_timeouts(plan, real_tcp=real_tcp)
            r = checks_oracle(checks, info, expected_count=len(plan["pending"]) + 7)
            res.note_case(("timeout", json.dumps(plan, sort_keys=True)))
            res.count("timeout_scenarios" + ("_tcp" if real_tcp else ""))
            res.count("timeout_checks", len(checks))
            if r and f"timeout:{r[0]}" not in seen:
                seen[f"timeout:{r[0]}"] = 1
                res.failures.append(Failure(f"timeout:{r[0]}", f"rpc_timeout scenario (seed {plan['seed']}): {r[1][:400]}",
                                            {"kind": "timeout", "plan": plan, "real_tcp": real_tcp}))
            self._add_trace(res, trace, {"kind": "timeout", "plan": plan, "real_tcp": real_tcp}, lines, outs, spans)

    def _churn(self, ctx, res, n, seen, lines, outs, spans, real_tcp=False, thorough=False):
        rng = ctx.rng
        qn = V.qmi_exception_names()
        for i in range(n):
            plan = gen_churn_plan(rng, qn, rng.randrange(1 << 30), thorough)
            for calls in plan["rounds"]:
                for cs in calls.values():
                    for ops in cs:
                        for op in ops:
                            if not V.pickle_roundtrips(V.build(op[1])):
                                res.count("calls_outside_pickle_scope_excluded")
                                op[1] = ["int", "1"]
            records, trace, info = run_churn(plan, real_tcp=real_tcp)
            r = churn_oracle(plan, records, info)
            res.note_case(("churn", json.dumps(plan, sort_keys=True)))
            res.count("churn_scenarios" + ("_tcp" if real_tcp else ""))
            res.count("churn_calls", len(records))
            res.count("churn_steps_connect", sum(1 for a, _ in plan["steps"] if a == "connect"))
            res.count("churn_steps_disconnect", sum(1 for a, _ in plan["steps"] if a == "disconnect"))
            if plan["pending_at_disconnect"]:
                res.count("churn_scenarios_disconnecting_with_calls_pending")
            acts = [a for a, _ in plan["steps"]]
            if any(acts[j] == "disconnect" and "connect" in acts[j + 1:] for j in range(len(acts))):
                res.count("churn_scenarios_with_connect_after_a_disconnect")
            if r:
                sig = f"churn:{r[0]}"
                if sig not in seen:
                    seen[sig] = 1
                    small = self._shrink_churn(plan, r[0], real_tcp)
                    res.failures.append(Failure(sig, f"client churn {small['steps']} (names {small['names']}, seed {small['seed']}): {r[1][:400]}",
                                                {"kind": "churn", "plan": small, "real_tcp": real_tcp}))
                else:
                    seen[sig] += 1
            if trace is not None:
                l, o = trace.lines()
                spans.append((len(lines), len(l), {"kind": "churn", "plan": plan, "real_tcp": real_tcp}))
                lines += l
                outs += o
                res.traces_validated += 1
                if len(lines) > 250000:
                    self._diff(res, lines, outs, spans)
            if i < 1 and not real_tcp:
                res.sample({"churn_plan": json.dumps({k: plan[k] for k in ("names", "steps", "equalise", "pending_at_disconnect")})})

    def _shrink_churn(self, plan, clause, real_tcp):
        def fails(p):
            try:
                records, _, info = run_churn(p, real_tcp=real_tcp, want_trace=False)
                r = churn_oracle(p, records, info)
                return r is not None and r[0] == clause
            except Exception:  # noqa
                return False
        cur = plan
        budget = 25
        while len(cur["steps"]) > 1 and budget > 0:          # drop churn steps from the end
            cand = dict(cur, steps=cur["steps"][:-1], rounds=cur["rounds"][:-1])
            budget -= 1
            if fails(cand):
                cur = cand
            else:
                break
        for si in range(len(cur["rounds"]) - 1):              # silence the rounds before the last one
            if budget <= 0:
                break
            rounds = [dict(r) for r in cur["rounds"]]
            rounds[si] = {}
            budget -= 1
            if fails(dict(cur, rounds=rounds)):
                cur = dict(cur, rounds=rounds)
        return cur

    def _shrink_conc(self, plan, clause, real_tcp):
        def fails(p):
            try:
                results, final, _, info = run_concurrent(p, real_tcp=real_tcp, want_trace=False)
                r = conc_oracle(p, results, final, info)
                return r is not None and r[0] == clause
            except Exception:  # noqa
                return False
        cur = plan
        budget = 40
        i = 0
        while i < len(cur["callers"]) and budget > 0 and len(cur["callers"]) > 1:
            cand = dict(cur, callers=cur["callers"][:i] + cur["callers"][i + 1:])
            budget -= 1
            if fails(cand):
                cur = cand
            else:
                i += 1
        for ci in range(len(cur["callers"])):
            while len(cur["callers"][ci]["ops"]) > 1 and budget > 0:
                cs = [dict(c) for c in cur["callers"]]
                cs[ci]["ops"] = cs[ci]["ops"][:-1]
                budget -= 1
                if fails(dict(cur, callers=cs)):
                    cur = dict(cur, callers=cs)
                else:
                    break
        return cur

    def _diff(self, res, lines, outs, spans):
        if not lines:
            return
        model = LeanDriver(self.driver).run(lines)
        res.count("trace_lines_replayed_on_model", len(lines))
        for l in lines:
            res.count("trace_op_" + l.split(" ", 1)[0])
        k = diff_streams(lines, outs, model)
        if k is not None and not any(b.stage == "correspondence" for b in res.broken):
            for (start, ln, case) in spans:
                if start <= k < start + ln:
                    ctxl = "; ".join(lines[max(start, k - 3):k])
                    res.broken.append(Broken("correspondence", "Forward model vs message-level trace",
                                             f"trace line {k - start}: op={lines[k]!r} impl={outs[k]!r} model={model[k]!r} (after: {ctxl})",
                                             case=case))
                    break
        del lines[:], outs[:], spans[:]

    def correspondence(self, ctx: Ctx) -> Result:
        res = Result(rule="case = one call (method, positional specs, keyword specs) of a generated script run on a direct object and "
                          "behind 4 of {local,peer}x{blocking,non-blocking,non-blocking waited in reverse} proxies (fresh object "
                          "each), or one concurrent-callers plan; non-trivial = the call has arguments / the plan has >= 2 callers; "
                          "distinct by the JSON of the call / plan; the oracle is the comparison of every proxy outcome with the "
                          "direct outcome (type, ==/array bytes/repr; exception type, args, attributes)")
        res.assumptions.append("pickle round-trip of the sampled values (validated by the differential run, not proved)")
        seen: dict = {}
        lines, outs, spans = [], [], []
        with T.installed():
            # regression: the calls of `historical_keyword_collision` (and any helper parameter name the source has now)
            for nm in sorted(set(HELPER_PARAMS[0] + HELPER_PARAMS[1] + COLLIDING)):
                plan = {"script": [{"m": "echo", "a": [], "k": [[nm, ["int", "0"]]]}], "seed": 0, "lock": None, "names": ["srv", "cli"]}
                vs = [("local", "blk"), ("peer", "nb")]
                for f in eval_script(plan, vs):
                    self._note_failure(res, seen, plan, f[0], f[1], f[2], f[3])
                res.count("former_collision_keyword_replays")
                res.note_case(("witness", nm))
            self._corpus(ctx, res, seen, lines, outs, spans)
            self._limits(ctx, res, seen, lines, outs, spans)
            self._histories(ctx, res, ctx.scale(40, 500), seen, lines, outs, spans)
            self._timeouts(ctx, res, ctx.scale(50, 500), seen, lines, outs, spans)
            ctx.log(f"fixed corpus and rpc_timeout scenarios done, {len(res.failures)} failing signatures")
            self._scripts(ctx, res, ctx.scale(165, 2000), 8, seen, lines, outs, spans)
            ctx.log(f"scripts done: {res.evaluations} calls compared, {len(res.failures)} failing signatures")
            self._concurrent(ctx, res, ctx.scale(250, 3000), seen, lines, outs, spans, thorough=not ctx.quick)
            ctx.log(f"concurrent scenarios done ({len(lines)} trace lines)")
            # client churn.  (When a client disconnects with calls pending, the server's worker thread and its socket
            # thread race on the peer map — `send` may or may not still see the connection — so those scenarios are
            # judged by the outcome oracle only; the quiescent-churn ones are also replayed on the Lean model.)
            self._churn(ctx, res, ctx.scale(70, 700), seen, lines, outs, spans, thorough=not ctx.quick)
            self._inherit(ctx, res, ctx.scale(40, 400), seen)
            ctx.log(f"client churn scenarios done ({len(lines)} trace lines)")
            self._diff(res, lines, outs, spans)
            # many futures outstanding at once in one context (address uniqueness far beyond a handful of callers)
            n_out = ctx.scale(150, 1300)
            plan = {"script": [{"m": "tagged", "a": [["int", str(i)]], "k": [["payload", ["int", str(i * i)]]]} for i in range(n_out)],
                    "seed": ctx.rng.randrange(1 << 30), "lock": None, "names": ["srv", "cli"]}
            vs = [("local", "nball"), ("peer", "nball")]
            for f in eval_script(plan, vs):
                self._note_failure(res, seen, plan, f[0], f[1], f[2], f[3])
            res.count("calls_outstanding_at_once_scenario_size", n_out)
            res.note_case(("outstanding", n_out))
            if not ctx.quick:
                self._scripts(ctx, res, 250, 8, seen, lines, outs, spans, real_tcp=True, big=True)
                self._concurrent(ctx, res, 200, seen, lines, outs, spans, real_tcp=True, thorough=True)
                self._churn(ctx, res, 40, seen, lines, outs, spans, real_tcp=True, thorough=True)
                self._corpus(ctx, res, seen, lines, outs, spans, real_tcp=True)
                self._timeouts(ctx, res, 15, seen, lines, outs, spans, real_tcp=True)
                self._histories(ctx, res, 20, seen, lines, outs, spans, real_tcp=True)
                self._inherit(ctx, res, 6, seen, real_tcp=True)
                ctx.log("real loopback TCP scenarios done")
                self._diff(res, lines, outs, spans)
        res.extra["occurrences_per_failure_signature"] = dict(seen)
        res.extra["stub_binding_from_ast"] = {"QMI_RpcProxy": BINDING[0], "QMI_RpcNonBlockingProxy": BINDING[1],
                                              "helper_params": HELPER_PARAMS}
        res.extra["level_note"] = ("forwarding/routing model proved in Lean; value fidelity across pickle validated differentially, "
                                   "not proved")
        return res

    # -- search -------------------------------------------------------------------------------------------------
    def search(self, ctx: Ctx, broken) -> Result:
        res = Result()
        seen: dict = {}
        with T.installed():
            for b in broken:
                c = b.case
                if not c:
                    continue
                if c.get("kind") == "script":
                    vs = [tuple(v) for v in c["variants"]]
                    for f in eval_script(c["plan"], vs, c.get("real_tcp", False)):
                        self._note_failure(res, seen, c["plan"], f[0], f[1], f[2], f[3], c.get("real_tcp", False))
                    res.note_case(("case", json.dumps(c["plan"], sort_keys=True)))
                elif c.get("kind") in ("corpus", "timeout", "size", "burst", "history", "inherit"):
                    f = self.replay(ctx, c)
                    res.note_case(("case", json.dumps(c, sort_keys=True, default=repr)))
                    if f is not None and f.signature not in seen:
                        seen[f.signature] = 1
                        res.failures.append(f)
                elif c.get("kind") == "churn":
                    records, _, info = run_churn(c["plan"], real_tcp=c.get("real_tcp", False), want_trace=False)
                    r = churn_oracle(c["plan"], records, info)
                    res.note_case(("case", json.dumps(c["plan"], sort_keys=True)))
                    if r and f"churn:{r[0]}" not in seen:
                        seen[f"churn:{r[0]}"] = 1
                        res.failures.append(Failure(f"churn:{r[0]}", r[1][:400], {"kind": "churn", "plan": c["plan"],
                                                                                   "real_tcp": c.get("real_tcp", False)}))
                elif c.get("kind") == "conc":
                    results, final, _, info = run_concurrent(c["plan"], real_tcp=c.get("real_tcp", False), want_trace=False)
                    r = conc_oracle(c["plan"], results, final, info)
                    res.note_case(("case", json.dumps(c["plan"], sort_keys=True)))
                    if r:
                        res.failures.append(Failure(f"concurrent:{r[0]}", r[1][:400], {"kind": "conc", "plan": c["plan"],
                                                                                        "real_tcp": c.get("real_tcp", False)}))
            # systematic sweep 00: departed clients whose methods are still executing when newcomers call
            self._inherit(ctx, res, ctx.scale(150, 600), seen)
            # systematic sweep 0: every limit in the live code, more lowered limits
            lines0, outs0, spans0 = [], [], []
            self._limits(ctx, res, seen, lines0, outs0, spans0)
            # systematic sweep 1: every catalogue value x every way of passing it x every variant
            scripts = []
            for spec in CATALOGUE:
                calls = [{"m": "echo", "a": [spec], "k": []}, {"m": "echo", "a": [], "k": [["value", spec]]},
                         {"m": "ident", "a": [spec], "k": []}, {"m": "shape", "a": [["int", "1"], spec, ["int", "3"], spec], "k": [["c", spec], ["zeta", ["int", "9"]]]},
                         {"m": "accumulate", "a": [["str", [116]], spec], "k": []}, {"m": "pick", "a": [["int", "1"], ["int", "10"], spec, ["int", "30"]], "k": []}]
                if spec[0] == "exc":
                    calls.append({"m": "raise_it", "a": [spec], "k": []})
                scripts.append(calls)
            for nm in V.qmi_exception_names() + V.BUILTIN_EXC:
                args = [["str", [ord(ch) for ch in nm]], ["str", [109, 115, 103]]]
                scripts.append([{"m": "raise_new", "a": args, "k": []},
                                {"m": "raise_it", "a": [["exc", nm, [["str", [109]], ["int", "2"]], [], []]], "k": []}])
            scripts.append([{"m": m, "a": [["int", "1"], ["int", "2"], ["int", "3"]][:n], "k": []}
                            for m in method_names() if not m.startswith("__") for n in (0, 1, 2, 3)])
            scripts.append([{"m": "echo", "a": [], "k": [[k, ["int", "1"]]]} for k in KW_POOL])
            for script in scripts:
                kept, _ = filter_scope(script)
                if not kept:
                    continue
                for lock in (None, "auto"):
                    plan = {"script": kept, "seed": 1, "lock": lock, "names": ["srv", "cli"]}
                    for f in eval_script(plan, VARIANTS):
                        self._note_failure(res, seen, plan, f[0], f[1], f[2], f[3])
                    for c in kept:
                        res.note_case(("sweep", lock, json.dumps(c, sort_keys=True)))
            # systematic sweep 2: a fixed concurrent plan, the running thread demoted at every step index
            base = {"seed": 7, "policy": "pct", "same_name": True, "callers": [
                {"where": "cliA", "mode": "blk", "own_proxy": True, "ops": [["acc", ["int", "1"]], ["acc", ["str", [97]]]]},
                {"where": "cliB", "mode": "nbrev", "own_proxy": True, "ops": [["acc", ["int", "2"]], ["tag", ["int", "5"]], ["acc", ["none"]]]},
                {"where": "local", "mode": "nb", "own_proxy": False, "ops": [["acc", ["int", "3"]], ["echo", ["bytes", "50"]]]},
                {"where": "cliA", "mode": "nb", "own_proxy": False, "ops": [["echo", ["int", "4"]], ["acc", ["int", "4"]]]}]}
            for k in range(0, ctx.scale(400, 1500), 1):
                plan = dict(base, change_points=[k, k + 37])
                results, final, _, info = run_concurrent(plan, want_trace=False)
                r = conc_oracle(plan, results, final, info)
                res.note_case(("sweep-conc", k))
                if r and f"concurrent:{r[0]}" not in seen:
                    seen[f"concurrent:{r[0]}"] = 1
                    res.failures.append(Failure(f"concurrent:{r[0]}", f"change point {k}: {r[1][:400]}", {"kind": "conc", "plan": plan, "real_tcp": False}))
            # systematic sweep 3: the canonical churn history (A, B connect; A leaves; C joins) under many schedules
            one = [[["hold", ["int", "1"]], ["tag", ["int", "2"]]]]
            for k in range(ctx.scale(120, 600)):
                plan = {"seed": k, "policy": "pct" if k % 2 else "weighted", "names": ["ca", "cb", "cc"],
                        "steps": [["connect", 0], ["connect", 1], ["disconnect", 0], ["connect", 2]],
                        "rounds": [{}, {}, {}, {"1": one, "2": one}], "equalise": True, "pending_at_disconnect": False,
                        "change_points": [k, 3 * k + 11]}
                records, _, info = run_churn(plan, want_trace=False)
                r = churn_oracle(plan, records, info)
                res.note_case(("sweep-churn", k))
                if r and f"churn:{r[0]}" not in seen:
                    seen[f"churn:{r[0]}"] = 1
                    res.failures.append(Failure(f"churn:{r[0]}", f"seed {k}: {r[1][:400]}", {"kind": "churn", "plan": plan, "real_tcp": False}))
        return res

    # -- replay ---------------------------------------------------------------------------------------------------
    def replay(self, ctx: Ctx, rp: dict):
        try:
            self.translate(ctx)
        except Exception:  # noqa
            pass
        with (T.installed() if not T.is_installed() else _null()):
            if rp.get("kind") == "corpus":
                checks, _, _, info = run_corpus(rp["seed"], real_tcp=rp.get("real_tcp", False))
                r = checks_oracle(checks, info)
                return Failure(f"corpus:{r[0]}", r[1][:600], rp) if r else None
            if rp.get("kind") == "inherit":
                r = inherit_oracle(rp["plan"], *run_inherit(rp["plan"], real_tcp=rp.get("real_tcp", False)))
                return Failure(f"departed:{r[0]}", r[1][:600], rp) if r else None
            if rp.get("kind") == "history":
                r = history_oracle(rp["plan"], *run_history(rp["plan"], real_tcp=rp.get("real_tcp", False)))
                return Failure(f"history:{r[0]}", r[1][:600], rp) if r else None
            if rp.get("kind") == "size":
                checks, _, _, info = run_size_boundary(rp["plan"], want_trace=False)
                r = checks_oracle(checks, info)
                return Failure(f"limit:{r[0]}", r[1][:600], rp) if r else None
            if rp.get("kind") == "burst":
                checks, _, info = run_burst(rp["plan"])
                r = checks_oracle(checks, info)
                return Failure(f"limit:{r[0]}", r[1][:600], rp) if r else None
            if rp.get("kind") == "timeout":
                checks, _, info = run_timeouts(rp["plan"], real_tcp=rp.get("real_tcp", False), want_trace=False)
                r = checks_oracle(checks, info, expected_count=len(rp["plan"]["pending"]) + 7)
                return Failure(f"timeout:{r[0]}", r[1][:600], rp) if r else None
            if rp.get("kind") == "churn":
                records, _, info = run_churn(rp["plan"], real_tcp=rp.get("real_tcp", False), want_trace=False)
                r = churn_oracle(rp["plan"], records, info)
                return Failure(f"churn:{r[0]}", r[1][:600], rp) if r else None
            if rp.get("kind") == "conc":
                results, final, _, info = run_concurrent(rp["plan"], real_tcp=rp.get("real_tcp", False), want_trace=False)
                r = conc_oracle(rp["plan"], results, final, info)
                return Failure(f"concurrent:{r[0]}", r[1][:600], rp) if r else None
            fs = eval_script(rp["plan"], [tuple(rp["variant"])], rp.get("real_tcp", False))
            if fs:
                f = fs[0]
                return Failure(f[2], f"{f[0]} call #{f[1]}: {f[3]}", rp)
            return None


PROP = C02()
