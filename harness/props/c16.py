"""C16 — configuration loads strictly and round-trips.

Model: lean/QmiModel/Model/Config.lean; theorems: lean/QmiModel/Props/C16.lean;
generated: lean/QmiModel/Gen/CfgDefs.lean (the shipped @configstruct classes as type descriptors).

Tie:
  * translator: dataclasses.fields of every shipped config struct -> Gen/CfgDefs.lean (+ `wf` obligations);
  * correspondence: random type descriptors realised as real @configstruct dataclasses, matching and one-mutation
    mismatching data, the keyword constructor, configuration texts with comments / duplicate keys, dumps;
  * oracle: the property statement evaluated directly on the implementation (independent reference `spec`).

Line protocol: see lean/Drv/C16.lean.
"""
from __future__ import annotations

import copy
import dataclasses
import itertools
import json
import re
from typing import Any, Optional

from harness import core
from harness.core import Broken, Ctx, Failure, LeanDriver, Prop, Result, write_if_changed

GEN_FILE = core.LEAN / "QmiModel" / "Gen" / "CfgDefs.lean"
ROUTES_FILE = core.LEAN / "QmiModel" / "Gen" / "CfgRoutes.lean"
FLOAT_LIMIT = 2 ** 1024 - 2 ** 970          # float(n) raises OverflowError iff |n| >= this
SHIPPED_MODULE = "qmi.core.config_defs"
EXTRA_SHIPPED = [("qmi.utils.adwin_manager", "CfgAdwinProgram")]   # outside the anchored files; included when importable


# ---------------------------------------------------------------------------
# neutral values ("nv"): None/bool/int/float/str/list/tuple/dict + Inst; token encoding shared with the driver
# ---------------------------------------------------------------------------

class Inst:
    """A @configstruct instance as plain data: class name + (field, value) pairs in field order."""
    __slots__ = ("cls", "fields")

    def __init__(self, cls: str, fields):
        self.cls = cls
        self.fields = list(fields)

    def __repr__(self):
        return f"Inst({self.cls!r}, {self.fields!r})"


class RawObj:
    """A JSON object as json.loads saw it: a pair list (duplicates possible)."""
    __slots__ = ("pairs",)

    def __init__(self, pairs):
        self.pairs = list(pairs)

    def __repr__(self):
        return f"RawObj({self.pairs!r})"


def enc_str(s: str) -> str:
    return "S" + ",".join(str(ord(c)) for c in s)


def dec_str(tok: str) -> str:
    assert tok[0] == "S", tok
    return "".join(chr(int(x)) for x in tok[1:].split(",")) if len(tok) > 1 else ""


def _enc_val(v, out: list) -> None:
    if v is None:
        out.append("N")
    elif v is True:
        out.append("T")
    elif v is False:
        out.append("F")
    elif isinstance(v, int):
        out.append("I%d" % v)
    elif isinstance(v, float):
        out.append("D" + repr(v))
    elif isinstance(v, str):
        out.append(enc_str(v))
    elif isinstance(v, list):
        out.append("L%d" % len(v))
        for x in v:
            _enc_val(x, out)
    elif isinstance(v, tuple):
        out.append("U%d" % len(v))
        for x in v:
            _enc_val(x, out)
    elif isinstance(v, dict):
        out.append("M%d" % len(v))
        for k, x in v.items():
            if not isinstance(k, str):
                raise TypeError(f"non-string key {k!r}")
            out.append(enc_str(k))
            _enc_val(x, out)
    elif isinstance(v, RawObj):
        out.append("M%d" % len(v.pairs))
        for k, x in v.pairs:
            out.append(enc_str(k))
            _enc_val(x, out)
    elif isinstance(v, Inst):
        out.append("O%d" % len(v.fields))
        out.append(enc_str(v.cls))
        for k, x in v.fields:
            out.append(enc_str(k))
            _enc_val(x, out)
    else:
        raise TypeError(f"not encodable: {type(v).__name__}")


def enc_val(v) -> str:
    out: list = []
    _enc_val(v, out)
    return " ".join(out)


def _dec_val(toks, i):
    t = toks[i]
    c = t[0]
    if t == "N":
        return None, i + 1
    if t == "T":
        return True, i + 1
    if t == "F":
        return False, i + 1
    if c == "I":
        return int(t[1:]), i + 1
    if c == "D":
        return float(t[1:]), i + 1
    if c == "X":
        return float(int(t[1:])), i + 1
    if c == "S":
        return dec_str(t), i + 1
    if c in "LU":
        n = int(t[1:])
        i += 1
        xs = []
        for _ in range(n):
            x, i = _dec_val(toks, i)
            xs.append(x)
        return (xs if c == "L" else tuple(xs)), i
    if c in "MO":
        n = int(t[1:])
        i += 1
        name = None
        if c == "O":
            name = dec_str(toks[i])
            i += 1
        pairs = []
        for _ in range(n):
            k = dec_str(toks[i])
            x, i = _dec_val(toks, i + 1)
            pairs.append((k, x))
        if c == "O":
            return Inst(name, pairs), i
        return dict(pairs), i
    raise ValueError(f"bad value token {t!r}")


def dec_val(s: str):
    toks = s.split(" ")
    v, i = _dec_val(toks, 0)
    assert i == len(toks), s
    return v


# type descriptors: ("int",) ("float",) ("str",) ("bool",) ("any",) ("opt", t) ("list", t) ("tvar", t)
#                   ("tfix", [t…]) ("dict", t) ("struct", name, [(fname, t, has_default, default_nv)…])
#                   ("lany"|"tany"|"dany"[, spelling])  untyped aggregates; the spelling (typing alias / builtin) is not
#                   part of the encoding: both spellings behave alike in _parse_config_value

SCALARS = {"int": "i", "float": "f", "str": "s", "bool": "b", "any": "a",
           "lany": "x", "tany": "y", "dany": "z",     # untyped list/List, Tuple, dict/Dict; t[1] (optional) = spelling
           "never": "n"}                              # an annotation `_parse_config_value` does not recognise
BARE = {"lany": ("List", "list"), "tany": ("Tuple", "tuple"), "dany": ("Dict", "dict")}
UNARY = {"opt": "o", "list": "l", "tvar": "v", "dict": "d"}


def _enc_ty(t, out: list) -> None:
    k = t[0]
    if k in SCALARS:
        out.append(SCALARS[k])
    elif k in UNARY:
        out.append(UNARY[k])
        _enc_ty(t[1], out)
    elif k == "tfix":
        out.append("t%d" % len(t[1]))
        for x in t[1]:
            _enc_ty(x, out)
    elif k == "struct":
        out.append("c%d" % len(t[2]))
        out.append(enc_str(t[1]))
        for fname, ft, hasd, d in t[2]:
            out.append(enc_str(fname))
            _enc_ty(ft, out)
            if hasd:
                out.append("=")
                _enc_val(d, out)
            else:
                out.append("-")
    else:
        raise ValueError(k)


def enc_ty(t) -> str:
    out: list = []
    _enc_ty(t, out)
    return " ".join(out)


def _dec_ty(toks, i):
    t = toks[i]
    inv_s = {v: k for k, v in SCALARS.items()}
    inv_u = {v: k for k, v in UNARY.items()}
    if t in inv_s:
        return (inv_s[t],), i + 1
    if t in inv_u:
        x, i = _dec_ty(toks, i + 1)
        return (inv_u[t], x), i
    if t[0] == "t":
        n = int(t[1:])
        i += 1
        xs = []
        for _ in range(n):
            x, i = _dec_ty(toks, i)
            xs.append(x)
        return ("tfix", xs), i
    if t[0] == "c":
        n = int(t[1:])
        name = dec_str(toks[i + 1])
        i += 2
        fs = []
        for _ in range(n):
            fname = dec_str(toks[i])
            ft, i = _dec_ty(toks, i + 1)
            if toks[i] == "-":
                fs.append((fname, ft, False, None))
                i += 1
            else:
                assert toks[i] == "="
                d, i = _dec_val(toks, i + 1)
                fs.append((fname, ft, True, d))
        return ("struct", name, fs), i
    raise ValueError(f"bad type token {t!r}")


def dec_ty(s: str):
    toks = s.split(" ")
    t, i = _dec_ty(toks, 0)
    assert i == len(toks), s
    return t


def render_path(items) -> str:
    """`".".join(path)` as `_parse_config_value` builds it (Python's own repr for dict keys)."""
    parts = []
    for kind, x in items:
        if kind == "i":
            parts.append("[{}]".format(x))
        elif kind == "k":
            parts.append("[{!r}]".format(x))
        else:
            parts.append(x)
    return ".".join(parts)


def dec_path(tok: str):
    if tok == "-":
        return []
    items = []
    for part in tok.split("/"):
        c, rest = part[0], part[1:]
        if c == "i":
            items.append(("i", int(rest)))
        else:
            s = "".join(chr(int(x)) for x in rest.split(",")) if rest else ""
            items.append((c, s))
    return items


def hexs(s: str) -> str:
    return s.encode("utf-8", "surrogatepass").hex() or "-"


def norm_model_line(line: str) -> str:
    """Resolve what the model leaves opaque: `X<n>` = float(n), structured path -> Python path string."""
    if line.startswith("exc:QMI_ConfigurationException "):
        _, kind, ptok = line.split(" ")
        return f"exc:QMI_ConfigurationException {kind} {hexs(render_path(dec_path(ptok)))}"
    if " X" in line or line.startswith("X"):
        toks = line.split(" ")
        for i, t in enumerate(toks):
            if t[0] == "X" and len(t) > 1:
                toks[i] = "D" + repr(float(int(t[1:])))
        return " ".join(toks)
    return line


# ---------------------------------------------------------------------------
# realising descriptors as real @configstruct classes / real values
# ---------------------------------------------------------------------------

import sys as _sys
import types as _types
_sys.modules.setdefault("c16_generated", _types.ModuleType("c16_generated"))    # dataclasses looks the module up


class World:
    """Registry of real classes by struct name (shipped ones are the real config_defs classes)."""

    def __init__(self):
        self.classes: dict = {}          # struct name -> class (latest realised)
        self.shipped_classes: dict = {}  # the real config_defs classes
        self.shipped: list = []
        self.by_ty: dict = {}
        self.counter = 0

    def fresh_name(self) -> str:
        self.counter += 1
        return f"G{self.counter}"

    def realise(self, t):
        import typing
        k = t[0]
        if k == "int":
            return int
        if k == "float":
            return float
        if k == "str":
            return str
        if k == "bool":
            return bool
        if k == "any":
            return typing.Any
        if k in BARE:
            spelling = t[1] if len(t) > 1 else BARE[k][0]
            return {"List": typing.List, "list": list, "Tuple": typing.Tuple, "tuple": tuple,
                    "Dict": typing.Dict, "dict": dict}[spelling]
        if k == "opt":
            return typing.Optional[self.realise(t[1])]
        if k == "list":
            return typing.List[self.realise(t[1])]
        if k == "tvar":
            return typing.Tuple[self.realise(t[1]), ...]
        if k == "tfix":
            if not t[1]:
                return typing.Tuple[()]
            return typing.Tuple[tuple(self.realise(x) for x in t[1])]
        if k == "dict":
            return typing.Dict[str, self.realise(t[1])]
        if k == "struct":
            name = t[1]
            if name in self.shipped_classes:
                return self.shipped_classes[name]
            key = repr(t)
            if key in self.by_ty:
                self.classes[name] = self.by_ty[key]
                for _, ft, _, _ in t[2]:
                    self.realise(ft)          # re-register nested names
                return self.by_ty[key]
            return self.make_class(t)
        raise ValueError(k)

    def make_class(self, t):
        from qmi.core.config_struct import configstruct
        _, name, fields = t
        ns: dict = {"__annotations__": {}, "__module__": "c16_generated"}
        for fname, ft, hasd, d in fields:
            ns["__annotations__"][fname] = self.realise(ft)
            if hasd:
                real = self.real(d)
                if real is None or isinstance(real, (bool, int, float, str)):
                    ns[fname] = real
                else:
                    ns[fname] = dataclasses.field(default_factory=(lambda r=real: copy.deepcopy(r)))
        cls = configstruct(type(name, (), ns))
        self.classes[name] = cls
        self.by_ty[repr(t)] = cls
        return cls

    def real(self, v, ordered: bool = False):
        """nv -> real Python value (fresh copy); Inst -> instance built without running the constructor."""
        if isinstance(v, list):
            return [self.real(x, ordered) for x in v]
        if isinstance(v, tuple):
            return tuple(self.real(x, ordered) for x in v)
        if isinstance(v, dict):
            items = [(k, self.real(x, ordered)) for k, x in v.items()]
            if ordered:
                import collections
                return collections.OrderedDict(items)
            return dict(items)
        if isinstance(v, Inst):
            cls = self.classes[v.cls]
            obj = object.__new__(cls)
            for k, x in v.fields:
                object.__setattr__(obj, k, self.real(x, ordered))
            return obj
        return v


def nv_from_real(x):
    if x is None or isinstance(x, (bool, int, float, str)):
        if type(x) not in (type(None), bool, int, float, str):
            raise TypeError(f"scalar subclass {type(x).__name__}")
        return x
    if isinstance(x, list):
        return [nv_from_real(e) for e in x]
    if isinstance(x, tuple):
        return tuple(nv_from_real(e) for e in x)
    if isinstance(x, dict):
        return {k: nv_from_real(e) for k, e in x.items()}
    if dataclasses.is_dataclass(x) and not isinstance(x, type):
        return Inst(type(x).__name__, [(f.name, nv_from_real(getattr(x, f.name))) for f in dataclasses.fields(x)])
    raise TypeError(f"unexpected result object {type(x).__name__}")


# ---------------------------------------------------------------------------
# translator: shipped config structs -> descriptors -> Gen/CfgDefs.lean
# ---------------------------------------------------------------------------

def describe_type(tp, describe_cls):
    """typing object -> descriptor, by structural inspection (typing.get_origin/get_args), failing loudly."""
    import typing
    if tp is int:
        return ("int",)
    if tp is float:
        return ("float",)
    if tp is str:
        return ("str",)
    if tp is bool:
        return ("bool",)
    if tp is typing.Any:
        return ("any",)
    if tp is list:
        return ("lany", "list")
    if tp is dict:
        return ("dany", "dict")
    if tp is typing.List:
        return ("lany", "List")
    if tp is typing.Dict:
        return ("dany", "Dict")
    if tp is typing.Tuple:
        return ("tany", "Tuple")
    origin = typing.get_origin(tp)
    args = typing.get_args(tp)
    if origin is typing.Union:
        non_none = [a for a in args if a is not type(None)]
        if len(non_none) != 1 or len(args) != 2:
            raise ValueError(f"unsupported Union {tp!r}")
        return ("opt", describe_type(non_none[0], describe_cls))
    if origin is list and len(args) == 1:
        return ("list", describe_type(args[0], describe_cls))
    if origin is dict and len(args) == 2:
        if args[0] is not str:
            raise ValueError(f"non-string-key dict {tp!r}")
        return ("dict", describe_type(args[1], describe_cls))
    if origin is tuple:
        if len(args) == 2 and args[1] is Ellipsis:
            return ("tvar", describe_type(args[0], describe_cls))
        return ("tfix", [describe_type(a, describe_cls) for a in args])
    if isinstance(tp, type) and dataclasses.is_dataclass(tp):
        return describe_cls(tp)
    raise ValueError(f"field type not understood by the C16 translator: {tp!r}")


def describe_shipped():
    """[(name, cls, descriptor)] for every shipped config struct, dependencies first."""
    import importlib
    from qmi.core import config_struct
    mod = importlib.import_module(SHIPPED_MODULE)
    classes = [c for c in vars(mod).values()
               if isinstance(c, type) and getattr(c, "__qmi_configstruct__", False) and c.__module__ == mod.__name__]
    for modname, clsname in EXTRA_SHIPPED:
        try:
            m = importlib.import_module(modname)
            classes.append(getattr(m, clsname))
        except ImportError:
            pass
    done: dict = {}
    order: list = []

    def describe_cls(cls):
        if cls.__name__ in done:
            if done[cls.__name__][0] is not cls:
                raise ValueError(f"two config structs named {cls.__name__}")
            return done[cls.__name__][1]
        if not getattr(cls, "__qmi_configstruct__", False):
            raise ValueError(f"{cls.__name__} is a dataclass but not a @configstruct")
        fields = []
        for f in dataclasses.fields(cls):
            if not f.init:
                raise ValueError(f"{cls.__name__}.{f.name}: init=False fields are not modelled")
            if isinstance(f.type, str):
                raise ValueError(f"{cls.__name__}.{f.name}: string annotation {f.type!r} (postponed evaluation) is not modelled")
            ft = describe_type(f.type, describe_cls)
            if f.default is not dataclasses.MISSING:
                fields.append((f.name, ft, True, nv_from_real(f.default)))
            elif f.default_factory is not dataclasses.MISSING:
                fields.append((f.name, ft, True, nv_from_real(f.default_factory())))
            else:
                fields.append((f.name, ft, False, None))
        d = ("struct", cls.__name__, fields)
        # the implementation's own acceptance test must agree that this is a supported structure
        config_struct._check_config_struct_type(cls, [])
        done[cls.__name__] = (cls, d)
        order.append((cls.__name__, cls, d))
        return d

    for c in sorted(classes, key=lambda c: c.__name__):
        describe_cls(c)
    return order


def _lean_str(s: str) -> str:
    return "[" + ", ".join(str(ord(c)) for c in s) + "]"


def _lean_val(v) -> str:
    if v is None:
        return ".none"
    if v is True:
        return "(.bool true)"
    if v is False:
        return "(.bool false)"
    if isinstance(v, int):
        return f"(.int ({v}))"
    if isinstance(v, float):
        return f"(.flt {_lean_str(repr(v))})"
    if isinstance(v, str):
        return f"(.str {_lean_str(v)})"
    if isinstance(v, list):
        return "(.list [" + ", ".join(_lean_val(x) for x in v) + "])"
    if isinstance(v, tuple):
        return "(.tuple [" + ", ".join(_lean_val(x) for x in v) + "])"
    if isinstance(v, dict):
        return "(.dict [" + ", ".join(f"({_lean_str(k)}, {_lean_val(x)})" for k, x in v.items()) + "])"
    if isinstance(v, Inst):
        return f"(.inst {_lean_str(v.cls)} [" + ", ".join(f"({_lean_str(k)}, {_lean_val(x)})" for k, x in v.fields) + "])"
    raise TypeError(type(v))


def _lean_ty(t, known) -> str:
    k = t[0]
    if k in BARE:
        return {"lany": ".listAny", "tany": ".tupleAny", "dany": ".dictAny"}[k]
    if k in SCALARS:
        return "." + k
    if k == "opt":
        return f"(.opt {_lean_ty(t[1], known)})"
    if k == "list":
        return f"(.list {_lean_ty(t[1], known)})"
    if k == "tvar":
        return f"(.tupleVar {_lean_ty(t[1], known)})"
    if k == "dict":
        return f"(.dict {_lean_ty(t[1], known)})"
    if k == "tfix":
        return "(.tupleFix [" + ", ".join(_lean_ty(x, known) for x in t[1]) + "])"
    if k == "struct":
        if t[1] in known:
            return t[1]
        raise ValueError(f"struct {t[1]} used before it is defined")
    raise ValueError(k)


def gen_lean(order) -> str:
    out = ["import QmiModel.Model.Config",
           "/-! GENERATED by harness/props/c16.py (`translate`) from `dataclasses.fields` of the shipped",
           "`@configstruct` classes — do not edit; regenerated on every run of `./check C16`. -/",
           "namespace QmiModel.Config.Gen",
           "open QmiModel.Config",
           ""]
    known: set = set()
    for name, _cls, d in order:
        out.append(f"/-- `{_cls.__module__}.{name}` -/")
        out.append(f"def {name} : Ty := .struct {_lean_str(name)} [")
        rows = []
        for fname, ft, hasd, dv in d[2]:
            dflt = f"some {_lean_val(dv)}" if hasd else "none"
            rows.append(f"  ({_lean_str(fname)}, {_lean_ty(ft, known)}, {dflt})  -- {fname}")
        # commas go before the comment
        for i, r in enumerate(rows):
            code, _, comment = r.partition("  -- ")
            out.append(code + ("," if i + 1 < len(rows) else "") + "  -- " + comment)
        out.append("]")
        out.append("")
        known.add(name)
    out.append("/-- every shipped configuration structure -/")
    out.append("def shipped : List Ty := [" + ", ".join(n for n, _, _ in order) + "]")
    out.append("")
    for name, _cls, _d in order:
        out.append(f"/-- obligation: distinct field names; every default survives `toDict` → `parseValue` unchanged -/")
        out.append(f"theorem wf_{name} : wf {name} = true := by decide")
        out.append("")
    out.append("end QmiModel.Config.Gen")
    return "\n".join(out) + "\n"


def scan_routes():
    """AST scan of qmi/**/*.py: (a) every call that builds a @configstruct class as `Cls(**expr)`; (b) every call of
    config_struct_from_dict with the class it converts to. Fails loudly on a call shape it does not understand."""
    import ast
    root = core.REPO / "qmi"
    trees = {}
    for f in sorted(root.rglob("*.py")):
        try:
            trees[f] = ast.parse(f.read_text(encoding="utf-8"))
        except SyntaxError as e:
            raise ValueError(f"cannot parse {f}: {e}")
    struct_names = set()
    for tree in trees.values():
        for node in ast.walk(tree):
            if isinstance(node, ast.ClassDef):
                for d in node.decorator_list:
                    name = d.id if isinstance(d, ast.Name) else d.attr if isinstance(d, ast.Attribute) else None
                    if name == "configstruct":
                        struct_names.add(node.name)
    if not struct_names:
        raise ValueError("no @configstruct class found by the AST scan")
    adhoc, conv = [], []

    def callee(n):
        return n.id if isinstance(n, ast.Name) else n.attr if isinstance(n, ast.Attribute) else None

    for f, tree in trees.items():
        rel = str(f.relative_to(core.REPO))
        for fn in ast.walk(tree):
            if not isinstance(fn, (ast.FunctionDef, ast.AsyncFunctionDef)):
                continue
            for node in ast.walk(fn):
                if not isinstance(node, ast.Call):
                    continue
                c = callee(node.func)
                if c in struct_names and (any(k.arg is None for k in node.keywords)
                                          or any(isinstance(a, ast.Starred) for a in node.args)):
                    adhoc.append((rel, fn.name, c))
                if c == "config_struct_from_dict":
                    if len(node.args) == 2 and not node.keywords:
                        cls = callee(node.args[1])
                    else:
                        kw = {k.arg: k.value for k in node.keywords}
                        cls = callee(kw["cls"]) if "cls" in kw else (callee(node.args[1]) if len(node.args) > 1 else None)
                    if cls is None:
                        raise ValueError(f"{rel}:{node.lineno}: config_struct_from_dict call with a class expression "
                                         "the C16 route scan does not understand")
                    conv.append((rel, fn.name, cls))
    return sorted(set(adhoc)), sorted(set(conv))


def gen_routes_lean(adhoc, conv) -> str:
    def lit(rows):
        return "[" + ", ".join(f'("{a}", "{b}", "{c}")' for a, b, c in rows) + "]"
    return "\n".join([
        "/-! GENERATED by harness/props/c16.py (`translate`, AST scan of qmi/**/*.py) — do not edit. -/",
        "namespace QmiModel.Config.Gen",
        "",
        "/-- calls `Cls(**…)` / `Cls(*…)` with `Cls` a `@configstruct` class: (file, enclosing function, class) -/",
        f"def adhocConstructorCalls : List (String × String × String) := {lit(adhoc)}",
        "",
        "/-- calls of `config_struct_from_dict(data, Cls)`: (file, enclosing function, class) -/",
        f"def conversionCalls : List (String × String × String) := {lit(conv)}",
        "",
        "end QmiModel.Config.Gen",
        ""])


# ---------------------------------------------------------------------------
# generators
# ---------------------------------------------------------------------------

STR_CHARS = ["a", "b", "z", "Q", " ", "#", '"', "\\", "'", ".", "[", "]", "\n", "\t", "\r", "\x00", "\x1f", "\x7f",
             "é", " ", "\U0001f600", "\ud800", "/", ",", ":", "{", "}", "0", "\b", "\f", "\udfff", "￿"]
FIELD_NAMES = ["a", "b", "c", "d", "e", "host", "x_1", "été", "loglevel", "f"]


def gen_str(rng, maxlen=6) -> str:
    r = rng.random()
    if r < 0.15:
        return ""
    if r < 0.3:
        return rng.choice(["#", '"', "\\", 'a#b', '"#"', '\\"', "\\\\", "a'b", 'a"b', "'\"", "# not a comment", "\\#"])
    return _no_pairs("".join(rng.choice(STR_CHARS) for _ in range(rng.randint(1, maxlen))))


def _no_pairs(s: str) -> str:
    """a high surrogate directly followed by a low one is not JSON-representable as two code points
    (json.loads joins the two escapes into one astral character): keep them apart"""
    out = []
    for c in s:
        if out and 0xD800 <= ord(out[-1]) <= 0xDBFF and 0xDC00 <= ord(c) <= 0xDFFF:
            out.append("x")
        out.append(c)
    return "".join(out)


def gen_int(rng) -> int:
    r = rng.random()
    if r < 0.5:
        return rng.randint(-5, 20)
    if r < 0.7:
        return rng.choice([2 ** 31, -2 ** 63, 2 ** 53 + 1, 10 ** 30, -10 ** 30])
    if r < 0.85:
        return rng.choice([2 ** 1023, FLOAT_LIMIT - 1, -(FLOAT_LIMIT - 1), 10 ** 308])
    return rng.randint(-10 ** 6, 10 ** 6)


def gen_float(rng) -> float:
    r = rng.random()
    if r < 0.4:
        return rng.choice([0.0, -0.0, 1.0, 1.5, -2.25, 1e-7, 1e22, 1e16, 0.1, 3.141592653589793, 5e-324, 1.7976931348623157e308])
    if r < 0.5:
        return rng.choice([float("inf"), float("-inf"), float("nan")])
    return rng.uniform(-1e6, 1e6) if r < 0.8 else rng.uniform(-1, 1) * 10.0 ** rng.randint(-300, 300)


def gen_json(rng, depth: int, top: bool = False):
    """JSON-representable data (what json.loads can return, with plain dicts)."""
    r = rng.random()
    if top or (depth > 0 and r < 0.2):
        return {gen_str(rng): gen_json(rng, depth - 1) for _ in range(rng.randint(0 if not top else 1, 4))}
    if depth > 0 and r < 0.4:
        return [gen_json(rng, depth - 1) for _ in range(rng.randint(0, 3))]
    k = rng.random()
    if k < 0.1:
        return None
    if k < 0.2:
        return rng.random() < 0.5
    if k < 0.4:
        return gen_int(rng)
    if k < 0.55:
        return gen_float(rng)
    return gen_str(rng)


def gen_type(rng, depth: int, world: World, struct_only: bool = False):
    if struct_only:
        k = "struct"
    elif depth <= 0:
        k = rng.choice(["int", "int", "float", "float", "str", "str", "bool", "any"])
    else:
        k = rng.choices(["int", "float", "str", "bool", "any", "opt", "list", "tvar", "tfix", "dict", "struct",
                         "lany", "tany", "dany"],
                        [2, 2.5, 2, 1.5, 1, 2.5, 2, 1.5, 3, 2, 2.5, 0.5, 0.5, 0.5])[0]
    if k in BARE:
        return (k, rng.choice(BARE[k]) if k != "tany" else "Tuple")     # builtin `tuple` is not an accepted field type
    if k in SCALARS:
        return (k,)
    if k in UNARY:
        return (k, gen_type(rng, depth - 1, world))
    if k == "tfix":
        return ("tfix", [gen_type(rng, depth - 1, world) for _ in range(rng.choice([0, 1, 2, 2, 2, 3]))])
    names = rng.sample(FIELD_NAMES, rng.randint(0 if not struct_only else 1, 4))
    fields = []
    for n in names:
        ft = gen_type(rng, depth - 1, world)
        if rng.random() < 0.5:
            off: list = []
            d = spec(ft, gen_valid(ft, rng, json_only=True), [], off)
            assert not off, (ft, off)
            fields.append((n, ft, True, d))
        else:
            fields.append((n, ft, False, None))
    t = ("struct", world.fresh_name(), fields)
    world.realise(t)
    return t


def gen_valid(t, rng, json_only: bool = False):
    """data admitted by descriptor t"""
    k = t[0]
    if k == "int":
        return gen_int(rng) if rng.random() < 0.9 else (rng.random() < 0.5)     # bool is an int (admitted, DESIGN §5/C16)
    if k == "float":
        r = rng.random()
        if r < 0.55:
            return gen_float(rng)
        if r < 0.95:
            return gen_int(rng)
        return rng.random() < 0.5
    if k == "str":
        return gen_str(rng)
    if k == "bool":
        return rng.random() < 0.5
    if k == "any":
        return gen_json(rng, 2)
    if k == "never":
        return gen_json(rng, 1)
    if k == "lany":
        return [gen_json(rng, 1) for _ in range(rng.randint(0, 3))]
    if k == "tany":
        xs = [gen_json(rng, 1) for _ in range(rng.randint(0, 3))]
        return tuple(xs) if (not json_only and rng.random() < 0.15) else xs
    if k == "dany":
        return {gen_str(rng): gen_json(rng, 1) for _ in range(rng.randint(0, 3))}
    if k == "opt":
        return None if rng.random() < 0.35 else gen_valid(t[1], rng, json_only)
    if k == "list":
        return [gen_valid(t[1], rng, json_only) for _ in range(rng.randint(0, 3))]
    if k == "tvar":
        xs = [gen_valid(t[1], rng, json_only) for _ in range(rng.randint(0, 3))]
        return tuple(xs) if (not json_only and rng.random() < 0.1) else xs
    if k == "tfix":
        xs = [gen_valid(x, rng, json_only) for x in t[1]]
        return tuple(xs) if (not json_only and rng.random() < 0.1) else xs
    if k == "dict":
        return {gen_str(rng): gen_valid(t[1], rng, json_only) for _ in range(rng.randint(0, 3))}
    if k == "struct":
        d = {}
        fields = list(t[2])
        if rng.random() < 0.5:
            rng.shuffle(fields)        # key order in the data is not the field order
        for fname, ft, hasd, _ in fields:
            if hasd and rng.random() < 0.5:
                continue
            d[fname] = gen_valid(ft, rng, json_only)
        return d
    raise ValueError(k)


def val_class(v) -> str:
    if v is None:
        return "none"
    if isinstance(v, bool):
        return "bool"
    if isinstance(v, int):
        return "hugeint" if abs(v) >= FLOAT_LIMIT else "int"
    if isinstance(v, float):
        return "float"
    if isinstance(v, str):
        return "str"
    if isinstance(v, list):
        return "list"
    if isinstance(v, tuple):
        return "tuple"
    if isinstance(v, dict):
        return "dict"
    return type(v).__name__


def gen_bad(t, rng):
    """a value the head of descriptor t (≠ any) does not admit; returns (value, mutation name)"""
    k = t[0]
    scal = {"int": lambda: gen_int(rng), "float": lambda: gen_float(rng), "str": lambda: gen_str(rng),
            "bool": lambda: rng.random() < 0.5, "none": lambda: None}
    if k == "opt":
        return gen_bad(t[1], rng) if t[1][0] != "any" else (None, "noop")
    if k == "int":
        c = rng.choice(["float", "str", "none", "list", "dict"])
    elif k == "float":
        c = rng.choice(["str", "none", "list", "dict", "huge", "huge"])
    elif k == "str":
        c = rng.choice(["int", "float", "bool", "none", "list", "dict"])
    elif k == "bool":
        c = rng.choice(["int", "int01", "float", "str", "none", "list"])
    elif k == "lany":
        c = rng.choice(["int", "str", "none", "dict", "bool", "anytuple"])
    elif k == "tany":
        c = rng.choice(["int", "str", "none", "dict", "bool", "float"])
    elif k == "dany":
        c = rng.choice(["int", "str", "none", "list", "bool"])
    elif k == "list":
        c = rng.choice(["int", "str", "none", "dict", "bool", "tuple"])
    elif k == "tvar":
        c = rng.choice(["int", "str", "none", "dict", "bool", "float"])
    elif k == "tfix":
        c = rng.choice(["int", "none", "bool", "float", "str_len", "dict_len", "longer", "shorter", "str", "dict"])
    elif k == "dict":
        c = rng.choice(["int", "str", "none", "list", "bool"])
    elif k == "struct":
        c = rng.choice(["int", "str", "none", "list", "bool", "float"])
    else:
        return None, "noop"
    if c in scal:
        return scal[c](), "wrong-scalar" if k in SCALARS else ("non-sized" if k == "tfix" else "wrong-container")
    if c == "int01":
        return rng.choice([0, 1]), "wrong-scalar"
    if c == "huge":
        return rng.choice([FLOAT_LIMIT, -FLOAT_LIMIT, 10 ** 400, -10 ** 309, 2 ** 1024]), "huge-int"
    if c == "list":
        return [gen_json(rng, 1) for _ in range(rng.randint(0, 2))], "wrong-container"
    if c == "dict":
        return {gen_str(rng): gen_json(rng, 1) for _ in range(rng.randint(0, 2))}, "wrong-container"
    if c == "tuple":
        return tuple(gen_valid(t[1], rng) for _ in range(rng.randint(0, 2))), "wrong-container"
    if c == "anytuple":
        return tuple(gen_json(rng, 0) for _ in range(rng.randint(0, 2))), "wrong-container"
    n = len(t[1])
    if c == "str_len":
        return "".join(rng.choice("abc#") for _ in range(n)), "sized-non-sequence"
    if c == "dict_len":
        return {f"k{i}": i for i in range(n)}, "sized-non-sequence"
    if c == "longer":
        return [gen_valid(x, rng) for x in t[1]] + [gen_json(rng, 0)], "tuple-length"
    if c == "shorter":
        if n == 0:
            return [1], "tuple-length"
        return [gen_valid(x, rng) for x in t[1]][:-1], "tuple-length"
    raise ValueError(c)


def positions(t, v, path=()):
    """aligned (path, descriptor, value) nodes of well-typed data (path = tuple of container keys/indices)"""
    out = [(path, t, v)]
    k = t[0]
    if k == "opt" and v is not None:
        out += positions(t[1], v, path)[1:]
    elif k in ("list", "tvar") and isinstance(v, (list, tuple)):
        for i, x in enumerate(v):
            out += positions(t[1], x, path + (i,))
    elif k == "tfix" and isinstance(v, (list, tuple)) and len(v) == len(t[1]):
        for i, x in enumerate(v):
            out += positions(t[1][i], x, path + (i,))
    elif k == "dict" and isinstance(v, dict):
        for kk, x in v.items():
            out += positions(t[1], x, path + (kk,))
    elif k == "struct" and isinstance(v, dict):
        for fname, ft, _, _ in t[2]:
            if fname in v:
                out += positions(ft, v[fname], path + (fname,))
    return out


def replace_at(v, path, new):
    if not path:
        return new
    h, rest = path[0], path[1:]
    if isinstance(v, dict):
        d = dict(v)
        d[h] = replace_at(v[h], rest, new)
        return d
    xs = list(v)
    xs[h] = replace_at(xs[h], rest, new)
    return tuple(xs) if isinstance(v, tuple) else xs


def mutate(t, v, rng):
    """one mutation of well-typed data; returns (data, mutation name)"""
    pos = positions(t, v)
    for _ in range(8):
        path, pt, pv = rng.choice(pos)
        while pt[0] == "opt":
            pt = pt[1]
        if pt[0] == "struct" and isinstance(pv, dict) and rng.random() < 0.6:
            d = dict(pv)
            required = [f for f in pt[2] if not f[2] and f[0] in d]
            r = rng.random()
            if r < 0.45 and required:
                del d[rng.choice(required)[0]]
                return replace_at(v, path, d), "missing-field"
            names = {f[0] for f in pt[2]}
            extra = rng.choice(["zz", "a b", "x.y", "[0]", "it's", 'q"', "é", "", "#", "A", "\ud800", "\n"])
            if extra not in names:
                items = list(d.items())
                items.insert(rng.randint(0, len(items)), (extra, gen_json(rng, 1)))
                return replace_at(v, path, dict(items)), "extra-field"
            continue
        if pt[0] in ("any", "never"):
            continue
        if pt[0] == "int" and rng.random() < 0.15:
            return replace_at(v, path, rng.random() < 0.5), "bool-in-int"      # admitted
        bad, name = gen_bad(pt, rng)
        if name == "noop":
            continue
        if not path and t[0] == "struct":
            continue            # the top-level data of config_struct_from_dict is a dict by contract
        return replace_at(v, path, bad), name
    return v, "none"


# ---------------------------------------------------------------------------
# the property, evaluated independently of the implementation and of the Lean model
# ---------------------------------------------------------------------------

def spec(t, v, path, off):
    """Reference semantics of the statement: the converted value (documented conversions only: int→float,
    list→tuple, defaults filled in) and, in `off`, every offending item (kind, path, type head, value class)."""
    k = t[0]
    if k == "any":
        return v
    if k == "opt":
        return None if v is None else spec(t[1], v, path, off)
    def bad():
        vc = val_class(v)
        off.append(("mismatch", list(path), k, "int" if (vc == "hugeint" and k != "float") else vc))
    if k == "int":
        if isinstance(v, int):
            return v
        return bad()
    if k == "float":
        if isinstance(v, float):
            return v
        if isinstance(v, int):
            if abs(v) >= FLOAT_LIMIT:
                return bad()                     # not representable: the type does not admit it
            return float(v)
        return bad()
    if k == "str":
        return v if isinstance(v, str) else bad()
    if k == "bool":
        return v if isinstance(v, bool) else bad()
    if k == "never":
        return bad()                                          # no value fits an unrecognised annotation
    if k == "lany":
        return v if isinstance(v, list) else bad()            # untyped: the container is checked, the content is not
    if k == "tany":
        return tuple(v) if isinstance(v, (list, tuple)) else bad()
    if k == "dany":
        return v if isinstance(v, dict) else bad()
    if k == "list":
        if isinstance(v, list):
            return [spec(t[1], x, path + [("i", i)], off) for i, x in enumerate(v)]
        return bad()
    if k == "tvar":
        if isinstance(v, (list, tuple)):
            return tuple(spec(t[1], x, path + [("i", i)], off) for i, x in enumerate(v))
        return bad()
    if k == "tfix":
        if isinstance(v, (list, tuple)) and len(v) == len(t[1]):
            return tuple(spec(t[1][i], x, path + [("i", i)], off) for i, x in enumerate(v))
        return bad()
    if k == "dict":
        if isinstance(v, dict):
            return {kk: spec(t[1], x, path + [("k", kk)], off) for kk, x in v.items()}
        return bad()
    if k == "struct":
        if isinstance(v, Inst):
            v = dict(v.fields)            # a dataclass instance is accepted as data: its own items
        if not isinstance(v, dict):
            return bad()
        items = []
        names = set()
        for fname, ft, hasd, d in t[2]:
            names.add(fname)
            if fname in v:
                items.append((fname, spec(ft, v[fname], path + [("f", fname)], off)))
            elif hasd:
                items.append((fname, copy.deepcopy(d)))
            else:
                off.append(("missing", path + [("f", fname)], ft[0], "absent"))
        for kk in v:
            if kk not in names:
                off.append(("unknown", path + [("f", kk)], "struct", "extra-key"))
        return Inst(t[1], items)
    raise ValueError(k)


def spec_to_dict(v):
    if isinstance(v, (list, tuple)):
        return [spec_to_dict(x) for x in v]
    if isinstance(v, dict):
        return {k: spec_to_dict(x) for k, x in v.items()}
    if isinstance(v, Inst):
        return {k: spec_to_dict(x) for k, x in v.fields}
    return v


def unordered(v):
    """canonical form in which struct/dict key order does not matter (JSON objects are unordered)"""
    if isinstance(v, (list, tuple)):
        return (type(v).__name__, [unordered(x) for x in v])
    if isinstance(v, dict):
        return ("dict", sorted(((k.encode("utf-8", "surrogatepass").hex(), unordered(x)) for k, x in v.items())))
    if isinstance(v, Inst):
        return ("inst", v.cls, [(k, unordered(x)) for k, x in v.fields])
    return enc_val(v)


CFG_PATTERNS = [
    ("mismatch", re.compile(r"^Type mismatch in configuration item (.*): got <class '[^']*'> while expecting .*$", re.S)),
    ("missing", re.compile(r"^Missing value for required configuration item (.*)$", re.S)),
    ("unknown", re.compile(r"^Unknown configuration item (.*)$", re.S)),
    ("toplevel", re.compile(r"^Expecting mapping at top level of configuration but got ()\w+$", re.S)),
    ("nonstrkey", re.compile(r"^Unsupported non-string dictionary key .* in configuration item (.*)$", re.S)),
]


def classify_cfg_error(msg: str):
    for kind, rx in CFG_PATTERNS:
        m = rx.match(msg)
        if m:
            return kind, m.group(1)
    return "other", msg


def run_parse(world: World, t, data, via: str, ordered: bool = False):
    """Run the real code. Returns (canonical line, outcome tuple)."""
    from qmi.core import config_struct as cs
    from qmi.core.exceptions import QMI_ConfigurationException
    T = world.realise(t)
    real = world.real(data, ordered)
    parse = (lambda d: cs.config_struct_from_dict(d, T)) if via == "from_dict" else (lambda d: cs._parse_config_value(d, T, []))
    todict = cs.config_struct_to_dict if via == "from_dict" else cs._inner_config_struct_to_dict
    before = enc_val(data)
    try:
        r = parse(real)
    except QMI_ConfigurationException as e:
        kind, p = classify_cfg_error(str(e))
        if enc_val(nv_from_real(real)) != before:
            return "input-mutated", ("mutated", "input data changed by a failing conversion")
        return f"exc:QMI_ConfigurationException {kind} {hexs(p)}", ("cfg", kind, p, str(e))
    except RecursionError:
        raise
    except Exception as e:  # noqa: BLE001 — the property is about which exception types escape
        return f"exc:{type(e).__name__}", ("exc", type(e).__name__, str(e))
    try:
        if enc_val(nv_from_real(real)) != before:
            return "input-mutated", ("mutated", "input data changed by the conversion")
        # the same data a second time: the same structure (no state kept between calls)
        if enc_val(nv_from_real(parse(real))) != enc_val(nv_from_real(r)):
            return "not-deterministic", ("mutated", "second conversion of the same data differs")
        rn = nv_from_real(r)
        d = todict(r)
        dn = nv_from_real(d)
    except Exception as e:  # noqa: BLE001
        return f"ok-but-todict-raised:{type(e).__name__}", ("todict-exc", type(e).__name__, str(e))
    try:
        r2 = parse(d)
        again = "same" if enc_val(nv_from_real(r2)) == enc_val(rn) else "diff " + enc_val(nv_from_real(r2))
        # Python-level equality of the two structures as well (dataclass __eq__), NaN aside
        if again == "same" and r2 != r and "nan" not in enc_val(rn):
            again = "diff-by-__eq__"
    except QMI_ConfigurationException as e:
        kind, p = classify_cfg_error(str(e))
        again = f"exc:QMI_ConfigurationException {kind} {hexs(p)}"
    except Exception as e:  # noqa: BLE001
        again = f"exc:{type(e).__name__}"
    return f"ok {enc_val(rn)} | {enc_val(dn)} | {again}", ("ok", rn, dn, again)


def oracle_parse(t, data, outcome):
    """Returns (clause signature, detail) or None."""
    off: list = []
    exp = spec(t, data, [], off)
    kind = outcome[0]
    if kind == "mutated":
        return "struct:input-mutated-or-stateful", outcome[1]
    if kind == "exc":
        # which offending item triggered it: the one whose repair makes the exception go away is found by the caller's
        # shrinker; here classify by the offending items present
        culprit = None
        for o in off:
            if (outcome[1] == "TypeError" and o[2] == "tfix" and o[3] in ("none", "bool", "int", "float")) or \
                    (outcome[1] == "OverflowError" and o[2] == "float" and o[3] == "hugeint"):
                culprit = o
                break
        if culprit is None and off:
            culprit = off[0]
        cls = f"{culprit[2]}:{culprit[3]}" if culprit else "admissible-data"
        return f"struct:only-config-error:{outcome[1]}:{cls}", f"{outcome[1]}: {outcome[2]}"
    if kind == "todict-exc":
        return f"struct:to-dict-raises:{outcome[1]}", outcome[2]
    if kind == "cfg":
        if not off:
            return "struct:rejected-admissible-data", outcome[3]
        named = {(o[0], render_path(o[1])) for o in off}
        if (outcome[1], outcome[2]) not in named:
            return f"struct:error-names-wrong-item:{outcome[1]}", f"message {outcome[3]!r}; offending items {sorted(named)}"
        return None
    # ok
    _, rn, dn, again = outcome
    if off:
        o = off[0]
        return f"struct:accepted-inadmissible:{o[0]}:{o[2]}:{o[3]}", f"offending {o[0]} at {render_path(o[1])!r} accepted"
    jsonlike = not ({"U", "O"} & {tok[0] for tok in enc_val(data).split(" ")})
    if enc_val(rn) != enc_val(exp):
        if unordered(rn) != unordered(exp):
            return "struct:value-altered", f"got {rn!r} expected {exp!r}"
        return "struct:field-order-altered", f"got {rn!r} expected {exp!r}"
    if unordered(dn) != unordered(spec_to_dict(exp)):
        return "struct:to-dict-differs", f"got {dn!r} expected {spec_to_dict(exp)!r}"
    if again != "same" and jsonlike:
        return "struct:roundtrip-differs", again
    return None


# ---------------------------------------------------------------------------
# the constructor installed by @configstruct
# ---------------------------------------------------------------------------

def run_ctor(world: World, t, kwargs):
    from qmi.core.exceptions import QMI_ConfigurationException
    T = world.realise(t)
    real = world.real(kwargs)
    try:
        r = T(**real)
    except QMI_ConfigurationException as e:
        kind, p = classify_cfg_error(str(e))
        return f"exc:QMI_ConfigurationException {kind} {hexs(p)}"
    except RecursionError:
        raise
    except Exception as e:  # noqa: BLE001
        return f"exc:{type(e).__name__}"
    return f"ok {enc_val(nv_from_real(r))}"


def oracle_ctor(t, kwargs, line):
    """per-field validation: a keyword value its declared type does not admit must not be accepted"""
    if not line.startswith("ok"):
        return None
    for fname, ft, _, _ in t[2]:
        if fname in kwargs:
            off: list = []
            spec(ft, spec_to_dict_keep_tuples(kwargs[fname]), [], off)
            if off:
                return f"ctor:accepted-inadmissible:{off[0][2]}:{off[0][3]}"
    return None


def spec_to_dict_keep_tuples(v):
    """what the constructor's validation sees: instances as dicts (dataclasses.asdict), tuples kept"""
    if isinstance(v, list):
        return [spec_to_dict_keep_tuples(x) for x in v]
    if isinstance(v, tuple):
        return tuple(spec_to_dict_keep_tuples(x) for x in v)
    if isinstance(v, dict):
        return {k: spec_to_dict_keep_tuples(x) for k, x in v.items()}
    if isinstance(v, Inst):
        return {k: spec_to_dict_keep_tuples(x) for k, x in v.fields}
    return v


# ---------------------------------------------------------------------------
# configuration texts
# ---------------------------------------------------------------------------

COMMENT_CHARS = ["a", " ", "#", '"', "\\", "'", "{", "}", "[", ",", ":", "1", "\t", "é", "\U0001f600", "\x00", "\\\"", '\\\\']
NEWLINES = ["\n", "\n", "\n", "\r\n", "\r"]


def gen_comment(rng) -> str:
    r = rng.random()
    if r < 0.2:
        return "#"
    if r < 0.4:
        return "# " + rng.choice(['plain', 'say "hi"', 'unbalanced " quote', 'back\\slash', 'a # b', '"k": 1,', "\\", '\\"', "}"])
    return "#" + "".join(rng.choice(COMMENT_CHARS) for _ in range(rng.randint(0, 8)))


def json_tokens(v, rng, ensure_ascii=None) -> list:
    """token list of a raw tree (RawObj = object with possibly duplicate keys)"""
    ea = (rng.random() < 0.5) if ensure_ascii is None else ensure_ascii
    if isinstance(v, RawObj) or isinstance(v, dict):
        pairs = v.pairs if isinstance(v, RawObj) else list(v.items())
        out = ["{"]
        for i, (k, x) in enumerate(pairs):
            if i:
                out.append(",")
            out.append(json.dumps(k, ensure_ascii=ea))
            out.append(":")
            out += json_tokens(x, rng, ea)
        return out + ["}"]
    if isinstance(v, (list, tuple)):
        out = ["["]
        for i, x in enumerate(v):
            if i:
                out.append(",")
            out += json_tokens(x, rng, ea)
        return out + ["]"]
    return [json.dumps(v, ensure_ascii=ea)]


def layout(tokens, rng, p_comment: float) -> str:
    """join tokens with random white space / line breaks; append comments to lines"""
    parts = []
    style = rng.choice(["dense", "lines", "mixed"])
    if rng.random() < 0.2:
        parts.append(gen_comment(rng) + rng.choice(NEWLINES))          # comment-only first line
    for tok in tokens:
        parts.append(tok)
        r = rng.random()
        if style == "dense":
            brk = r < 0.1
        elif style == "lines":
            brk = r < 0.8
        else:
            brk = r < 0.4
        if brk:
            if rng.random() < p_comment:
                parts.append(rng.choice(["", " ", "  ", "\t"]) + gen_comment(rng))
            parts.append(rng.choice(NEWLINES))
            if rng.random() < 0.15:
                parts.append(rng.choice(["", "   "]) + gen_comment(rng) + rng.choice(NEWLINES))   # comment-only line
            parts.append(rng.choice(["", "  ", "    ", "\t"]))
        else:
            parts.append(rng.choice(["", "", " "]))
    if rng.random() < p_comment:
        parts.append(gen_comment(rng))                                 # last line, no newline after it
    return "".join(parts)


def comment_lines(text: str, rng, p: float) -> str:
    """append a comment to each line of a json.dumps text with probability p"""
    lines = text.split("\n")
    out = []
    for ln in lines:
        if rng.random() < p:
            ln = ln + rng.choice(["", " ", "    "]) + gen_comment(rng)
        out.append(ln)
        if rng.random() < 0.1:
            out.append(rng.choice(["", "  "]) + gen_comment(rng))
    return rng.choice(["\n", "\n", "\r\n", "\r"]).join(out)


def dup_variant(v, rng):
    """raw tree with one duplicated key somewhere (v must contain a non-empty object); None if impossible"""
    spots = []

    def walk(x, path):
        if isinstance(x, dict):
            if x:
                spots.append(path)
            for k, y in x.items():
                walk(y, path + (k,))
        elif isinstance(x, list):
            for i, y in enumerate(x):
                walk(y, path + (i,))
    walk(v, ())
    if not spots:
        return None
    target = rng.choice(spots)

    def build(x, path):
        if isinstance(x, dict):
            pairs = [(k, build(y, path + (k,))) for k, y in x.items()]
            if path == target:
                k, y = rng.choice(pairs)
                y2 = y if rng.random() < 0.5 else gen_json(rng, 0)
                pairs.insert(rng.randint(0, len(pairs)), (k, y2))
            return RawObj(pairs)
        if isinstance(x, list):
            return [build(y, path + (i,)) for i, y in enumerate(x)]
        return x
    return build(v, ())


def raw_to_nv(x):
    if isinstance(x, RawObj):
        return {k: raw_to_nv(y) for k, y in x.pairs}
    if isinstance(x, list):
        return [raw_to_nv(y) for y in x]
    return x


def run_load(text: str):
    """real load_config_string -> canonical line"""
    from qmi.core.config import load_config_string
    from qmi.core.exceptions import QMI_ConfigurationException
    try:
        r = load_config_string(text)
    except QMI_ConfigurationException as e:
        kind, p = classify_cfg_error(str(e))
        return f"exc:QMI_ConfigurationException {kind} {hexs(p)}", None
    except RecursionError:
        raise
    except ValueError:
        return "exc:ValueError", None
    except Exception as e:  # noqa: BLE001
        return f"exc:{type(e).__name__}", None
    try:
        return "ok " + enc_val(nv_from_real(r)), r
    except TypeError as e:
        return f"ok-unencodable:{e}", r


def text_cps(s: str) -> str:
    return enc_str(s)


SOUP = ['"', "#", "\\", "a", " ", "\n", "\r", "{", "}", ":", ",", "[", "]", "1", '"a"', '"#"', "\\\"", "é"]


def ref_strip_line(line: str) -> Optional[str]:
    """Statement-level reference: a '#' outside a string starts a comment. Defined only for lines whose strings are
    all terminated (returns None otherwise)."""
    i, n = 0, len(line)
    while i < n:
        c = line[i]
        if c == "#":
            return line[:i]
        if c == '"':
            i += 1
            while True:
                if i >= n:
                    return None
                if line[i] == "\\":
                    if i + 1 >= n:
                        return None
                    i += 2
                elif line[i] == '"':
                    i += 1
                    break
                else:
                    i += 1
        else:
            i += 1
    return line


# ---------------------------------------------------------------------------
# the check
# ---------------------------------------------------------------------------

class C16(Prop):
    id = "C16"
    lean_modules = ["QmiModel.Props.C16"]
    driver = "drv_c16"
    modelled_not_verified = [
        "json.loads / json.dumps (parameters: the model takes the raw parse tree; `render` = json.dumps(indent=4) is compared "
        "differentially; json round-trip json.loads(json.dumps(d)) = d is assumed)",
        "the regex of _strip_comments is re-implemented as the 3-state scanner `scan` (validated differentially)",
        "floats are opaque (identified by repr; float(int) kept symbolic and resolved by Python's own float())",
        "the re-validation of already parsed values inside the @configstruct constructor (cls(**items)) is modelled as "
        "'build the instance'; theorem ctor_revalidation_noop shows the modelled constructor accepts the parsed items "
        "unchanged for well-formed descriptors (distinct fields, well-typed defaults) and JSON data; every generated "
        "descriptor is checked `wf` by the driver; an ill-typed default is outside the model",
        "Python repr() of dict keys in the error path (rendered by Python itself on both sides)",
        "which live annotation object is which raw type (typing.get_origin/get_args inspection in describe_raw; the code "
        "itself goes by repr()); PEP 585/604 generics and string annotations are classed `other` (validated differentially)",
        "dict keys are strings in the model: data with non-string keys is checked by the oracle only",
        "dataclass fields with init=False: modelled in the acceptance test (skipped), not in the parser (oracle-only corpus)",
        "file system, text decoding and universal newlines (open(..., 'r'/'w')), os.path.abspath, os.getenv at import: "
        "parameters of `createConfig`/`loadString`; exercised on real files (UTF-8, three newline styles, BOM, missing file)",
        "Python's recursion limit (nesting depth kept ≤ 40) and CPython's 4300-digit limit of int<->str conversion",
    ]

    # -- translator -------------------------------------------------------
    def translate(self, ctx: Ctx) -> list:
        order = describe_shipped()
        if not order:
            raise ValueError("no @configstruct class found in " + SHIPPED_MODULE)
        write_if_changed(GEN_FILE, gen_lean(order))
        write_if_changed(ROUTES_FILE, gen_routes_lean(*scan_routes()))
        return [GEN_FILE, ROUTES_FILE]

    # -- helpers ----------------------------------------------------------
    def _world(self) -> World:
        w = World()
        try:
            order = describe_shipped()
            for name, cls, d in order:
                w.classes[name] = cls
                w.shipped_classes[name] = cls
            w.shipped = [d for _, _, d in order]
        except Exception:  # the translator reports this; the correspondence goes on with generated types only
            w.shipped = []
        return w

    def _parse_failure(self, world, t, data, via, clause, detail, mutation="") -> Failure:
        t2, d2 = self._shrink(world, t, data, via, clause)
        return Failure(signature=clause,
                       summary=f"{via}: type `{enc_ty(t2)}` data `{enc_val(d2)}`: {clause} ({detail[:200]})",
                       replay={"kind": "parse", "via": via, "ty": enc_ty(t2), "val": enc_val(d2), "clause": clause,
                               "mutation": mutation})

    def _clause(self, world, t, data, via):
        try:
            _, outcome = run_parse(world, t, data, via)
        except RecursionError:
            return None
        o = oracle_parse(t, data, outcome)
        return o[0] if o else None

    def _shrink(self, world, t, data, via, clause):
        """greedy: drop struct fields / dict entries / list elements at the top two levels while the clause persists"""
        if t[0] != "struct" or not isinstance(data, dict):
            return t, data
        changed = True
        budget = 60
        while changed and budget > 0:
            changed = False
            for i in range(len(t[2])):
                budget -= 1
                fname = t[2][i][0]
                t2 = ("struct", world.fresh_name(), [f for j, f in enumerate(t[2]) if j != i])
                d2 = {k: v for k, v in data.items() if k != fname}
                try:
                    if self._clause(world, t2, d2, via) == clause:
                        t, data, changed = t2, d2, True
                        break
                except Exception:  # noqa: BLE001
                    pass
        return t, data

    # -- streams ----------------------------------------------------------
    def _struct_stream(self, ctx: Ctx, res: Result, world: World, n_types: int, n_data: int):
        rng = ctx.rng
        lines, impl, cases = [], [], []      # cases[i] = replay dict of line i (or None)

        def add_parse(t, data, via, mutation, ordered=False):
            try:
                line, outcome = run_parse(world, t, data, via, ordered)
            except RecursionError:
                return
            tyline = "ty " + enc_ty(t)
            if not lines or cur_ty[0] != tyline:
                lines.append(tyline)
                impl.append("ok")
                cases.append(None)
                cur_ty[0] = tyline
                lines.append("wf")           # the theorems' hypothesis holds for every descriptor we realise
                impl.append("true")
                cases.append({"kind": "parse", "via": via, "ty": enc_ty(t), "val": enc_val(data), "mutation": "wf"})
            lines.append("parse " + enc_val(data))
            impl.append(line)
            cases.append({"kind": "parse", "via": via, "ty": enc_ty(t), "val": enc_val(data), "mutation": mutation})
            res.traces_validated += 1
            res.count("parse_cases")
            res.count("mutation_" + mutation)
            res.count("outcome_" + (line.split(" ")[0] + (" " + line.split(" ")[1] if line.startswith("exc:QMI") else "")))
            res.note_case(("parse", enc_ty(t), enc_val(data)), nontrivial=(mutation != "none" or len(positions(t, data)) > 2))
            o = oracle_parse(t, data, outcome)
            if o and sum(1 for f in res.failures if f.signature == o[0]) < 1:
                res.failures.append(self._parse_failure(world, t, data, via, o[0], o[1], mutation))
            if len(res.samples) < 4 and mutation not in ("none",) and rng.random() < 0.02:
                res.sample({"type": enc_ty(t), "data": enc_val(data), "mutation": mutation, "impl": line[:200]})

        cur_ty = [None]
        # (1) systematic: every type head × every value head, bare and under wrappers
        for t, data, via in systematic_cases(world):
            add_parse(t, data, via, "systematic")
        for t, data, via in fixed_struct_corpus():
            add_parse(t, data, via, "fixed-corpus")
        clause = shared_default_check(world)
        res.note_case(("shared-defaults",))
        if clause and not any(f.signature == clause for f in res.failures):
            res.failures.append(Failure(clause, "two structures built from defaults share a mutable default object",
                                        {"kind": "shareddefault"}))
        # (2) shipped structures
        for d in world.shipped:
            for _ in range(max(4, n_data)):
                v = gen_valid(d, rng, json_only=True)
                add_parse(d, v, "from_dict", "none", ordered=rng.random() < 0.5)
                m, name = mutate(d, v, rng)
                add_parse(d, m, "from_dict", name)
        # (3) random descriptors
        for _ in range(n_types):
            struct_top = rng.random() < 0.75
            t = gen_type(rng, rng.randint(1, 4), world, struct_only=struct_top)
            via = "from_dict" if struct_top else "pcv"
            res.count("type_depth_%d" % ty_depth(t))
            for _ in range(n_data):
                v = gen_valid(t, rng)
                add_parse(t, v, via, "none", ordered=rng.random() < 0.3)
                for _ in range(2):
                    m, name = mutate(t, v, rng)
                    if name == "none":
                        continue
                    if rng.random() < 0.15:       # a second mutation on top
                        m2, name2 = mutate(t, m, rng)
                        if name2 != "none":
                            m, name = m2, "double"
                    add_parse(t, m, via, name)
            # the constructor
            if t[0] == "struct":
                for _ in range(2):
                    off: list = []
                    v = gen_valid(t, rng)
                    kw = v
                    r = rng.random()
                    if r < 0.3:
                        conv = spec(t, v, [], off)
                        kw = dict(conv.fields) if not off else v          # already converted values (tuples, instances)
                        # only the fields that were given
                        kw = {k: x for k, x in kw.items() if k in v}
                    elif r < 0.6:
                        kw, _ = mutate(t, v, rng)
                    if not isinstance(kw, dict):
                        continue
                    try:
                        line = run_ctor(world, t, kw)
                    except RecursionError:
                        continue
                    tyline = "ty " + enc_ty(t)
                    if cur_ty[0] != tyline:
                        lines.append(tyline)
                        impl.append("ok")
                        cases.append(None)
                        cur_ty[0] = tyline
                    lines.append("ctor " + enc_val(kw))
                    impl.append(line)
                    cases.append({"kind": "ctor", "ty": enc_ty(t), "val": enc_val(kw)})
                    clause = oracle_ctor(t, kw, line)
                    if clause and not any(f.signature == clause for f in res.failures):
                        res.failures.append(Failure(clause, f"constructor of `{enc_ty(t)}` with `{enc_val(kw)}` -> {line[:120]}",
                                                    {"kind": "ctor", "ty": enc_ty(t), "val": enc_val(kw)}))
                    res.count("ctor_cases")
                    res.count("ctor_" + line.split(" ")[0])
                    res.note_case(("ctor", enc_ty(t), enc_val(kw)))
        self._diff(res, "parseValue/construct vs config_struct", lines, impl, cases)

    def _diff(self, res: Result, name: str, lines, impl, cases, model=None):
        if model is None:
            model = [norm_model_line(l) for l in LeanDriver(self.driver).run(lines)]
        n_bad = 0
        for i, (a, b) in enumerate(zip(impl, model)):
            if a != b:
                n_bad += 1
                if n_bad <= 3:
                    res.broken.append(Broken("correspondence", name,
                                             f"op={lines[i][:300]!r}\n impl ={a[:400]!r}\n model={b[:400]!r}", case=cases[i]))
        if n_bad:
            res.count("correspondence_mismatches", n_bad)

    def _text_stream(self, ctx: Ctx, res: Result, n_docs: int):
        from qmi.core.config import _strip_comments, dump_config_string, load_config_string
        rng = ctx.rng
        texts = []        # (text, kind, expected nv or None, replay)
        for _ in range(n_docs):
            d = gen_json(rng, rng.randint(1, 4), top=True)
            r = rng.random()
            if r < 0.35:
                indent = rng.choice([None, 0, 1, 2, 4, 4])
                base = json.dumps(d, indent=indent, ensure_ascii=rng.random() < 0.5)
                text = comment_lines(base, rng, rng.choice([0.0, 0.3, 1.0]))
                texts.append((text, "commented-dumps", d))
            elif r < 0.7:
                text = layout(json_tokens(d, rng), rng, rng.choice([0.0, 0.5, 1.0]))
                texts.append((text, "commented-layout", d))
            elif r < 0.9:
                raw = dup_variant(d, rng)
                if raw is None:
                    continue
                text = layout(json_tokens(raw, rng), rng, rng.choice([0.0, 0.5]))
                texts.append((text, "duplicate-key", None))
            else:
                kind = rng.choice(["soup", "toplevel", "truncate"])
                if kind == "soup":
                    text = "".join(rng.choice(SOUP) for _ in range(rng.randint(0, 14)))
                elif kind == "toplevel":
                    text = layout(json_tokens(gen_json(rng, 1), rng), rng, 0.5)
                else:
                    text = layout(json_tokens(d, rng), rng, 0.5)
                    text = text[:rng.randint(0, len(text))]
                texts.append((text, "malformed", None))
        texts += [(t, "systematic", None) for t in systematic_texts()]
        texts += fixed_texts()

        # stage 1: _strip_comments
        lines1 = ["strip " + text_cps(t) for t, _, _ in texts]
        impl1 = [enc_str(_strip_comments(t)) for t, _, _ in texts]
        cases1 = [{"kind": "load", "text": [ord(c) for c in t], "class": k} for t, k, _ in texts]
        model1 = LeanDriver(self.driver).run(lines1)
        self._diff(res, "stripComments vs _strip_comments", lines1, impl1, cases1, model1)

        # stage 2: json.loads (parameter) on the *model's* stripped text, then the model's hook + top-level check
        lines2, impl2, cases2, post = [], [], [], []
        for (text, kind, exp), m1, case in zip(texts, model1, cases1):
            try:
                line, result = run_load(text)
            except RecursionError:
                continue
            res.count("text_" + kind)
            res.count("load_" + line.split(" ")[0])
            res.note_case(("text", text), nontrivial=("#" in text))
            res.traces_validated += 1
            # ---- oracle (statement level, independent of the model) ----
            clause = None
            if kind.startswith("commented"):
                if not line.startswith("ok ") or line != "ok " + enc_val(exp):
                    clause = "load:comments-not-ignored-exactly"
                ncomm = sum(1 for ln in re.split(r"[\r\n]", text) if ref_strip_line(ln) not in (None, ln))
                res.count("comment_lines", ncomm)
            elif kind == "duplicate-key":
                if line.startswith("ok"):
                    clause = "load:duplicate-key-accepted"
                elif line not in ("exc:ValueError",) and not line.startswith("exc:QMI_ConfigurationException"):
                    clause = "load:duplicate-key-other-exception:" + line
            if clause and not any(f.signature == clause for f in res.failures):
                res.failures.append(Failure(clause, f"{kind}: text {text[:120]!r} -> {line[:120]}",
                                            {"kind": "load", "text": [ord(c) for c in text], "class": kind,
                                             "expected": enc_val(exp) if exp is not None else None}))
            # ---- model pipeline ----
            try:
                stripped = dec_str(m1)
            except Exception:  # noqa: BLE001
                continue
            try:
                raw = json.loads(stripped, object_pairs_hook=RawObj)
            except RecursionError:
                continue
            except ValueError:
                lines2.append("hook N")            # keeps the streams aligned; answer replaced below
                impl2.append(line)
                cases2.append(case)
                post.append(("const", "exc:ValueError"))
                continue
            lines2.append("hook " + enc_val(raw))
            impl2.append(line)
            cases2.append(case)
            post.append(("tree", raw))
        model2 = LeanDriver(self.driver).run(lines2) if lines2 else []
        final2 = []
        for m, (k, x) in zip(model2, post):
            if k == "const":
                final2.append(x)
            elif m == "ok":
                final2.append("ok " + enc_val(raw_to_nv(x)))
            else:
                final2.append(norm_model_line(m))
        self._diff(res, "strip→json→loadTree vs load_config_string", lines2, impl2, cases2, final2)

        # stage 3: dump_config_string, and dump→load round trip
        lines3, impl3, cases3 = [], [], []
        for _ in range(n_docs // 2):
            r = rng.random()
            if r < 0.8:
                d = gen_json(rng, rng.randint(1, 4), top=True)
            elif r < 0.9:
                d = gen_json(rng, 1)                     # often not a dict
            else:
                d = {"t": tuple(gen_json(rng, 1) for _ in range(rng.randint(0, 2))), "x": gen_json(rng, 1)}
            jsonlike = isinstance(d, dict) and "U" not in [t[0] for t in enc_val(d).split(" ")]
            try:
                s = dump_config_string(copy.deepcopy(d))
                line = "ok " + enc_str(s)
            except Exception as e:  # noqa: BLE001
                from qmi.core.exceptions import QMI_ConfigurationException
                s = None
                line = ("exc:QMI_ConfigurationException toplevel -" if isinstance(e, QMI_ConfigurationException)
                        else f"exc:{type(e).__name__}")
            lines3.append("dump " + enc_val(d))
            impl3.append(line)
            cases3.append({"kind": "dumpload", "val": enc_val(d)})
            res.count("dump_cases")
            res.note_case(("dump", enc_val(d)))
            if jsonlike:
                clause = None
                if s is None:
                    clause = "load:dump-raises:" + line
                else:
                    back, _ = run_load(s)
                    if back != "ok " + enc_val(d):
                        clause = "load:dump-load-differs"
                if clause and not any(f.signature == clause for f in res.failures):
                    res.failures.append(Failure(clause, f"dump/load of {enc_val(d)[:150]}: {clause}",
                                                {"kind": "dumpload", "val": enc_val(d)}))
        self._diff(res, "render vs dump_config_string", lines3, impl3, cases3)

    def _dump_of_structs(self, ctx: Ctx, res: Result, world: World, n: int):
        """config_struct_to_dict → dump_config_string → load_config_string → config_struct_from_dict"""
        from qmi.core import config_struct as cs
        from qmi.core.config import dump_config_string, load_config_string
        rng = ctx.rng
        lines, impl, cases = [], [], []
        for _ in range(n):
            t = gen_type(rng, rng.randint(1, 3), world, struct_only=True)
            v = gen_valid(t, rng, json_only=True)
            off: list = []
            exp = spec(t, v, [], off)
            if off or "nan" in enc_val(exp):
                continue
            T = world.realise(t)
            try:
                r = cs.config_struct_from_dict(world.real(v), T)
                text = dump_config_string(cs.config_struct_to_dict(r))
                r2 = cs.config_struct_from_dict(load_config_string(text), T)
                ok = enc_val(nv_from_real(r2)) == enc_val(nv_from_real(r))
            except RecursionError:
                continue
            except Exception as e:  # noqa: BLE001
                ok = False
                text = f"{type(e).__name__}: {e}"
            res.count("struct_file_roundtrips")
            res.note_case(("file", enc_ty(t), enc_val(v)))
            if not ok and not any(f.signature == "struct:file-roundtrip-differs" for f in res.failures):
                res.failures.append(Failure("struct:file-roundtrip-differs",
                                            f"type `{enc_ty(t)}` data `{enc_val(v)}`: from_dict∘load∘dump∘to_dict ≠ id ({text[:100]})",
                                            {"kind": "file", "ty": enc_ty(t), "val": enc_val(v)}))
            # model: dump of the model's toDict (float(int) placeholders resolved here)
            if ok:
                lines.append("dump " + enc_val(spec_to_dict(exp)))
                impl.append("ok " + enc_str(text))
                cases.append({"kind": "file", "ty": enc_ty(t), "val": enc_val(v)})
        self._diff(res, "render∘toDict vs dump_config_string∘config_struct_to_dict", lines, impl, cases)

    # -- entry points -----------------------------------------------------
    def correspondence(self, ctx: Ctx) -> Result:
        res = Result(rule="struct cases: (type descriptor realised as real @configstruct classes, data tree, mutation) — "
                          "systematic type-head × value-head table, the shipped structures, random descriptors of depth ≤ 4 "
                          "with valid data and one/two-mutation mismatches, constructor calls; text cases: JSON documents with "
                          "comments appended to lines, '#'/quotes/backslashes in strings, duplicate keys, malformed text, dumps. "
                          "Fixed corpus first on every seed (related field names, depth-30/40 nesting, aliasing, numeric and "
                          "tuple-length boundaries, escape-spelled duplicate keys, Unicode line separators inside strings, '#' at "
                          "every line boundary); raw annotations incl. every rejected class against checkType/parseRaw/fromDictFull; "
                          "non-dict top-level data; non-string keys and init=False (oracle only); create_config_from_file on real "
                          "files (argument / $QMI_CONFIG / neither); dump_config_file/load_config_file on real files. "
                          "Non-trivial = mutated or nested data / text containing '#'; distinct by (type, data) resp. text")
        world = self._world()
        self._struct_stream(ctx, res, world, ctx.scale(1200, 30000), ctx.scale(4, 6))
        self._text_stream(ctx, res, ctx.scale(8000, 200000))
        self._dump_of_structs(ctx, res, world, ctx.scale(500, 12000))
        from harness.props import c16_ext as X
        X.raw_stream(self, ctx, res, world, ctx.scale(500, 8000))
        X.odd_corner_corpus(self, ctx, res, world)
        X.createcfg_stream(self, ctx, res, world)
        X.routes_stream(self, ctx, res, world, ctx.scale(120, 1500))
        X.file_stream(self, ctx, res, ctx.scale(150, 3000))
        X.history_stream(self, ctx, res, world, ctx.scale(150, 3000))
        res.assumptions.append("json.loads(json.dumps(d)) == d for JSON-representable d (third-party parameter)")
        return res

    def search(self, ctx: Ctx, broken) -> Result:
        res = Result()
        world = self._world()
        for b in broken:
            if b.case:
                f = self.replay(ctx, b.case, world)
                res.note_case(("case", repr(b.case)[:200]))
                if f and not any(x.signature == f.signature for x in res.failures):
                    res.failures.append(f)
        # systematic sweep: the type-head × value-head table under two levels of wrappers
        for t, data, via in systematic_cases(world, deep=True):
            try:
                _, outcome = run_parse(world, t, data, via)
            except RecursionError:
                continue
            res.note_case(("sweep", enc_ty(t), enc_val(data)))
            o = oracle_parse(t, data, outcome)
            if o and not any(x.signature == o[0] for x in res.failures):
                res.failures.append(self._parse_failure(world, t, data, via, o[0], o[1], "sweep"))
        # all short token lines: the statement-level comment rule
        from qmi.core.config import _strip_comments
        for text in systematic_texts(deep=True):
            res.note_case(("sweep-text", text))
            exp = ref_strip_line(text)
            if "\n" in text or "\r" in text or exp is None:
                continue
            got = _strip_comments(text)
            if got != exp and not any(x.signature == "load:comments-not-ignored-exactly" for x in res.failures):
                res.failures.append(Failure("load:comments-not-ignored-exactly",
                                            f"_strip_comments({text!r}) = {got!r}, the comment rule gives {exp!r}",
                                            {"kind": "strip", "text": [ord(c) for c in text]}))
        return res

    def replay(self, ctx: Ctx, rp: dict, world: Optional[World] = None):
        world = world or self._world()
        kind = rp.get("kind")
        if kind in ("history", "aliasing"):
            from harness.props import c16_ext as X
            return X.replay_history(rp)
        if kind == "route":
            from harness.props import c16_ext as X
            return X.replay_route(world, rp)
        if kind in ("raw", "rawparse", "rawfrom", "nonstr", "initfalse", "createcfg", "filerw", "fileload", "filefixed"):
            from harness.props import c16_ext as X
            if kind in ("raw", "rawparse", "rawfrom"):
                return X.replay_raw(world, rp)
            if kind == "nonstr":
                sig = X.run_nonstr_case(rp["case"])
                return Failure(sig, f"non-string key case {rp['case']}", rp) if sig else None
            if kind == "initfalse":
                sig = X.run_init_false_case(rp["case"])
                return Failure(sig, f"init=False case {rp['case']}", rp) if sig else None
            if kind == "fileload":
                return X.replay_fileload(rp)
            if kind == "filerw":
                return self.replay(ctx, {"kind": "dumpload", "val": rp["val"]}, world)
            return None            # createcfg / filefixed: deterministic corpus, re-run by the check itself
        if kind == "parse":
            t, data = dec_ty(rp["ty"]), dec_val(rp["val"])
            _register(world, t)
            _, outcome = run_parse(world, t, data, rp.get("via", "from_dict"))
            o = oracle_parse(t, data, outcome)
            if o:
                return Failure(o[0], f"type `{rp['ty']}` data `{rp['val']}`: {o[0]} ({o[1][:200]})", rp)
            return None
        if kind == "ctor":
            t, kw = dec_ty(rp["ty"]), dec_val(rp["val"])
            _register(world, t)
            line = run_ctor(world, t, kw)
            clause = oracle_ctor(t, kw, line)
            return Failure(clause, f"constructor of `{rp['ty']}` with `{rp['val']}` -> {line[:120]}", rp) if clause else None
        if kind in ("load", "strip"):
            text = "".join(chr(c) for c in rp["text"])
            from qmi.core.config import _strip_comments
            if kind == "strip":
                exp = ref_strip_line(text)
                got = _strip_comments(text)
                if exp is not None and got != exp:
                    return Failure("load:comments-not-ignored-exactly", f"{text!r} -> {got!r} ≠ {exp!r}", rp)
                return None
            line, _ = run_load(text)
            cls = rp.get("class", "")
            if cls.startswith("commented") and rp.get("expected") is not None and line != "ok " + rp["expected"]:
                return Failure("load:comments-not-ignored-exactly", f"{text[:120]!r} -> {line[:120]}", rp)
            if cls.startswith("commented") and rp.get("expected") is None:
                # a correspondence case: recompute the expectation with the reference comment rule + json
                exp_lines = [ref_strip_line(ln) for ln in re.split(r"[\r\n]", text)]
                if None not in exp_lines:
                    try:
                        exp = json.loads("\n".join(exp_lines))
                        if line != "ok " + enc_val(exp):
                            return Failure("load:comments-not-ignored-exactly", f"{text[:120]!r} -> {line[:120]}", rp)
                    except ValueError:
                        pass
            if cls == "duplicate-key" and line.startswith("ok"):
                return Failure("load:duplicate-key-accepted", f"{text[:120]!r} -> {line[:120]}", rp)
            return None
        if kind == "dumpload":
            from qmi.core.config import dump_config_string
            d = dec_val(rp["val"])
            if not isinstance(d, dict) or "U" in [t[0] for t in rp["val"].split(" ")]:
                return None
            try:
                s = dump_config_string(copy.deepcopy(d))
            except Exception as e:  # noqa: BLE001
                return Failure(f"load:dump-raises:exc:{type(e).__name__}", str(e), rp)
            back, _ = run_load(s)
            if back != "ok " + rp["val"]:
                return Failure("load:dump-load-differs", f"{rp['val'][:150]}", rp)
            return None
        if kind == "file":
            from qmi.core import config_struct as cs
            from qmi.core.config import dump_config_string, load_config_string
            t, v = dec_ty(rp["ty"]), dec_val(rp["val"])
            _register(world, t)
            T = world.realise(t)
            try:
                r = cs.config_struct_from_dict(world.real(v), T)
                r2 = cs.config_struct_from_dict(load_config_string(dump_config_string(cs.config_struct_to_dict(r))), T)
                if enc_val(nv_from_real(r2)) == enc_val(nv_from_real(r)):
                    return None
            except Exception:  # noqa: BLE001
                pass
            return Failure("struct:file-roundtrip-differs", f"type `{rp['ty']}` data `{rp['val']}`", rp)
        raise ValueError(f"unknown replay kind {kind!r}")


def fixed_struct_corpus():
    """boundary cases that run first on every seed: related field names, deep nesting, reused sub-objects"""
    i, s = ("int",), ("str",)
    names = ["host", "hos", "host_", "Host", "HOST", "_host"]
    rel = ("struct", "FixRel", [(n, s, n != "host", n.upper()) for n in names])
    out = []
    for extra in ["hosts", "ost", "hOst", "host ", " host", "host\u0000", "HOS", "", "host.x", "[host]"]:
        out.append((rel, {"host": "h", extra: "v"}, "from_dict"))
    out.append((rel, {"Host": "h"}, "from_dict"))                     # the required `host` is missing, not `Host`
    out.append((rel, {n: n for n in names}, "from_dict"))
    out.append((rel, {n: n for n in reversed(names)}, "from_dict"))
    # a Dict whose keys are the field names of the enclosing structure; a field named like a dict key of its sibling
    out.append((("struct", "FixRel2", [("a", ("dict", i), False, None), ("b", i, True, 0)]), {"a": {"a": 1, "b": 2}}, "from_dict"))
    out.append((("struct", "FixRel2", [("a", ("dict", i), False, None), ("b", i, True, 0)]), {"a": {"b": "x"}, "b": 1}, "from_dict"))
    # the same sub-object in two places (aliasing in the input)
    shared = {"p": 1}
    inner = ("struct", "FixIn", [("p", i, False, None)])
    out.append((("struct", "FixAl", [("u", inner, False, None), ("v", inner, False, None), ("w", ("any",), True, None)]),
                {"u": shared, "v": shared, "w": shared}, "from_dict"))
    # a dataclass instance as data (the constructor's re-validation route): validated through its own items
    fi = ("struct", "FixI", [("p", i, False, None), ("w", ("any",), True, None)])
    out += [(fi, Inst("FixI", [("p", 1), ("w", None)]), "pcv"),
            (fi, Inst("FixI", [("p", 1), ("w", Inst("FixI", [("p", 2), ("w", None)]))]), "pcv"),
            (fi, Inst("FixI", [("p", "bad"), ("w", None)]), "pcv"),
            (("list", fi), [Inst("FixI", [("p", 1), ("w", [1, 2])]), {"p": 2}], "pcv"),
            (("struct", "FixO", [("i", fi, False, None)]), {"i": Inst("FixI", [("p", 3), ("w", {"k": 1})])}, "from_dict")]
    # nesting: 30 levels of List / Optional / Dict around a scalar (well below Python's recursion limit), 8 of structures
    t, v, bad = i, 7, "x"
    for k in range(30):
        kind = ("list", "dict", "opt", "tvar")[k % 4]
        if kind == "list":
            t, v, bad = ("list", t), [v], [bad]
        elif kind == "dict":
            t, v, bad = ("dict", t), {"k": v}, {"k": bad}
        elif kind == "opt":
            t = ("opt", t)
        else:
            t, v, bad = ("tvar", t), [v, v], [v, bad]
    out += [(t, v, "pcv"), (t, bad, "pcv")]
    st, sv = ("struct", "FixN0", [("x", i, False, None)]), {"x": 1}
    for k in range(1, 8):
        st, sv = ("struct", f"FixN{k}", [("n", st, False, None), ("d", i, True, k)]), {"n": sv}
    out += [(st, sv, "from_dict")]
    # boundaries of the numeric tower
    out += [(("float",), FLOAT_LIMIT - 1, "pcv"), (("float",), FLOAT_LIMIT, "pcv"), (("float",), -FLOAT_LIMIT + 1, "pcv"),
            (("float",), -FLOAT_LIMIT, "pcv"), (("opt", ("float",)), FLOAT_LIMIT, "pcv"), (("int",), 10 ** 4000, "pcv")]
    # fixed tuples around their length
    for n in range(0, 4):
        tt = ("tfix", [i] * n)
        for m in (n - 1, n, n + 1):
            if m >= 0:
                out.append((tt, [1] * m, "pcv"))
                out.append((tt, tuple([1] * m), "pcv"))
    return out


def shared_default_check(world: World):
    """default_factory defaults must be fresh per structure: changing one structure must not change the next"""
    from qmi.core import config_struct as cs
    for d in world.shipped:
        cls = world.shipped_classes[d[1]]
        required = [f for f in d[2] if not f[2]]
        if required:
            continue
        for make in (lambda: cls(), lambda: cs.config_struct_from_dict({}, cls)):
            a = make()
            ref = enc_val(nv_from_real(make()))
            for f in dataclasses.fields(a):
                v = getattr(a, f.name)
                if isinstance(v, list):
                    v.append("poison")
                elif isinstance(v, dict):
                    v["poison"] = 1
                elif dataclasses.is_dataclass(v):
                    for g in dataclasses.fields(v):
                        w = getattr(v, g.name)
                        if isinstance(w, dict):
                            w["poison"] = 1
                        elif isinstance(w, list):
                            w.append("poison")
            if enc_val(nv_from_real(make())) != ref:
                return "struct:shared-mutable-default:" + d[1]
    return None


def fixed_texts():
    """documents at the boundaries of the comment and duplicate-key rules (first on every seed)"""
    out = []
    bs = chr(92)
    # a key written twice with different escapes is the same key
    for t in ['{"a": 1, "' + bs + 'u0061": 2}', '{"k": {"": 1, "": 2}}',
              '[{"x": 1}, {"y": {"z": 1, "' + bs + 'u007a": 2}}]', '{"é": 1, "' + bs + 'u00e9": 2}',
              '{"a": [{"b": 1, "b": 1}]}', '{"a": 1,' + chr(10) + '#c' + chr(10) + '"a": 1}']:
        out.append((t, "duplicate-key", None))
    # keys that only look alike are different keys
    for d in [{"a": 1, "A": 2}, {"a": 1, "a ": 2}, {"": 1, " ": 2}, {"é": 1, "e" + chr(0x301): 2}, {"1": 1, chr(0xFF11): 2}]:
        out.append((json.dumps(d, ensure_ascii=False), "commented-fixed", d))
    # characters str.splitlines() treats as line ends are ordinary characters inside a JSON string
    for cp in [0x2028, 0x2029, 0x85, 0x7F, 0xA0, 0xFEFF]:
        c = chr(cp)
        d = {"a" + c + "#": "x" + c + "# not a comment", "b": 1}
        out.append((json.dumps(d, ensure_ascii=False) + " # c" + c + "still the comment", "commented-fixed", d))
    # '#' and quotes at every boundary of a line
    nl, cr, q = chr(10), chr(13), '"'
    for t, d in [("#" + nl + "{}", {}), ("{}#", {}), ("{}" + nl + "#", {}),
                 ('{"a": "' + bs + bs + '"}#"', {"a": bs}),
                 ('{"a": "' + bs + q + '"}#' + bs + q, {"a": q}),
                 ('{"a":"#"}#"#"', {"a": "#"}), ('{"#":"#"#' + nl + "}", {"#": "#"}),
                 ('{"a": 1 #,"b": 2' + nl + "}", {"a": 1}),
                 ('{"a": "b' + bs + bs + bs + q + '#c"} # d', {"a": "b" + bs + q + "#c"}),
                 (cr + nl + "{" + cr + '"a"' + cr + ":" + cr + "1" + cr + "}" + cr + "#", {"a": 1})]:
        out.append((t, "commented-fixed", d))
    # nesting depth 40, a comment (with a quote in it) on every line
    deep: Any = 1
    for _ in range(40):
        deep = {"k#": [deep]}
    out.append((nl.join(ln + ' # c"' for ln in json.dumps(deep, indent=1).split(nl)), "commented-fixed", deep))
    return out


def jsonable_ops(ops):
    return [list(o) for o in ops]


def _register(world: World, t) -> None:
    """make sure the classes of a decoded descriptor exist (nested first)"""
    world.realise(t)


def ty_depth(t) -> int:
    k = t[0]
    if k in SCALARS:
        return 0
    if k in UNARY:
        return 1 + ty_depth(t[1])
    if k == "tfix":
        return 1 + max([ty_depth(x) for x in t[1]] + [0])
    return 1 + max([ty_depth(f[1]) for f in t[2]] + [0])


def systematic_cases(world: World, deep: bool = False):
    """every type head × every value head, as a field of a struct, bare (`_parse_config_value`) and under wrappers"""
    inner_struct = ("struct", "SysInner", [("p", ("int",), False, None), ("q", ("str",), True, "dflt")])
    heads = [
        ("int",), ("float",), ("str",), ("bool",), ("any",),
        ("opt", ("int",)), ("opt", ("tfix", [("int",), ("int",)])), ("opt", ("any",)),
        ("list", ("int",)), ("tvar", ("int",)), ("tfix", []), ("tfix", [("int",)]),
        ("tfix", [("int",), ("str",)]), ("dict", ("int",)), inner_struct,
        ("list", ("tfix", [("float",), ("float",)])), ("dict", ("tfix", [("int",), ("int",)])),
        ("lany", "List"), ("lany", "list"), ("tany", "Tuple"), ("dany", "Dict"), ("dany", "dict"),
        ("opt", ("lany", "list")), ("list", ("dany", "Dict")), ("dict", ("tany", "Tuple")),
    ]
    values = [
        None, True, False, 0, 1, -7, 10 ** 30, FLOAT_LIMIT - 1, FLOAT_LIMIT, -FLOAT_LIMIT, 10 ** 400,
        0.0, 1.5, float("nan"), float("inf"), "", "a", "ab", "#\"\\",
        [], [1], [1, "a"], [1, 2], [1, 2, 3], [1.5, 2], [None], [[1, 2]], [5], ["x"],
        {}, {"p": 1}, {"p": 1, "q": "s"}, {"p": "bad"}, {"q": "s"}, {"p": 1, "zz": 2}, {"a": 1, "b": 2}, {"k": [1, 2]}, {"k": 5},
        (1, 2), (1,), (),
    ]
    wrappers = [lambda t: t]
    if deep:
        wrappers += [lambda t: ("list", t), lambda t: ("dict", t), lambda t: ("opt", t) if t[0] != "opt" else t,
                     lambda t: ("tfix", [t, ("int",)]), lambda t: ("tvar", t)]
    n = 0
    for wi, w in enumerate(wrappers):
        for h in heads:
            t = w(h)
            for v in values:
                if wi == 0:
                    yield t, v, "pcv"
                    n += 1
                    outer = ("struct", f"Sys{n}", [("x", t, False, None)])
                    yield outer, {"x": v}, "from_dict"
                    outer_d = ("struct", f"SysD{n}", [("w", ("int",), True, 3), ("x", t, False, None)])
                    if v is None:
                        yield outer_d, {}, "from_dict"
                else:
                    n += 1
                    wrapped = {1: [v], 2: {"k#": v}, 3: v, 4: [v, 1], 5: [v, v]}[wi]
                    outer = ("struct", f"SysW{n}", [("x", t, False, None)])
                    yield outer, {"x": wrapped}, "from_dict"


def systematic_texts(deep: bool = False):
    """short lines over the characters the comment rule distinguishes"""
    alphabet = ['"', "#", "\\", "a"]
    out = []
    for n in range(0, 7 if deep else 6):
        for tup in itertools.product(alphabet, repeat=n):
            out.append("".join(tup))
    out += ['{"a": 1} # c', '{"a#": "#"} # "', '{"a": "\\"#"}#', '{"a": "\\\\"}#x"', '{"a": 1,\n"a": 2}', "# only\n{}", "{}\r\n#x\r{}",
            '{"k": "v" # "unterminated\n}', '{"a": "x\\', '{"a": "\\\n"}#', "[1, 2] # top-level list", "7"]
    return out


PROP = C16()
